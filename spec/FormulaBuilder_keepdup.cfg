SPECIFICATION Spec
CONSTANTS
  AtomSeq <- XY
  MaxCalls = 4
  MaxRefs = 2
  AutoCompact = TRUE
  KeepDuplicates = TRUE
  KeepAll = FALSE
  MaxArity = 2
INVARIANT TypeOK
INVARIANT KeysInRange
INVARIANT IndexesPointAtTheirContent
INVARIANT MeaningPreserved
CONSTRAINT ExportHist
CHECK_DEADLOCK FALSE

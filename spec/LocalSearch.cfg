CONSTANT N = 3
CONSTANT K = 2
SPECIFICATION Spec
INVARIANT LocalOptimum
INVARIANT ScoreIsOfResult
INVARIANT Bounded
PROPERTY Terminates
CHECK_DEADLOCK FALSE

CONSTANTS
  ClearCacheOnSetWeight = TRUE
  EvidenceCheckOld = TRUE

---------------------------- MODULE JudgeCircuit ----------------------------
(***************************************************************************)
(* C09 / C10, translation validation (flow F-A).  A case is one run of the *)
(* real pipeline  LogicFormula -> LogicDAG -> CNF -> DDNNF  with every     *)
(* intermediate artefact recorded.  Judged here:                           *)
(*  dagAcyclic, dagMeaning : cycle breaking preserves the well-founded     *)
(*                value of every query/evidence node for every assignment  *)
(*  cnfModel, cnfUnique    : Clark's completion has exactly one model      *)
(*                extending each atom assignment allowed by the            *)
(*                constraints, and it agrees with the DAG on every node    *)
(*  cnfConstraints         : exactly-one clauses of every AD constraint    *)
(*  nnf*                   : decomposable, deterministic, smooth, same     *)
(*                models as the CNF, labels point to the same literals     *)
(***************************************************************************)
EXTENDS Circuit, Json, IOUtils

Cases == JsonDeserialize(IOEnv.CASES_FILE)

\* atoms are matched between graphs by identity string
IdsOf(g) == { g[k].id : k \in AtomNodes(g) }
TrueAtomNodes(g, asg) == { k \in AtomNodes(g) : g[k].det = 1 \/ (g[k].det = 0 /\ g[k].id \in asg) }

DagMeaning(C) ==
  \A asg \in SUBSET (IdsOf(C.src) \cup IdsOf(C.dag)) :
     LET ws == WFM(GraphRules("s", C.src, asg))
         V  == EvalDag(C.dag, TrueAtomNodes(C.dag, asg))
     IN  \A i \in DOMAIN C.names :
           LET n == C.names[i]
               sv == KeyValue("s", ws, n.src)
           IN  (sv = "T" /\ KeyTrue(n.dag, V)) \/ (sv = "F" /\ ~KeyTrue(n.dag, V))

\* constraint clauses: an assignment of the atoms is allowed iff it satisfies them
ConstraintClauses(C) == UNION {
     LET ns == C.constraints[i]
     IN  { {-ns[a], -ns[b]} : <<a, b>> \in { p \in (DOMAIN ns) \X (DOMAIN ns) : p[1] < p[2] } }
         \cup { { ns[a] : a \in DOMAIN ns } }
     : i \in DOMAIN C.constraints }
ClauseSets(C) == { { C.cnf.clauses[j][i] : i \in DOMAIN C.cnf.clauses[j] } : j \in DOMAIN C.cnf.clauses }
CnfConstraints(C) == ConstraintClauses(C) \subseteq ClauseSets(C)
SetClauseSat(c, M) == \E l \in c : LitTrue(l, M)

\* DAG node k is CNF variable k
CnfCheck(C) ==
  LET g == C.dag
      atoms == AtomNodes(g)
      comps == CompNodes(g)
      full  == Cardinality(comps) <= 9
  IN  \A T \in SUBSET { k \in atoms : g[k].det = 0 } :
        LET T1 == T \cup { k \in atoms : g[k].det = 1 }
            V == EvalDag(g, T1)
            allowed == \A c \in ConstraintClauses(C) : SetClauseSat(c, T1)
        IN  IF allowed
            THEN /\ CNFSat(C.cnf, V)
                 /\ IF full
                    THEN \A X \in SUBSET comps : CNFSat(C.cnf, T1 \cup X) => (T1 \cup X) = V
                    ELSE \A k \in comps : ~CNFSat(C.cnf, IF k \in V THEN V \ {k} ELSE V \cup {k})
            ELSE ~CNFSat(C.cnf, V)

\* the d-DNNF: atoms carry the CNF variable they stand for in field var
NnfVarsTrue(C, M) == { k \in AtomNodes(C.nnf) : C.nnf[k].var \in M }
NnfCheck(C) ==
  LET g == C.nnf
      n == C.cnf.nvars
      root == Len(g)
      mentioned == { g[k].var : k \in AtomNodes(g) }
  IN  [ decomposable |-> Decomposable(g),
        smooth |-> Smooth(g),
        deterministic |-> \A M \in SUBSET (1..n) : DeterministicUnder(g, EvalDag(g, NnfVarsTrue(C, M))),
        sameModels |-> IF root = 0 THEN TRUE
                       ELSE \A M \in SUBSET (1..n) : CNFSat(C.cnf, M) <=> (root \in EvalDag(g, NnfVarsTrue(C, M))),
        labels |-> \A i \in DOMAIN C.names :
                      LET nm == C.names[i]
                      IN  IF nm.cnf = 0 \/ nm.cnf = FKey THEN nm.nnf = nm.cnf
                          ELSE IF nm.nnf = FKey
                               \* a label may be FALSE exactly when its literal is false in every model of the CNF
                               THEN \A M \in SUBSET (1..n) : CNFSat(C.cnf, M) => ~LitTrue(nm.cnf, M)
                               ELSE /\ nm.nnf # 0
                                    /\ g[AbsI(nm.nnf)].t = "atom" /\ g[AbsI(nm.nnf)].var = AbsI(nm.cnf)
                                    /\ (nm.nnf > 0) = (nm.cnf > 0),
        \* constraints are carried over: the circuit has, on the atoms that stand for the same CNF variables, exactly the
        \* constraints of the CNF (C.cc / C.nc: one sequence <<kind, extra, members...>> per constraint, in CNF variables, sorted)
        constraints |-> C.cc = C.nc ]

JudgeCase(C) ==
  LET nn == IF C.hasnnf = 1 THEN NnfCheck(C)
            ELSE [ decomposable |-> TRUE, smooth |-> TRUE, deterministic |-> TRUE, sameModels |-> TRUE, labels |-> TRUE, constraints |-> TRUE ]
  IN  [ id |-> C.id,
        dagAcyclic |-> Acyclic(C.dag),
        dagMeaning |-> DagMeaning(C),
        cnfConstraints |-> CnfConstraints(C),
        cnfCompletion |-> CnfCheck(C),
        nnfDecomposable |-> nn.decomposable, nnfSmooth |-> nn.smooth, nnfDeterministic |-> nn.deterministic,
        nnfSameModels |-> nn.sameModels, nnfLabels |-> nn.labels, nnfConstraints |-> nn.constraints ]

Results == [ c \in DOMAIN Cases |-> JudgeCase(Cases[c]) ]
ASSUME ndJsonSerialize(IOEnv.OUT_FILE, Results)
=============================================================================

SPECIFICATION Spec
CONSTANTS
  Consts = {1}
  Functors = {1}
  DontCache = {}
  MaxOps = 2
  CanonPerGoal = FALSE
INVARIANT Refines
INVARIANT HitsAreInstances
CHECK_DEADLOCK FALSE

---------------------------- MODULE ContainersUH ----------------------------
(* UHeap: the array heap with its item->position index refines a finite map item -> key;
   pop returns an item of minimal key.  Every history of push (new item, same key, smaller key,
   larger key) / pop / peek is explored. *)
EXTENDS Containers
CONSTANTS Items, KeyVals, MaxOps
VARIABLES m, h, last, nops
vars == <<m, h, last, nops>>

Init == m = << >> /\ h = << >> /\ last = <<"init">> /\ nops = 0

Push(it, k) == /\ nops < MaxOps
               /\ m' = UHA_Push(m, it, k) /\ h' = UHB_Push(h, it, k)
               /\ last' = <<"push", it \notin DOMAIN m, UHB_IndexOf(h, it) = 0>>   \* is_new: abstract, concrete
               /\ nops' = nops + 1
Pop == /\ nops < MaxOps /\ h # << >>
       /\ LET r == UHB_Pop(h)
          IN  /\ h' = r.heap /\ m' = UHA_Remove(m, r.res[2])
              /\ last' = <<"pop", r.res[1], r.res[2], r.res[2] \in UHA_MinItems(m), r.res[1] = UHA_MinKey(m)>>
       /\ nops' = nops + 1
Peek == /\ h # << >> /\ last' = <<"peek", h[1][2] \in UHA_MinItems(m)>> /\ UNCHANGED <<m, h, nops>>

Next == (\E it \in Items, k \in KeyVals : Push(it, k)) \/ Pop \/ Peek
Spec == Init /\ [][Next]_vars

Refines     == UHB_Abs(h) = m
HeapOrdered == UHB_HeapOrdered(h) /\ UHB_NoDupItems(h)
PushResult  == last[1] = "push" => last[2] = last[3]
PopIsMin    == last[1] = "pop" => last[4] /\ last[5]
PeekIsMin   == last[1] = "peek" => last[2]
\* "pops items in non-decreasing key order": with no push in between, successive pops do not decrease
PopMonotone == [][(last[1] = "pop" /\ last'[1] = "pop") => last[2] <= last'[2]]_vars
=============================================================================

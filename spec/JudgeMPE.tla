---------------------------- MODULE JudgeMPE ----------------------------
(***************************************************************************)
(* C20 / C21 judges over Semantics.tla.                                    *)
(* MPE: a case holds the program P (probabilistic facts and body-free ADs  *)
(* with pairwise distinct atoms, rules, evidence) and the assignment the   *)
(* real MPE task returned for the choice atoms it grounded.  A world is    *)
(* CONSISTENT with the assignment when every assigned atom has that value. *)
(*   unsat      : no positive-weight world satisfies the evidence          *)
(*   maxW       : largest weight of an evidence-satisfying world           *)
(*   bestCons   : largest weight of an evidence-satisfying world that is   *)
(*                consistent with the returned assignment (0 if none)      *)
(*   margCons   : total weight of the worlds consistent with the           *)
(*                assignment (its marginal probability)                    *)
(* DT: P additionally lists decision atoms (facts with weight 1/1 that the *)
(* strategy fixes) and utilities; EU of every strategy is computed exactly.*)
(***************************************************************************)
EXTENDS Semantics, Json, IOUtils
Cases == JsonDeserialize(IOEnv.CASES_FILE)

\* value the world w gives to the ground choice atom named (f, a): 1 true, 0 false, 2 = no such choice atom
AtomValue(P, w, f, a) ==
  LET fj == { j \in DOMAIN P.facts : P.facts[j].atom.f = f /\ GA(P.facts[j].atom, << >>).a = a }
      ad == { <<i, k>> \in (DOMAIN P.ads) \X (1..5) : k \in DOMAIN P.ads[i].heads
                  /\ P.ads[i].heads[k].atom.f = f /\ GA(P.ads[i].heads[k].atom, << >>).a = a }
  IN  IF fj # {} THEN w[<<"f", CHOOSE j \in fj : TRUE, << >> >>]
      ELSE IF ad # {} THEN LET ik == CHOOSE x \in ad : TRUE IN IF w[<<"a", ik[1], << >> >>] = ik[2] THEN 1 ELSE 0
      ELSE 2

ConsistentW(P, w, asg) == \A i \in DOMAIN asg : AtomValue(P, w, asg[i].f, asg[i].a) \in {asg[i].v, 2}

\* depth-first walk over all worlds, folding [maxW, bestCons, margCons, den]
RECURSIVE WalkM(_, _, _, _, _, _, _)
WalkM(P, cs, k, w, R, wt, asg) ==
  IF k > Len(cs)
  THEN LET wf == WFM(R)
           ok == wt > 0 /\ EvOK(P, wf[1], wf[2])
           cons == ConsistentW(P, w, asg)
       IN  [ maxW |-> IF ok THEN wt ELSE 0, bestCons |-> IF ok /\ cons THEN wt ELSE 0,
             margCons |-> IF cons THEN wt ELSE 0, den |-> IF ok THEN wt ELSE 0 ]
  ELSE LET c == cs[k]
           MaxI(a, b) == IF a > b THEN a ELSE b
           RECURSIVE Br(_)
           Br(v) == LET here == WalkM(P, cs, k + 1, (c :> v) @@ w, R \cup ChoiceRules(P, c, v), wt * ChoiceNum(P, c, v), asg)
                    IN  IF v = Arity(P, c) THEN here
                        ELSE LET r == Br(v + 1)
                             IN  [ maxW |-> MaxI(here.maxW, r.maxW), bestCons |-> MaxI(here.bestCons, r.bestCons),
                                   margCons |-> here.margCons + r.margCons, den |-> here.den + r.den ]
       IN  Br(0)

JudgeMPECase(C) ==
  LET P == C.prog
      r == WalkM(P, ChoiceSeq(P), 1, << >>, GroundRules(P), 1, C.asg)
  IN  [ id |-> C.id, total |-> Den(P), den |-> r.den, maxW |-> r.maxW, bestCons |-> r.bestCons, margCons |-> r.margCons ]

Results == [ c \in DOMAIN Cases |-> JudgeMPECase(Cases[c]) ]
ASSUME ndJsonSerialize(IOEnv.OUT_FILE, Results)
=============================================================================

---------------------------- MODULE JudgeADConstraint ----------------------------
(***************************************************************************)
(* C06, Layer A on recorded runs of ConstraintAD.add: with head weights    *)
(* C.w (tenths), the initial evidence values C.evv0 and the final table    *)
(* C.evv / the heads whose add() returned FALSE (C.ret; "" = no entry):    *)
(* every recorded value holds in every choice (one head or "none") of      *)
(* positive weight that agrees with the initial values.                    *)
(***************************************************************************)
EXTENDS Naturals, Sequences, Json, IOUtils
Cases == JsonDeserialize(IOEnv.CASES_FILE)
RECURSIVE SumSeq(_, _)
SumSeq(w, i) == IF i > Len(w) THEN 0 ELSE w[i] + SumSeq(w, i + 1)
JudgeCase(C) ==
  LET H == DOMAIN C.w
      choices == { c \in H \cup {0} : IF c = 0 THEN SumSeq(C.w, 1) < 10 ELSE C.w[c] > 0 }
      worlds == { c \in choices : \A h \in H : C.evv0[h] # "" => ((C.evv0[h] = "T") = (c = h)) }
  IN  [ id |-> C.id,
        ok |-> \A c \in worlds : \A h \in H : /\ (C.evv[h] # "" => ((C.evv[h] = "T") = (c = h)))
                                                 /\ (C.ret[h] = "F" => c # h) ]
Results == [ c \in DOMAIN Cases |-> JudgeCase(Cases[c]) ]
ASSUME ndJsonSerialize(IOEnv.OUT_FILE, Results)
=============================================================================

---------------------------- MODULE JudgeArith ----------------------------
(* C16, flow F-A: recorded outcomes of is/2, arithmetic comparison and between/3 on the real engine are
   judged against Arith.tla.  outcome.ok: 1 = succeeded, 0 = failed, 2 = ProbLog error. *)
EXTENDS Arith, Json, IOUtils
Cases == JsonDeserialize(IOEnv.CASES_FILE)

JudgeIs(C) ==
  LET e == Eval(C.expr)
      o == C.out
  IN  IF ~e.ok
      THEN IF e.err = "unrep" THEN "skip"
           \* division by zero must be an error; where Prolog raises a TYPE error (float operand of //, mod, /\ ...)
           \* the property only demands that no internal exception escapes: a ProbLog error or a value is accepted
           ELSE IF o.ok = 2 THEN "" ELSE IF e.err = "type" THEN "skip" ELSE "no-error-for-" \o e.err
      ELSE IF o.ok # 1 THEN (IF o.ok = 2 THEN "unexpected-error" ELSE "is-failed")
      ELSE IF o.rep = 0 THEN "value"                      \* result not even on the quarter grid
      ELSE IF o.q # e.q THEN "value"
      ELSE IF e.k # "v" /\ o.k # e.k THEN "type"
      ELSE ""

JudgeCmp(C) ==
  LET x == Eval(C.x)
      y == Eval(C.y)
  IN  IF ~x.ok \/ ~y.ok
      THEN IF (~x.ok /\ x.err = "unrep") \/ (~y.ok /\ y.err = "unrep") THEN "skip"
           ELSE IF C.out = 2 THEN "" ELSE "no-error-in-comparison"
      ELSE IF C.out = 2 THEN "unexpected-error"
      ELSE IF (C.out = 1) # Compare(C.op, x, y) THEN "comparison" ELSE ""

\* N is Expr with N a number: succeeds iff Expr evaluates to that value AND that type (1 is 1.0 fails: is/2 unifies)
JudgeIsBound(C) ==
  LET e == Eval(C.expr)
      n == Eval(C.n)
  IN  IF ~e.ok THEN (IF e.err = "unrep" \/ e.err = "type" THEN "skip" ELSE IF C.out = 2 THEN "" ELSE "no-error-for-" \o e.err)
      ELSE IF C.out = 2 THEN "unexpected-error"
      ELSE IF e.k = "v" THEN "skip"                        \* result type differs between the reference systems
      ELSE IF (C.out = 1) # (e.q = n.q /\ e.k = n.k) THEN "is-with-bound-left-hand-side" ELSE ""

JudgeBetween(C) ==
  IF C.ok = 2 THEN "unexpected-error"
  ELSE IF C.sols # Between(C.l, C.h, C.x, C.xbound = 1) THEN "between-solutions" ELSE ""

JudgeCase(C) ==
  LET why == CASE C.kind = "is" -> JudgeIs(C) [] C.kind = "cmp" -> JudgeCmp(C) [] C.kind = "between" -> JudgeBetween(C) [] C.kind = "isb" -> JudgeIsBound(C)
  IN  [ id |-> C.id, ok |-> (why = "" \/ why = "skip"), skipped |-> why = "skip", why |-> why ]
Results == [ c \in DOMAIN Cases |-> JudgeCase(Cases[c]) ]
ASSUME ndJsonSerialize(IOEnv.OUT_FILE, Results)
=============================================================================

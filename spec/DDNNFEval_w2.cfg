SPECIFICATION MCSpec
CONSTANTS
  NV = 2
  MaxEv = 2
  MaxQ = 2
  WeightKind = 2
  ClearCacheOnSetWeight = TRUE
  EvidenceCheckOld = TRUE
CHECK_DEADLOCK FALSE
INVARIANT InitCorrect
INVARIANT ResultsCorrect
INVARIANT EvidenceCorrect
INVARIANT WeightsRestored
INVARIANT CacheSound

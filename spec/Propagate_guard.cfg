SPECIFICATION MCSpec
CONSTANTS
  NComp = 2
  RefKind = 1
  MaxEv = 1
  OnlyCyclic = FALSE
  DisjTrueAll = TRUE
CHECK_DEADLOCK FALSE
INVARIANT Sound

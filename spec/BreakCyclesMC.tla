---------------------------- MODULE BreakCyclesMC ----------------------------
(* Model-checking instance of BreakCycles.tla: graph families, exporter.  *)
EXTENDS BreakCycles, Json

CONSTANTS NComp,        \* number of compound nodes (after the two atoms)
          RefKind,      \* 1: a, b, -b, compounds; 2: also negated compounds; 3: a, -b, compounds (large instances)
          MaxQ,         \* number of labelled nodes processed
          WithEvidence, \* the last labelled node is an evidence node (fresh translation table)
          WithEvv       \* evidence propagation is on: every SOUND set of propagated values is tried

Atoms2 == << AtomNode("a"), AtomNode("b") >>
CompIds == 3..(2 + NComp)
Refs == CASE RefKind = 1 -> {1, 2, -2} \cup CompIds
          [] RefKind = 2 -> {1, 2, -2} \cup CompIds \cup { -k : k \in CompIds }
          [] RefKind = 3 -> {1, -2} \cup CompIds
ChildSeqs == { <<x>> : x \in Refs } \cup { <<x, y>> : x \in Refs, y \in Refs }
CompNodes == { Node(t, ch) : t \in {"conj", "disj"}, ch \in ChildSeqs }

Graphs == { Atoms2 \o c : c \in [ 1..NComp -> CompNodes ] }
\* every compound node must be reachable from node 3 (the first query); at least one cycle; no cycle through negation
Relevant(g) == /\ CompIds \subseteq ({3} \cup ReachFrom(g, Reach1(g, 3), {}))
               /\ Cyclic(g) /\ NoNegCycle(g)

QKeys == CompIds \cup { -k : k \in CompIds }
QSeqs == UNION { [ 1..n -> QKeys ] : n \in 1..MaxQ }
QuerySeqsOf(g) == { [ i \in DOMAIN s |-> [ key |-> s[i],
                                           phase |-> IF WithEvidence /\ i = Len(s) /\ i > 1 THEN 2 ELSE 1 ] ]
                    : s \in { x \in QSeqs : AbsKey(x[1]) = 3 } }

\* the evidence loop of break_cycles runs AFTER the queries, but lookup_evidence was filled before break_cycles is called
PartialMaps == UNION { [ S -> {0, FKey} ] : S \in SUBSET (1..(2 + NComp)) }
MCInit == /\ src \in { g \in Graphs : Relevant(g) }
          /\ queries \in QuerySeqsOf(src)
          /\ evv \in (IF WithEvv THEN PartialMaps ELSE { << >> })
          /\ EvvSound
          /\ (WithEvv => \E asg \in SUBSET Ids : Consistent(WFM(GraphRules("s", src, asg))))     \* the evidence is satisfiable
          /\ InitRest
MCSpec == MCInit /\ [][Next]_vars

Done == qi > Len(queries)
Proj == [ src |-> src, queries |-> queries, results |-> results, nodes |-> st.nodes,
          evv |-> [ n \in 1..Len(src) |-> IF n \in DOMAIN evv THEN evv[n] ELSE -1 ] ]
Export == Done => PrintT(<<"HIST", ToJson(Proj)>>)
=============================================================================

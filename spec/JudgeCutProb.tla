---------------------------- MODULE JudgeCutProb ----------------------------
(***************************************************************************)
(* C33 on probabilistic rule sets (same world walk as JudgeFindall): in    *)
(* every possible world the answers of cut(r(...), I) are those of the     *)
(* applicable rule with the smallest index (Cut!CutAnswers); the           *)
(* probability of an answer is the total weight of the worlds giving it.   *)
(* --- original header of the world walk:                                  *)
(* C19, Layer A + judge.  findall/3 and all/3 over probabilistic goals:    *)
(* for every possible world (an assignment of the ground probabilistic     *)
(* choices) the world's deterministic program is run by the SLD            *)
(* interpreter (SLD.tla); the probability of a result list is the total    *)
(* weight of the worlds in which the ordered solution list (Prolog order,  *)
(* duplicates included) is that list.                                      *)
(* case: clauses  : Seq([h, b, c, v])  c = index of the choice the clause  *)
(*                  depends on (0 = deterministic), v = required value     *)
(*       choices  : Seq(Seq(Int)) numerators of the values 1..n of each    *)
(*                  choice (value 0 = 'none' gets den - sum)               *)
(*       den      : common denominator of every choice                     *)
(*       q        : the query term (one answer per world, or none)         *)
(***************************************************************************)
EXTENDS Cut, Json, IOUtils
Cases == JsonDeserialize(IOEnv.CASES_FILE)

RECURSIVE SumS(_)
SumS(s) == IF s = << >> THEN 0 ELSE Head(s) + SumS(Tail(s))
NumOf(C, i, v) == IF v = 0 THEN C.den - SumS(C.choices[i]) ELSE C.choices[i][v]

WorldProgram(C, w) ==
  LET keep == SelectSeq([ i \in DOMAIN C.clauses |-> i ], LAMBDA i : C.clauses[i].c = 0 \/ w[C.clauses[i].c] = C.clauses[i].v)
  IN  [ k \in DOMAIN keep |-> [ h |-> C.clauses[keep[k]].h, b |-> C.clauses[keep[k]].b ] ]

\* walk all worlds; result: sequence of [ans |-> Seq(term) (answers of q in that world), wt |-> weight, ovf]
RECURSIVE Worlds(_, _, _, _)
Worlds(C, i, w, wt) ==
  IF i > Len(C.choices)
  THEN IF wt = 0 THEN << >>
       ELSE LET r == CutAnswers(WorldProgram(C, w), C.q) IN << [ ans |-> r.ans, wt |-> wt, ovf |-> r.ovf ] >>
  ELSE LET RECURSIVE Br(_)
           Br(v) == LET here == Worlds(C, i + 1, Append(w, v), wt * NumOf(C, i, v))
                    IN  IF v = Len(C.choices[i]) THEN here ELSE here \o Br(v + 1)
       IN  Br(0)

RECURSIVE DenPow(_, _)
DenPow(d, n) == IF n = 0 THEN 1 ELSE d * DenPow(d, n - 1)

JudgeCase(C) ==
  LET ws == Worlds(C, 1, << >>, 1)
      ovf == \E i \in DOMAIN ws : ws[i].ovf
      answers == UNION { { ws[i].ans[j] : j \in DOMAIN ws[i].ans } : i \in DOMAIN ws }
      numOf(a) == SumS([ i \in DOMAIN ws |-> IF \E j \in DOMAIN ws[i].ans : ws[i].ans[j] = a THEN ws[i].wt ELSE 0 ])
  IN  [ id |-> C.id, ovf |-> ovf, total |-> DenPow(C.den, Len(C.choices)),
        expected |-> IF ovf THEN << >> ELSE SetToSeq({ [ ans |-> a, num |-> numOf(a) ] : a \in answers }) ]
Results == [ c \in DOMAIN Cases |-> JudgeCase(Cases[c]) ]
ASSUME ndJsonSerialize(IOEnv.OUT_FILE, Results)
=============================================================================

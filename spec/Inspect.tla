---------------------------- MODULE Inspect ----------------------------
(***************************************************************************)
(* Layer A: the term-inspection and small integer relations of C16, with   *)
(* their Prolog solution SEQUENCES for the supported call modes:           *)
(* functor/3, arg/3, =../2, length/2, succ/2, plus/3, between/3 and the    *)
(* type tests var, nonvar, atom, atomic, number, integer, float, compound, *)
(* callable, is_list, ground.                                              *)
(* Builtin(g) = [sup |-> mode supported, sols |-> Seq(instance of g)]      *)
(* Fresh variables introduced by a builtin are numbered from 900.          *)
(***************************************************************************)
EXTENDS SLD

Atom(cs)   == [ t |-> "a", c |-> cs ]
IntT(n)    == [ t |-> "i", v |-> n ]
VarT(n)    == [ t |-> "v", n |-> n ]
Cmp(cs, args) == [ t |-> "c", c |-> cs, a |-> args ]
IsAtomic(x) == x.t = "a" \/ x.t = "i" \/ x.t = "f" \/ x.t = "s"
IsNumber(x) == x.t = "i" \/ x.t = "f"
IsCallable(x) == x.t = "a" \/ x.t = "c"
RECURSIVE IsProperList(_)
IsProperList(x) == (x.t = "a" /\ x.c = <<91, 93>>) \/ (x.t = "c" /\ x.c = <<46>> /\ Len(x.a) = 2 /\ IsProperList(x.a[2]))
RECURSIVE IsPartialList(_)
IsPartialList(x) == x.t = "c" /\ x.c = <<46>> /\ Len(x.a) = 2 /\ (x.a[2].t = "v" \/ IsPartialList(x.a[2]))
RECURSIVE ListToSeq(_)
ListToSeq(x) == IF x.t = "c" /\ x.c = <<46>> /\ Len(x.a) = 2 THEN <<x.a[1]>> \o ListToSeq(x.a[2]) ELSE << >>

Unsup == [ sup |-> FALSE, sols |-> << >> ]
\* one candidate solution: unify the pairs in order; success gives one instance of g
One(g, pairs) ==
  LET RECURSIVE U(_, _)
      U(i, s) == IF i > Len(pairs) THEN [ ok |-> TRUE, s |-> s ]
                 ELSE LET r == Unify(pairs[i][1], pairs[i][2], s) IN IF r.ok THEN U(i + 1, r.s) ELSE [ ok |-> FALSE, s |-> s ]
      r == U(1, << >>)
  IN  IF r.ok THEN << Apply(g, r.s) >> ELSE << >>
Sup(sols) == [ sup |-> TRUE, sols |-> sols ]
Test(g, b) == Sup(IF b THEN <<g>> ELSE << >>)

RECURSIVE ArgSols(_, _, _, _)
ArgSols(g, T, X, i) == IF i > Len(T.a) THEN << >> ELSE One(g, << <<g.a[1], IntT(i)>>, <<X, T.a[i]>> >>) \o ArgSols(g, T, X, i + 1)
RECURSIVE BetweenSols(_, _, _)
BetweenSols(g, l, h) == IF l > h THEN << >> ELSE One(g, << <<g.a[3], IntT(l)>> >>) \o BetweenSols(g, l + 1, h)

FunctorName(T) == IF T.t = "c" THEN Atom(T.c) ELSE T

Builtin(g) ==
  LET f == g.c
      n == Len(g.a)
      A(i) == g.a[i]
  IN
  IF f = <<102,117,110,99,116,111,114>> /\ n = 3 THEN            \* functor
     IF A(1).t # "v" THEN Sup(One(g, << <<A(2), FunctorName(A(1))>>, <<A(3), IntT(IF A(1).t = "c" THEN Len(A(1).a) ELSE 0)>> >>))
     ELSE IF A(3).t = "i" /\ A(3).v = 0 /\ IsAtomic(A(2)) THEN Sup(One(g, << <<A(1), A(2)>> >>))
     ELSE IF A(3).t = "i" /\ A(3).v > 0 /\ A(2).t = "a"
          THEN Sup(One(g, << <<A(1), Cmp(A(2).c, [ i \in 1..A(3).v |-> VarT(900 + i) ])>> >>))
     ELSE Unsup
  ELSE IF f = <<97,114,103>> /\ n = 3 THEN                          \* arg
     IF A(2).t # "c" THEN Unsup
     ELSE IF A(1).t = "i" THEN Sup(IF A(1).v >= 1 /\ A(1).v <= Len(A(2).a) THEN One(g, << <<A(3), A(2).a[A(1).v]>> >>) ELSE << >>)
     ELSE IF A(1).t = "v" THEN Sup(ArgSols(g, A(2), A(3), 1))
     ELSE Unsup
  ELSE IF f = <<61,46,46>> /\ n = 2 THEN                            \* =..
     IF A(1).t # "v" THEN Sup(One(g, << <<A(2), MkList(<<FunctorName(A(1))>> \o (IF A(1).t = "c" THEN A(1).a ELSE << >>))>> >>))
     ELSE IF IsProperList(A(2)) /\ Len(ListToSeq(A(2))) >= 1
          THEN LET l == ListToSeq(A(2)) IN
               IF Len(l) = 1 /\ IsAtomic(l[1]) THEN Sup(One(g, << <<A(1), l[1]>> >>))
               ELSE IF Len(l) > 1 /\ l[1].t = "a" THEN Sup(One(g, << <<A(1), Cmp(l[1].c, Tail(l))>> >>))
               ELSE Unsup
     ELSE Unsup
  ELSE IF f = <<108,101,110,103,116,104>> /\ n = 2 THEN             \* length
     IF IsProperList(A(1)) THEN Sup(One(g, << <<A(2), IntT(Len(ListToSeq(A(1))))>> >>))
     ELSE IF A(1).t = "v" /\ A(2).t = "i" /\ A(2).v >= 0
          THEN Sup(One(g, << <<A(1), MkList([ i \in 1..A(2).v |-> VarT(900 + i) ])>> >>))
     \* partial list [e1,...,ek|T] with a given length n: T is closed with n - k fresh variables; no solution when n < k
     ELSE IF IsPartialList(A(1)) /\ A(2).t = "i"
          THEN LET pre == ListToSeq(A(1))
                   k == Len(pre)
               IN  IF A(2).v < k THEN Sup(<< >>)
                   ELSE Sup(One(g, << <<A(1), MkList(pre \o [ i \in 1..(A(2).v - k) |-> VarT(900 + i) ])>> >>))
     ELSE Unsup
  ELSE IF f = <<115,117,99,99>> /\ n = 2 THEN                       \* succ
     IF A(1).t = "i" /\ A(1).v >= 0 THEN Sup(One(g, << <<A(2), IntT(A(1).v + 1)>> >>))
     ELSE IF A(1).t = "v" /\ A(2).t = "i" /\ A(2).v > 0 THEN Sup(One(g, << <<A(1), IntT(A(2).v - 1)>> >>))
     ELSE IF A(1).t = "v" /\ A(2).t = "i" /\ A(2).v = 0 THEN Sup(<< >>)
     ELSE Unsup
  ELSE IF f = <<112,108,117,115>> /\ n = 3 THEN                     \* plus
     IF A(1).t = "i" /\ A(2).t = "i" THEN Sup(One(g, << <<A(3), IntT(A(1).v + A(2).v)>> >>))
     ELSE IF A(1).t = "i" /\ A(3).t = "i" THEN Sup(One(g, << <<A(2), IntT(A(3).v - A(1).v)>> >>))
     ELSE IF A(2).t = "i" /\ A(3).t = "i" THEN Sup(One(g, << <<A(1), IntT(A(3).v - A(2).v)>> >>))
     ELSE Unsup
  ELSE IF f = <<98,101,116,119,101,101,110>> /\ n = 3 THEN          \* between
     IF A(1).t = "i" /\ A(2).t = "i" /\ A(3).t = "i" THEN Test(g, A(1).v <= A(3).v /\ A(3).v <= A(2).v)
     ELSE IF A(1).t = "i" /\ A(2).t = "i" /\ A(3).t = "v" THEN Sup(BetweenSols(g, A(1).v, A(2).v))
     ELSE Unsup
  ELSE IF n = 1 THEN
     CASE f = <<118,97,114>> -> Test(g, A(1).t = "v")
       [] f = <<110,111,110,118,97,114>> -> Test(g, A(1).t # "v")
       [] f = <<97,116,111,109>> -> Test(g, A(1).t = "a")
       [] f = <<97,116,111,109,105,99>> -> Test(g, IsAtomic(A(1)))
       [] f = <<110,117,109,98,101,114>> -> Test(g, IsNumber(A(1)))
       [] f = <<105,110,116,101,103,101,114>> -> Test(g, A(1).t = "i")
       [] f = <<102,108,111,97,116>> -> Test(g, A(1).t = "f")
       [] f = <<99,111,109,112,111,117,110,100>> -> Test(g, A(1).t = "c")
       [] f = <<99,97,108,108,97,98,108,101>> -> Test(g, IsCallable(A(1)))
       [] f = <<105,115,95,108,105,115,116>> -> Test(g, IsProperList(A(1)))
       [] f = <<103,114,111,117,110,100>> -> Test(g, Ground(A(1)))
       [] OTHER -> Unsup
  ELSE Unsup
=============================================================================

SPECIFICATION Spec
CONSTANTS
  Programs <- FamilyMultiRec
  QuerySeqs <- QSmr
  Permute = TRUE
  CheckOnTableHit = TRUE
  RepairFalseResult = TRUE
  LinkStopsAtNegation = FALSE
CONSTRAINT Export
CHECK_DEADLOCK FALSE

---------------------------- MODULE JudgeDT ----------------------------
(***************************************************************************)
(* C21 judge.  kind "eu": a decision-theoretic program: P (Semantics       *)
(* structure) + decisions (ground atoms fixed by a strategy) + utilities   *)
(* [atom, s (1 = on the atom, 0 = on its negation), u (integer)].          *)
(* For every strategy (subset of decisions made true) the expected utility *)
(* EU = sum_i u_i * P(lit_i | strategy) is computed exactly as an integer  *)
(* numerator over Den(P).                                                  *)
(* kind "ls": a recorded run of the real search_local on a scripted score  *)
(* table: the spec's transcription (LocalSearch.tla semantics, as a        *)
(* function here) must end in the same strategy, and that strategy must    *)
(* have no improving single flip.                                          *)
(***************************************************************************)
EXTENDS Semantics, Json, IOUtils
Cases == JsonDeserialize(IOEnv.CASES_FILE)

WithStrategy(P, S) ==       \* decisions in S become deterministic facts, the others are absent (false)
  [ P EXCEPT !.rules = P.rules \o [ i \in 1..Len(S) |-> [ head |-> S[i], body |-> << >> ] ],
             !.queries = [ i \in DOMAIN P.utilities |-> P.utilities[i].atom ] ]

RECURSIVE SumS(_)
SumS(s) == IF s = << >> THEN 0 ELSE Head(s) + SumS(Tail(s))

EUof(P, S) ==
  LET Q == WithStrategy(P, S)
      ev == Eval(Q)
      tot == Den(Q)
  IN  SumS([ i \in DOMAIN P.utilities |->
              LET a == GA(P.utilities[i].atom, << >>)
                  n == ev.num[a]
              IN  P.utilities[i].u * (IF P.utilities[i].s = 1 THEN n ELSE tot - n) ])

\* strategies as bit masks over the decision sequence
Bits(n, k) == [ i \in 1..k |-> (n \div (2 ^ (i - 1))) % 2 ]
SubSeqOf(ds, bits) == SelectSeq(ds, LAMBDA d : \E i \in DOMAIN ds : ds[i] = d /\ bits[i] = 1)

JudgeEU(C) ==
  LET P == C.prog
      k == Len(P.decisions)
  IN  [ id |-> C.id, total |-> Den(WithStrategy(P, << >>)),
        eus |-> [ n \in 1..(2 ^ k) |-> [ bits |-> Bits(n - 1, k), eu |-> EUof(P, SubSeqOf(P.decisions, Bits(n - 1, k))) ] ] ]

\* ---- local search as a function: state [c, best, last, pos, evals]
RECURSIVE LSRun(_, _, _, _, _, _, _)
LSRun(score, n, c, best, last, pos, evals) ==
  IF last = pos THEN [ c |-> c, best |-> best, evals |-> evals ]
  ELSE LET c2 == [ c EXCEPT ![pos] = 1 - c[pos] ]
           better == score[c2] > best
           c3 == IF better THEN c2 ELSE c
           b3 == IF better THEN score[c2] ELSE best
           l3 == IF better THEN pos ELSE last
       IN  IF pos = n
           THEN IF l3 = 0 THEN [ c |-> c3, best |-> b3, evals |-> evals + 1 ]
                ELSE LSRun(score, n, c3, b3, l3, 1, evals + 1)
           ELSE LSRun(score, n, c3, b3, l3, pos + 1, evals + 1)

\* C.table: sequence of [c |-> strategy bits (Seq 0/1), v |-> score], covering all 2^n strategies
ScoreFn(C) == [ c \in { C.table[i].c : i \in DOMAIN C.table } |-> C.table[CHOOSE i \in DOMAIN C.table : C.table[i].c = c].v ]
JudgeLS(C) ==
  LET score == ScoreFn(C)
      n == C.n
      start == [ i \in 1..n |-> 0 ]
      r == LSRun(score, n, start, score[start], 0, 1, 1)
      implOpt == \A d \in 1..n : score[[ C.res EXCEPT ![d] = 1 - C.res[d] ]] <= score[C.res]
  IN  [ id |-> C.id, localOptimum |-> implOpt, sameAsSpec |-> (C.res = r.c /\ C.evals = r.evals),
        scoreOk |-> C.best = score[C.res], specRes |-> r.c, specEvals |-> r.evals ]

Results == [ c \in DOMAIN Cases |-> IF Cases[c].kind = "eu" THEN JudgeEU(Cases[c]) ELSE JudgeLS(Cases[c]) ]
ASSUME ndJsonSerialize(IOEnv.OUT_FILE, Results)
=============================================================================

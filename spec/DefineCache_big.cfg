SPECIFICATION Spec
CONSTANTS
  Consts = {1, 2}
  Functors = {1}
  DontCache = {}
  MaxOps = 3
  CanonPerGoal = TRUE
INVARIANT Refines
INVARIANT HitsAreInstances
CHECK_DEADLOCK FALSE

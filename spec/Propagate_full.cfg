SPECIFICATION MCSpec
CONSTANTS
  NComp = 2
  RefKind = 2
  MaxEv = 2
  OnlyCyclic = FALSE
  DisjTrueAll = FALSE
CHECK_DEADLOCK FALSE
INVARIANT Sound

---------------------------- MODULE JudgePyPl ----------------------------
(* C28, flow F-A: recorded results of the real pl2py(py2pl(v)) and of a problog_export'ed function returning v, as seen
   from a ProbLog query, are compared with v; the spec-level encoding (PyPl.tla) tells whether the encoding can represent v. *)
EXTENDS PyPl, Json, IOUtils
Cases == JsonDeserialize(IOEnv.CASES_FILE)
JudgeCase(C) ==
  LET why == IF C.ok # 1 THEN "raised"
             ELSE IF C.out = C.v THEN ""
             ELSE IF LastIsTuple(C.v) THEN "nested-last-tuple-flattened" ELSE "value-changed"
  IN  [ id |-> C.id, ok |-> why = "", why |-> why, specRoundTrips |-> RoundTrips(C.v) ]
Results == [ c \in DOMAIN Cases |-> JudgeCase(Cases[c]) ]
ASSUME ndJsonSerialize(IOEnv.OUT_FILE, Results)
=============================================================================

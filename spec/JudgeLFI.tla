---------------------------- MODULE JudgeLFI ----------------------------
(***************************************************************************)
(* C24 judge: learning from interpretations is a monotone EM that yields   *)
(* valid parameters.  A case is the recorded history of one LFI run:       *)
(*   ll     : Seq(Int)       reported log-likelihood after iteration k,    *)
(*                           in micro-units (round(LL * 10^6))             *)
(*   w      : Seq(Seq(Int))  parameter vector before iteration 1 and after *)
(*                           every iteration, in micro-units (10^6 = 1)    *)
(*   groups : Seq(Seq(Nat))  parameter indices forming one annotated       *)
(*                           disjunction (singletons = plain facts)        *)
(*   fixed  : Seq(Int)       per group: probability mass of the            *)
(*                           non-learnable heads of that AD (micro-units)  *)
(*   complete : BOOLEAN      every tunable fact observed in every example  *)
(*   n      : Nat            number of examples                            *)
(*   counts : Seq([i, c])    for tunable FACT i: number of examples in     *)
(*                           which it is observed true                     *)
(* Facts decided (each is 0 / << >> when the clause holds):                *)
(*   decrease : first k with ll[k+1] < ll[k] - TolLL                       *)
(*   range    : <<step, index>> pairs with a parameter outside [0, 1]      *)
(*   adsum    : <<step, group>> pairs where the LEARNED parameters of an   *)
(*              AD sum to more than 1                                      *)
(*   adsumFixed : the same with the mass of the AD's fixed heads added     *)
(*              (the learned model is then not a valid ProbLog program)    *)
(*   mle      : tunable facts whose value after ONE iteration is not the   *)
(*              relative frequency c / n (complete data only)              *)
(***************************************************************************)
EXTENDS Naturals, Integers, Sequences, FiniteSets, TLC, Json, IOUtils
Cases == JsonDeserialize(IOEnv.CASES_FILE)

One   == 1000000
TolLL == 2           \* two micro-units: far above float noise, far below any EM step that matters
TolW  == 2

RECURSIVE SumSeq(_, _)
SumSeq(s, i) == IF i > Len(s) THEN 0 ELSE s[i] + SumSeq(s, i + 1)

FirstDecrease(ll) ==
  LET bad == { k \in 1..(Len(ll) - 1) : ll[k + 1] < ll[k] - TolLL }
  IN  IF bad = {} THEN 0 ELSE CHOOSE k \in bad : \A j \in bad : k <= j

RangeBad(w) == { <<s, i>> \in (DOMAIN w) \X (1..50) : i \in DOMAIN w[s] /\ (w[s][i] < 0 \/ w[s][i] > One + TolW) }

GroupSum(ws, g) == SumSeq([ j \in DOMAIN g |-> ws[g[j]] ], 1)
ADSumBad(w, groups, fixed, withFixed) ==
  { <<s, k>> \in (DOMAIN w) \X (DOMAIN groups) :
       s > 1 /\ GroupSum(w[s], groups[k]) + (IF withFixed THEN fixed[k] ELSE 0) > One + TolW * (Len(groups[k]) + 1) }

\* relative-frequency MLE: | w * n - c * One | <= n * TolW   (w in micro-units)
AbsI(x) == IF x < 0 THEN -x ELSE x
MLEBad(C) ==
  IF ~C.complete \/ Len(C.w) < 2 THEN {}
  ELSE { k \in DOMAIN C.counts : AbsI(C.w[2][C.counts[k].i] * C.n - C.counts[k].c * One) > C.n * TolW }

SetToSeqI(S) == LET RECURSIVE F(_) F(T) == IF T = {} THEN << >> ELSE LET x == CHOOSE y \in T : TRUE IN <<x>> \o F(T \ {x}) IN F(S)

JudgeCase(C) ==
  [ id |-> C.id,
    decrease |-> FirstDecrease(C.ll),
    range |-> SetToSeqI(RangeBad(C.w)),
    adsum |-> SetToSeqI(ADSumBad(C.w, C.groups, C.fixed, FALSE)),
    adsumFixed |-> SetToSeqI(ADSumBad(C.w, C.groups, C.fixed, TRUE)),
    mle |-> SetToSeqI({ C.counts[k].i : k \in MLEBad(C) }) ]

Results == [ c \in DOMAIN Cases |-> JudgeCase(Cases[c]) ]
ASSUME ndJsonSerialize(IOEnv.OUT_FILE, Results)
=============================================================================

SPECIFICATION Spec
CONSTANTS
  Programs <- FamilyKF42
  QuerySeqs <- QSkf42
  Permute = TRUE
  CheckOnTableHit = TRUE
  RepairFalseResult = TRUE
  LinkStopsAtNegation = FALSE
VIEW view
INVARIANT NoDanglingMessages
INVARIANT NoError
INVARIANT NegCycleOnlyWhenCyclic
INVARIANT AnsweredOnlyWhenDefined
INVARIANT StackEmpty
INVARIANT TableSound
INVARIANT ResultCorrect
CHECK_DEADLOCK FALSE

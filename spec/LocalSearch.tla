---------------------------- MODULE LocalSearch ----------------------------
(***************************************************************************)
(* C21, Layer B: tasks/dtproblog.py search_local transcribed as a state    *)
(* machine, one spec step per loop iteration (one evaluate call).          *)
(* The score function is arbitrary: TLC explores EVERY score table over    *)
(* the strategies of N decisions with values 0..K and every initial        *)
(* strategy.  Properties: the search terminates (Terminates) and the       *)
(* strategy returned has no improving single flip (LocalOptimum), with     *)
(* best = its score (ScoreIsOfResult).                                     *)
(***************************************************************************)
EXTENDS Naturals, FiniteSets, Sequences, TLC
CONSTANTS N, K
D == 1..N
Strategies == [D -> {0, 1}]
VARIABLES score, choices, best, last, pos, stop, evals
vars == <<score, choices, best, last, pos, stop, evals>>

Flip(c, d) == [c EXCEPT ![d] = 1 - c[d]]

Init == /\ score \in [Strategies -> 0..K]
        /\ choices \in Strategies          \* "for each decision take the option with highest local utility": any start
        /\ best = score[choices] /\ last = 0 /\ pos = 1 /\ stop = FALSE /\ evals = 1

\* one iteration of `for ident, key in decisions` inside `while not stop`
Step ==
  /\ ~stop
  /\ IF last = pos
     THEN \* we went through all decisions without flipping since the last flip
          /\ stop' = TRUE /\ UNCHANGED <<score, choices, best, last, pos, evals>>
     ELSE LET c2 == Flip(choices, pos)
              better == score[c2] > best
          IN  /\ choices' = IF better THEN c2 ELSE choices
              /\ best' = IF better THEN score[c2] ELSE best
              /\ last' = IF better THEN pos ELSE last
              /\ evals' = evals + 1
              /\ IF pos = N
                 THEN \* end of the for loop: `if last_update is None: stop = True`
                      /\ pos' = 1
                      /\ stop' = ((IF better THEN pos ELSE last) = 0)
                 ELSE pos' = pos + 1 /\ stop' = FALSE
              /\ UNCHANGED score
Next == Step \/ (stop /\ UNCHANGED vars)
Spec == Init /\ [][Next]_vars /\ WF_vars(Step)

LocalOptimum    == stop => \A d \in D : score[Flip(choices, d)] <= score[choices]
ScoreIsOfResult == best = score[choices]
\* each successful flip strictly increases the score (<= K of them), between two flips at most N + 1 iterations
Bounded   == evals <= (K + 1) * (N + 1) + 2
Terminates == <>stop
=============================================================================

SPECIFICATION Spec
CONSTANTS
  Preds = {"p", "q"}
  MaxOps = 4
  MaxDBs = 3
  ResolveThroughAncestors = TRUE
INVARIANT TypeOK
INVARIANT IndexesLocal
INVARIANT ViewCorrect
INVARIANT CallsReachCurrentDefinition
CONSTRAINT ExportHist
CHECK_DEADLOCK FALSE

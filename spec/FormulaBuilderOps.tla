---------------------------- MODULE FormulaBuilderOps ----------------------------
(***************************************************************************)
(* The builder's calls as pure operators over a builder state              *)
(* st = [nodes, ia, ic, id] and an option record                           *)
(* opt = [ac |-> auto_compact, kd |-> keep_duplicates, ka |-> keep_all,    *)
(*        ma |-> max_arity].  Used by FormulaBuilder.tla (state machine,   *)
(* model checking) and JudgeBuilderTrace.tla (validation of histories      *)
(* recorded from the real class).  See FormulaBuilder.tla for the source   *)
(* line references.                                                        *)
(***************************************************************************)
EXTENDS AOG

NoRet == -FKey                      \* "call returns nothing" (add_disjunct)
NegKey(k) == IF k = 0 THEN FKey ELSE IF k = FKey THEN 0 ELSE -k
AbsKey(k) == IF k < 0 THEN -k ELSE k

\* ---------------------------------------------------------------- pure transcription
St(n, a, c, d) == [ nodes |-> n, ia |-> a, ic |-> c, id |-> d ]
Out(st, ret)   == [ st |-> st, ret |-> ret ]

RangeOf(s) == { s[i] : i \in DOMAIN s }

\* tuple(OrderedSet(content)): first occurrences, in order
RECURSIVE Dedup(_, _)
Dedup(s, seen) == IF s = << >> THEN << >>
                  ELSE IF Head(s) \in seen THEN Dedup(Tail(s), seen)
                  ELSE <<Head(s)>> \o Dedup(Tail(s), seen \cup {Head(s)})

\* _add(node, reuse)
AddNode(st, node, reuse) ==
  LET fresh == Len(st.nodes) + 1
      app   == Append(st.nodes, node)
  IN  IF ~reuse THEN Out([ st EXCEPT !.nodes = app ], fresh)
      ELSE CASE node.t = "atom" ->
                  IF node.id \in DOMAIN st.ia THEN Out(st, st.ia[node.id])
                  ELSE Out([ st EXCEPT !.nodes = app, !.ia = (node.id :> fresh) @@ @ ], fresh)
             [] node.t = "conj" ->
                  IF node.ch \in DOMAIN st.ic THEN Out(st, st.ic[node.ch])
                  ELSE Out([ st EXCEPT !.nodes = app, !.ic = (node.ch :> fresh) @@ @ ], fresh)
             [] node.t = "disj" ->
                  IF node.ch \in DOMAIN st.id THEN Out(st, st.id[node.ch])
                  ELSE Out([ st EXCEPT !.nodes = app, !.id = (node.ch :> fresh) @@ @ ], fresh)

Node(t, ch) == [ t |-> t, ch |-> ch, id |-> "", det |-> 0 ]

\* _add_compound(nodetype, content, t, f, readonly)   (compact = None, update = None, placeholder = False, no names)
AddCompound(opt, st, type, content, readonly) ==
  LET t == IF type = "conj" THEN FKey ELSE 0
      f == IF type = "conj" THEN 0 ELSE FKey
      store(ch) == IF type = "conj" THEN AddNode(st, Node("conj", ch), opt.ac /\ ~opt.ka)
                   ELSE IF readonly THEN AddNode(st, Node("disj", ch), opt.ac /\ ~opt.ka)
                   ELSE AddNode(st, Node("disj", ch), FALSE)
  IN  IF ~opt.ac THEN store(content)
      ELSE IF t \in RangeOf(content) THEN Out(st, t)
      ELSE LET c1 == SelectSeq(content, LAMBDA x : x # f)
               c2 == IF opt.kd THEN c1 ELSE Dedup(c1, {})
           IN  IF c2 = << >> THEN Out(st, f)
               ELSE IF \E i, j \in DOMAIN c2 : c2[i] = -c2[j] /\ c2[i] # 0 THEN Out(st, t)
               ELSE IF readonly /\ Len(c2) = 1 THEN Out(st, c2[1])
               ELSE store(c2)

\* add_atom(identifier, probability): det = 0 probabilistic, 1 probability None, 2 probability False
AddAtom(opt, st, a, det) ==
  IF det = 1 /\ ~opt.ka THEN Out(st, 0)
  ELSE IF det = 2 /\ ~opt.ka THEN Out(st, FKey)
  ELSE AddNode(st, [ t |-> "atom", ch |-> << >>, id |-> a, det |-> det ], TRUE)

\* add_disjunct(key, component) on a key that is a positive disjunction node (the harness and the engine never call it otherwise)
AddDisjunct(opt, st, key, comp) ==
  IF key = 0 THEN st
  ELSE LET n == st.nodes[key] IN
       IF comp = FKey THEN st
       ELSE IF comp = 0 THEN [ st EXCEPT !.nodes[key] = Node("disj", <<0>>) ]
       ELSE IF comp \in RangeOf(n.ch) /\ ~opt.kd THEN st
       ELSE IF opt.ma > 0 /\ opt.ma = Len(n.ch)
            THEN LET r == AddCompound(opt, st, "disj", n.ch, TRUE)      \* child = self.add_or(node.children)
                 IN  [ r.st EXCEPT !.nodes[key] = Node("disj", <<r.ret, comp>>) ]
            ELSE [ st EXCEPT !.nodes[key] = Node("disj", Append(n.ch, comp)) ]

=============================================================================

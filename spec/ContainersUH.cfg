CONSTANT Items = {"a", "b", "c", "d"}
CONSTANT KeyVals = {0, 1, 2, 3}
CONSTANT MaxOps = 7
SPECIFICATION Spec
INVARIANT Refines
INVARIANT HeapOrdered
INVARIANT PushResult
INVARIANT PopIsMin
INVARIANT PeekIsMin
PROPERTY PopMonotone
CHECK_DEADLOCK FALSE

SPECIFICATION Spec
CONSTANTS
  Programs <- FamilyCycNeg
  QuerySeqs <- QS3
  Permute = TRUE
  CheckOnTableHit = FALSE
  RepairFalseResult = FALSE
VIEW view
INVARIANT NoDanglingMessages
INVARIANT NoError
INVARIANT NegCycleOnlyWhenCyclic
INVARIANT StackEmpty
INVARIANT TableSound
INVARIANT ResultCorrect
CHECK_DEADLOCK FALSE

---------------------------- MODULE Containers ----------------------------
(***************************************************************************)
(* problog/util.py containers.                                             *)
(* Layer A: abstract models (sequence without duplicates; finite map       *)
(* item -> key; set of naturals).                                          *)
(* Layer B: the concrete representations (doubly linked list with sentinel *)
(* + map; array heap with index; blocks of bits) with every method         *)
(* transcribed, and the abstraction functions that relate them.            *)
(* Pure operators only; ContainersOS/UH/BV model-check the refinement,     *)
(* ContainersTrace validates recorded executions of the real classes.      *)
(***************************************************************************)
EXTENDS Naturals, Integers, Sequences, SequencesExt, FiniteSets, FiniteSetsExt, TLC

SeqToSet(s) == { s[i] : i \in DOMAIN s }

-----------------------------------------------------------------------------
(* ---------------- OrderedSet : Layer A (sequence, no duplicates) -------- *)

OSA_Add(s, k)     == IF k \in SeqToSet(s) THEN s ELSE Append(s, k)
OSA_Discard(s, k) == SelectSeq(s, LAMBDA x : x # k)
RECURSIVE OSA_AddAll(_, _)
OSA_AddAll(s, t)  == IF t = <<>> THEN s ELSE OSA_AddAll(OSA_Add(s, Head(t)), Tail(t))
OSA_FromSeq(t)    == OSA_AddAll(<<>>, t)
\* Python's collections.abc.Set mixins, as OrderedSet inherits them:
OSA_Or(a, b)      == OSA_AddAll(a, b)                                          \* chain(self, other)
OSA_And(a, b)     == OSA_FromSeq(SelectSeq(b, LAMBDA x : x \in SeqToSet(a)))   \* iterates OTHER
OSA_Sub(a, b)     == SelectSeq(a, LAMBDA x : x \notin SeqToSet(b))             \* iterates self
OSA_Xor(a, b)     == OSA_AddAll(OSA_Sub(a, b), OSA_Sub(b, a))                  \* (self - other) | (other - self)
OSA_IOr(a, b)     == OSA_AddAll(a, b)
OSA_IAnd(a, b)    == SelectSeq(a, LAMBDA x : x \in SeqToSet(b))                \* discard (self - it)
OSA_ISub(a, b)    == SelectSeq(a, LAMBDA x : x \notin SeqToSet(b))
OSA_NoDup(s)      == \A i, j \in DOMAIN s : i # j => s[i] # s[j]

(* ---------------- OrderedSet : Layer B (linked list + map) ------------- *)
(* A node is identified by its key; the sentinel is node 0.  nxt/prv are   *)
(* functions over {0} \cup live keys; map = set of live keys.              *)

OSB_Empty == [ nxt |-> (0 :> 0), prv |-> (0 :> 0), map |-> {} ]

OSB_Add(c, k) ==
  IF k \in c.map THEN c
  ELSE LET curr == c.prv[0]        \* end[1]: last node
       IN  [ map |-> c.map \cup {k},
             \* curr[2] = end[1] = map[key] = [key, curr, end]
             nxt |-> (k :> 0) @@ [ c.nxt EXCEPT ![curr] = k ],
             prv |-> (k :> curr) @@ [ c.prv EXCEPT ![0] = k ] ]
\* NB: for curr = 0 (empty list) the two EXCEPTs both touch node 0: nxt[0] = k and prv[0] = k.

OSB_Discard(c, k) ==
  IF k \notin c.map THEN c
  ELSE LET p == c.prv[k]
           n == c.nxt[k]
           nx == [ c.nxt EXCEPT ![p] = n ]
           pv == [ c.prv EXCEPT ![n] = p ]
       IN  [ map |-> c.map \ {k},
             nxt |-> [ x \in DOMAIN nx \ {k} |-> nx[x] ],
             prv |-> [ x \in DOMAIN pv \ {k} |-> pv[x] ] ]

RECURSIVE OSB_Walk(_, _, _)
OSB_Walk(c, node, fuel) ==
  IF node = 0 \/ fuel = 0 THEN <<>> ELSE <<node>> \o OSB_Walk(c, c.nxt[node], fuel - 1)
\* abstraction function: iteration order
OSB_Abs(c) == OSB_Walk(c, c.nxt[0], Cardinality(c.map) + 1)

RECURSIVE OSB_WalkBack(_, _, _)
OSB_WalkBack(c, node, fuel) ==
  IF node = 0 \/ fuel = 0 THEN <<>> ELSE <<node>> \o OSB_WalkBack(c, c.prv[node], fuel - 1)

OSB_WellFormed(c) ==
  /\ DOMAIN c.nxt = c.map \cup {0} /\ DOMAIN c.prv = c.map \cup {0}
  /\ \A x \in DOMAIN c.nxt : c.prv[c.nxt[x]] = x /\ c.nxt[c.prv[x]] = x
  /\ SeqToSet(OSB_Abs(c)) = c.map /\ Len(OSB_Abs(c)) = Cardinality(c.map)
  /\ OSB_WalkBack(c, c.prv[0], Cardinality(c.map) + 1) = Reverse(OSB_Abs(c))

-----------------------------------------------------------------------------
(* ---------------- UHeap : Layer A (finite map item -> key) -------------- *)

UHA_Push(m, it, k) == IF it \in DOMAIN m THEN [ m EXCEPT ![it] = k ] ELSE (it :> k) @@ m
UHA_MinKey(m)      == Min({ m[x] : x \in DOMAIN m })
UHA_MinItems(m)    == { x \in DOMAIN m : m[x] = UHA_MinKey(m) }
UHA_Remove(m, it)  == [ x \in DOMAIN m \ {it} |-> m[x] ]

(* ---------------- UHeap : Layer B (array heap + index) ------------------ *)
(* heap: sequence of <<key, item>> (1-based; Python index i is TLA i+1)     *)

UHB_Parent(i)  == IF i = 1 THEN 0 ELSE ((i - 2) \div 2) + 1      \* Python (index-1)//2
UHB_C1(i)      == 2 * i                                            \* Python 2*index+1
UHB_C2(i)      == 2 * i + 1                                        \* Python 2*index+2
UHB_Swap(h, i, j) == [ h EXCEPT ![i] = h[j], ![j] = h[i] ]

RECURSIVE UHB_SwimUp(_, _)
UHB_SwimUp(h, i) ==
  LET p == UHB_Parent(i)
  IN  IF p # 0 /\ h[p][1] > h[i][1] THEN UHB_SwimUp(UHB_Swap(h, p, i), p) ELSE h

RECURSIVE UHB_SinkDown(_, _)
UHB_SinkDown(h, i) ==
  LET c1 == UHB_C1(i)
      c2 == UHB_C2(i)
      has1 == c1 <= Len(h)
      has2 == has1 /\ c2 <= Len(h)
      k  == h[i][1]
  IN  IF has1 /\ k > h[c1][1]
      THEN IF has2 /\ h[c1][1] > h[c2][1]
           THEN UHB_SinkDown(UHB_Swap(h, i, c2), c2)
           ELSE UHB_SinkDown(UHB_Swap(h, i, c1), c1)
      ELSE IF has2 /\ k > h[c2][1]
           THEN UHB_SinkDown(UHB_Swap(h, i, c2), c2)
           ELSE h

UHB_IndexOf(h, it) == IF \E i \in DOMAIN h : h[i][2] = it
                      THEN CHOOSE i \in DOMAIN h : h[i][2] = it ELSE 0

UHB_Push(h, it, k) ==
  LET idx == UHB_IndexOf(h, it)
  IN  IF idx = 0
      THEN UHB_SwimUp(Append(h, <<k, it>>), Len(h) + 1)
      ELSE IF h[idx][1] = k THEN h
           ELSE LET h2 == [ h EXCEPT ![idx] = <<k, it>> ]
                    p  == UHB_Parent(idx)
                IN  IF p # 0 /\ k < h2[p][1] THEN UHB_SwimUp(h2, idx) ELSE UHB_SinkDown(h2, idx)

\* pop_with_key: swap top and last, remove last, sink the new top
UHB_Pop(h) ==
  LET n  == Len(h)
      h2 == SubSeq(UHB_Swap(h, 1, n), 1, n - 1)
  IN  [ res |-> h[1], heap |-> IF h2 = <<>> THEN h2 ELSE UHB_SinkDown(h2, 1) ]

UHB_Abs(h) == [ it \in { h[i][2] : i \in DOMAIN h } |-> h[UHB_IndexOf(h, it)][1] ]
UHB_HeapOrdered(h) == \A i \in DOMAIN h : i > 1 => h[UHB_Parent(i)][1] <= h[i][1]
UHB_NoDupItems(h)  == \A i, j \in DOMAIN h : i # j => h[i][2] # h[j][2]

-----------------------------------------------------------------------------
(* ---------------- BitVector : Layer A (set of naturals) ----------------- *)
(* Layer B: sequence of blocks, a block is the set of bit positions set in  *)
(* it (0..BS-1); block b (1-based) covers BS*(b-1) .. BS*b-1.               *)

BVB_Add(bl, idx, BS) ==
  LET b == (idx \div BS) + 1
      i == idx % BS
      ext == IF Len(bl) < b THEN bl \o [ x \in 1..(b - Len(bl)) |-> {} ] ELSE bl
  IN  [ ext EXCEPT ![b] = @ \cup {i} ]
BVB_Contains(bl, idx, BS) ==
  LET b == (idx \div BS) + 1 IN IF Len(bl) < b THEN FALSE ELSE (idx % BS) \in bl[b]
BVB_Abs(bl, BS) == UNION { { BS * (b - 1) + i : i \in bl[b] } : b \in DOMAIN bl }
MinN(a, b) == IF a < b THEN a ELSE b
\* __and__: zip (truncates to the shorter); __or__: zip + both tails
BVB_And(x, y) == [ b \in 1..MinN(Len(x), Len(y)) |-> x[b] \cap y[b] ]
BVB_Or(x, y)  == [ b \in 1..MinN(Len(x), Len(y)) |-> x[b] \cup y[b] ]
                   \o SubSeq(x, Len(y) + 1, Len(x)) \o SubSeq(y, Len(x) + 1, Len(y))
\* __iand__: blocks of self beyond len(other) are dropped (they are empty in other)
BVB_IAnd(x, y) == [ b \in 1..MinN(Len(x), Len(y)) |-> x[b] \cap y[b] ]
\* the pinned tree's __iand__ before the fix: high blocks of self were left unchanged (kept as a
\* counterexample model: ContainersBV_oldiand.cfg must find a Refines violation)
BVB_IAndOld(x, y) == [ b \in DOMAIN x |-> IF b <= Len(y) THEN x[b] \cap y[b] ELSE x[b] ]
BVB_IOr(x, y)  == [ b \in DOMAIN x |-> IF b <= Len(y) THEN x[b] \cup y[b] ELSE x[b] ]
                   \o SubSeq(y, Len(x) + 1, Len(y))
=============================================================================

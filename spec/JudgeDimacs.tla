---------------------------- MODULE JudgeDimacs ----------------------------
(* C25 (DIMACS clause): the exported CNF text, re-read by the harness, has exactly the models of the internal CNF. *)
EXTENDS Circuit, Json, IOUtils
Cases == JsonDeserialize(IOEnv.CASES_FILE)
SameModels(a, b) == /\ a.nvars = b.nvars
                    /\ \A M \in SUBSET (1..a.nvars) : CNFSat(a, M) <=> CNFSat(b, M)
Results == [ c \in DOMAIN Cases |-> [ id |-> Cases[c].id, ok |-> SameModels(Cases[c].dimacs, Cases[c].internal) ] ]
ASSUME ndJsonSerialize(IOEnv.OUT_FILE, Results)
=============================================================================

SPECIFICATION MCSpec
CONSTANTS
  NComp = 2
  RefKind = 2
  MaxQ = 2
  WithEvidence = FALSE
  ReuseChecksCB = FALSE
  ReuseChecksCN = TRUE
  SubtractBroken = TRUE
CHECK_DEADLOCK FALSE
INVARIANT MeaningPreserved
INVARIANT TargetAcyclic
INVARIANT MemoSound
INVARIANT MemoShape

---------------------------- MODULE JudgePropagate ----------------------------
(***************************************************************************)
(* C06 (propagate_evidence on/off), Layer A on recorded runs of the real   *)
(* LogicFormula.propagate: for every assignment of the atoms in which all  *)
(* evidence literals hold (well-founded valuation, AOG.tla) every value    *)
(* the call recorded is the value of that node; if the call raised         *)
(* InconsistentEvidenceError no assignment satisfies the evidence.         *)
(* C.current[n] = 0 TRUE | FKey FALSE | -1 no value; C.status = "done" |   *)
(* "inconsistent".                                                         *)
(***************************************************************************)
EXTENDS AOG, Json, IOUtils
Cases == JsonDeserialize(IOEnv.CASES_FILE)

JudgeCase(C) ==
  LET ids == AtomIds(C.g)
      bad == { asg \in SUBSET ids :
                 LET wf == WFM(GraphRules("s", C.g, asg))
                 IN  /\ \A i \in DOMAIN C.ev : KeyValue("s", wf, C.ev[i]) = "T"
                     /\ \/ C.status = "inconsistent"
                        \/ \E n \in DOMAIN C.current :
                              /\ C.current[n] # -1
                              /\ KeyValue("s", wf, n) # (IF C.current[n] = 0 THEN "T" ELSE "F") }
  IN  [ id |-> C.id, ok |-> bad = {} ]
Results == [ c \in DOMAIN Cases |-> JudgeCase(Cases[c]) ]
ASSUME ndJsonSerialize(IOEnv.OUT_FILE, Results)
=============================================================================

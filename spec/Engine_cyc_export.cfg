SPECIFICATION Spec
CONSTANTS
  Programs <- FamilyCyc
  QuerySeqs <- QS2
  Permute = TRUE
  CheckOnTableHit = TRUE
  RepairFalseResult = TRUE
  LinkStopsAtNegation = FALSE
CONSTRAINT Export
CHECK_DEADLOCK FALSE

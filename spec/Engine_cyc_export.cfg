SPECIFICATION Spec
CONSTANTS
  Programs <- FamilyCyc
  QuerySeqs <- QS2
  Permute = TRUE
  CheckOnTableHit = FALSE
  RepairFalseResult = FALSE
CONSTRAINT Export
CHECK_DEADLOCK FALSE

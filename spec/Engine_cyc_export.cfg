SPECIFICATION Spec
CONSTANTS
  Programs <- FamilyCyc
  QuerySeqs <- QS2
  Permute = TRUE
  CheckOnTableHit = TRUE
  RepairFalseResult = TRUE
CONSTRAINT Export
CHECK_DEADLOCK FALSE

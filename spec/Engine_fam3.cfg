SPECIFICATION Spec
CONSTANTS
  Programs <- Family3
  QuerySeqs <- QS3
  Permute = TRUE
  CheckOnTableHit = FALSE
  RepairFalseResult = FALSE
VIEW view
INVARIANT NoDanglingMessages
INVARIANT NoError
INVARIANT NegCycleOnlyWhenCyclic
INVARIANT AnsweredOnlyWhenDefined
INVARIANT TableSound
CHECK_DEADLOCK FALSE

---------------------------- MODULE ContainersTrace ----------------------------
(***************************************************************************)
(* Trace validation (flow F-A + drift) of the real util.OrderedSet, UHeap  *)
(* and BitVector.  The harness records, for every public call, its         *)
(* arguments, its result and the projected state afterwards; this spec     *)
(* replays each recorded history against the abstract models of            *)
(* Containers.tla (verdict: REJECT lines) and against the concrete models  *)
(* (DRIFT lines, never a verdict).  One state per consumed event; a        *)
(* rejected history is abandoned and the next one is started, so every     *)
(* history is examined.                                                    *)
(***************************************************************************)
EXTENDS Containers, Json, IOUtils

Traces == JsonDeserialize(IOEnv.TRACE_FILE)
BS == 32

VARIABLES t, l, st, nrej
vars == <<t, l, st, nrej>>

InitState(kind) ==
  CASE kind = "os" -> [ x |-> <<>>, y |-> <<>> ]
    [] kind = "uh" -> [ m |-> <<>>, h |-> <<>> ]
    [] kind = "bv" -> [ x |-> {}, y |-> {}, bx |-> <<>>, by |-> <<>> ]

R(ok, why, s) == [ ok |-> ok, why |-> why, st |-> s ]

\* ---------------- OrderedSet ----------------
StepOS(s, e) ==
  LET x == s.x
      y == s.y
      exp ==
        CASE e.op = "add"     -> [ x |-> OSA_Add(x, e.k), y |-> y, res |-> 0 ]
          [] e.op = "addy"    -> [ x |-> x, y |-> OSA_Add(y, e.k), res |-> 0 ]
          [] e.op = "discard" -> [ x |-> OSA_Discard(x, e.k), y |-> y, res |-> 0 ]
          [] e.op = "pop"     -> IF x = <<>> THEN [ x |-> x, y |-> y, res |-> -1 ]     \* KeyError
                                 ELSE LET k == IF e.b = 1 THEN x[Len(x)] ELSE x[1]
                                      IN  [ x |-> OSA_Discard(x, k), y |-> y, res |-> k ]
          [] e.op = "contains" -> [ x |-> x, y |-> y, res |-> IF e.k \in SeqToSet(x) THEN 1 ELSE 0 ]
          [] e.op = "len"     -> [ x |-> x, y |-> y, res |-> Len(x) ]
          [] e.op = "ior"     -> [ x |-> OSA_IOr(x, y), y |-> y, res |-> 0 ]
          [] e.op = "iand"    -> [ x |-> OSA_IAnd(x, y), y |-> y, res |-> 0 ]
          [] e.op = "isub"    -> [ x |-> OSA_ISub(x, y), y |-> y, res |-> 0 ]
          [] e.op = "or"      -> [ x |-> x, y |-> OSA_Or(x, y), res |-> 0 ]
          [] e.op = "and"     -> [ x |-> x, y |-> OSA_And(x, y), res |-> 0 ]
          [] e.op = "sub"     -> [ x |-> x, y |-> OSA_Sub(x, y), res |-> 0 ]
          [] e.op = "xor"     -> [ x |-> x, y |-> OSA_Xor(x, y), res |-> 0 ]
  IN  IF e.res # exp.res THEN R(FALSE, "os-result", s)
      ELSE IF SeqToSet(e.x) # SeqToSet(exp.x) \/ SeqToSet(e.y) # SeqToSet(exp.y) THEN R(FALSE, "os-membership", s)
      ELSE IF e.x # exp.x \/ e.y # exp.y THEN R(FALSE, "os-iteration-order", s)
      ELSE IF ~OSA_NoDup(e.x) THEN R(FALSE, "os-duplicate", s)
      ELSE R(TRUE, "", [ x |-> exp.x, y |-> exp.y ])

\* ---------------- UHeap ----------------
PairsToMap(ps) == [ it \in { ps[i][1] : i \in DOMAIN ps } |->
                      (CHOOSE i \in DOMAIN ps : ps[i][1] = it) ]
MapOf(ps) == [ it \in { ps[i][1] : i \in DOMAIN ps } |-> ps[CHOOSE i \in DOMAIN ps : ps[i][1] = it][2] ]

StepUH(s, e) ==
  LET m == s.m
      lm == MapOf(e.m)           \* logged projection: sequence of <<item, key>>
  IN  CASE e.op = "push" ->
             IF e.res # (IF e.it \in DOMAIN m THEN 0 ELSE 1) THEN R(FALSE, "uh-push-result", s)
             ELSE IF lm # UHA_Push(m, e.it, e.k) THEN R(FALSE, "uh-push-state", s)
             ELSE R(TRUE, "", [ m |-> lm, h |-> UHB_Push(s.h, e.it, e.k) ])
        [] e.op = "pop" ->
             IF DOMAIN m = {} THEN R(FALSE, "uh-pop-empty", s)
             ELSE IF e.it \notin UHA_MinItems(m) THEN R(FALSE, "uh-pop-not-minimal", s)
             ELSE IF e.k # UHA_MinKey(m) THEN R(FALSE, "uh-pop-key", s)
             ELSE IF lm # UHA_Remove(m, e.it) THEN R(FALSE, "uh-pop-state", s)
             ELSE R(TRUE, "", [ m |-> lm, h |-> UHB_Pop(s.h).heap ])
        [] e.op = "peek" ->
             IF e.it \notin UHA_MinItems(m) THEN R(FALSE, "uh-peek-not-minimal", s)
             ELSE IF lm # m THEN R(FALSE, "uh-peek-state", s)
             ELSE R(TRUE, "", s)
        [] e.op = "len" ->
             IF e.res # Cardinality(DOMAIN m) THEN R(FALSE, "uh-len", s) ELSE R(TRUE, "", s)

\* ---------------- BitVector ----------------
Ascending(q) == \A i \in 1..(Len(q) - 1) : q[i] < q[i + 1]
StepBV(s, e) ==
  LET exp ==
        CASE e.op = "add"  -> [ x |-> s.x \cup {e.k}, y |-> s.y, res |-> 0, bx |-> BVB_Add(s.bx, e.k, BS), by |-> s.by ]
          [] e.op = "addy" -> [ x |-> s.x, y |-> s.y \cup {e.k}, res |-> 0, bx |-> s.bx, by |-> BVB_Add(s.by, e.k, BS) ]
          [] e.op = "contains" -> [ x |-> s.x, y |-> s.y, res |-> IF e.k \in s.x THEN 1 ELSE 0, bx |-> s.bx, by |-> s.by ]
          [] e.op = "len"  -> [ x |-> s.x, y |-> s.y, res |-> Cardinality(s.x), bx |-> s.bx, by |-> s.by ]
          [] e.op = "and"  -> [ x |-> s.x, y |-> s.x \cap s.y, res |-> 0, bx |-> s.bx, by |-> BVB_And(s.bx, s.by) ]
          [] e.op = "or"   -> [ x |-> s.x, y |-> s.x \cup s.y, res |-> 0, bx |-> s.bx, by |-> BVB_Or(s.bx, s.by) ]
          [] e.op = "iand" -> [ x |-> s.x \cap s.y, y |-> s.y, res |-> 0, bx |-> BVB_IAnd(s.bx, s.by), by |-> s.by ]
          [] e.op = "ior"  -> [ x |-> s.x \cup s.y, y |-> s.y, res |-> 0, bx |-> BVB_IOr(s.bx, s.by), by |-> s.by ]
  IN  IF e.res # exp.res THEN R(FALSE, "bv-result", s)
      ELSE IF SeqToSet(e.x) # exp.x \/ SeqToSet(e.y) # exp.y THEN R(FALSE, "bv-membership", s)
      ELSE IF ~Ascending(e.x) \/ ~Ascending(e.y) THEN R(FALSE, "bv-iteration", s)
      ELSE IF e.lenx # Cardinality(exp.x) THEN R(FALSE, "bv-len", s)
      ELSE R(TRUE, "", exp)

Step(kind, s, e) == CASE kind = "os" -> StepOS(s, e) [] kind = "uh" -> StepUH(s, e) [] kind = "bv" -> StepBV(s, e)

\* Layer-B comparison (drift only)
Drift(kind, s, e) ==
  CASE kind = "uh" -> e.heap # s.h
    [] kind = "bv" -> e.bx # [ b \in DOMAIN s.bx |-> SetToSortSeq(s.bx[b], <) ] \/ e.by # [ b \in DOMAIN s.by |-> SetToSortSeq(s.by[b], <) ]
    [] OTHER -> FALSE

Init == t = 1 /\ l = 0 /\ st = InitState(Traces[1].kind) /\ nrej = 0

NextTrace == /\ t' = t + 1 /\ l' = 0
             /\ st' = IF t + 1 <= Len(Traces) THEN InitState(Traces[t + 1].kind) ELSE [ done |-> TRUE ]

Next ==
  /\ t <= Len(Traces)
  /\ IF l < Len(Traces[t].events)
     THEN LET e == Traces[t].events[l + 1]
              r == Step(Traces[t].kind, st, e)
          IN  IF r.ok
              THEN /\ l' = l + 1 /\ t' = t /\ nrej' = nrej
                   /\ IF Drift(Traces[t].kind, r.st, e)
                      THEN /\ PrintT(<<"DRIFT", Traces[t].id, l + 1>>)
                           /\ st' = (IF Traces[t].kind = "uh" THEN [ r.st EXCEPT !.h = e.heap ]
                                     ELSE [ r.st EXCEPT !.bx = [ b \in DOMAIN e.bx |-> SeqToSet(e.bx[b]) ],
                                                        !.by = [ b \in DOMAIN e.by |-> SeqToSet(e.by[b]) ] ])
                      ELSE st' = r.st
              ELSE /\ PrintT(<<"REJECT", Traces[t].id, l + 1, r.why>>)
                   /\ nrej' = nrej + 1 /\ NextTrace
     ELSE nrej' = nrej /\ NextTrace

Spec == Init /\ [][Next]_vars
\* every history was examined to its end or to its first rejected event
AllExamined == TLCGet("stats").diameter >= 1
Finished == t > Len(Traces)
=============================================================================

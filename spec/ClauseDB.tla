---------------------------- MODULE ClauseDB ----------------------------
(***************************************************************************)
(* Layer B.  ProbLog's prepared database and its extension mechanism       *)
(* (problog/clausedb.py) as a state machine over propositional predicates: *)
(*   ClauseDB.__init__ / extend      clausedb.py:76, :111  (offset)        *)
(*   get_node / _resolve_index       clausedb.py:239, :255 (redirects)     *)
(*   _get_head / _add_head           clausedb.py:272, :281 (copy-on-extend)*)
(*   _add_define_node                clausedb.py:176                       *)
(*   add_fact / _compile             clausedb.py:352, :398                 *)
(*   _add_call_node                  clausedb.py:221 (placeholder nodes)   *)
(* A database d is dbs[d] = [parent, offset, nodes, heads, redirect]; node *)
(* index i of d lives in the nearest ancestor whose offset is <= i.        *)
(* One action per public call: AddFact, AddRule (head :- callee1[, callee2]), *)
(* Extend.  Clauses are only added to databases that have not been         *)
(* extended (the contract of extend()).                                    *)
(*                                                                         *)
(* Layer A (property C29, structural form): for every database d, what d   *)
(* shows for a predicate - through find() and get_node() exactly as the    *)
(* engine navigates - is the sequence of clauses added to d and its        *)
(* ancestors, in order; calls compiled in an ancestor reach, when followed *)
(* from d, d's own definition of the callee; nothing added to a descendant *)
(* is visible from an ancestor.                                            *)
(* ResolveThroughAncestors = FALSE gives the pre-fix get_node (own         *)
(* redirect table only): TLC finds the nested-extension counterexample.    *)
(***************************************************************************)
EXTENDS Naturals, Integers, Sequences, FiniteSets, TLC

CONSTANTS Preds, MaxOps, MaxDBs, ResolveThroughAncestors

VARIABLES dbs,      \* Seq([parent, offset, nodes, heads, redirect])
          hist      \* Seq(op): [op |-> "fact"|"rule"|"extend", d, s, body |-> Seq(pred), cid]

vars == <<dbs, hist>>

Empty == [ t |-> "empty" ]
Define(s, ch)   == [ t |-> "define", s |-> s, ch |-> ch ]
Fact(s, cid)    == [ t |-> "fact", s |-> s, cid |-> cid ]
Rule(s, b, cid) == [ t |-> "clause", s |-> s, body |-> b, cid |-> cid ]
CallN(s, def)   == [ t |-> "call", s |-> s, def |-> def ]
Conj(a, b)      == [ t |-> "conj", ch |-> <<a, b>> ]

LenDB(D, d) == D[d].offset + Len(D[d].nodes)

RECURSIVE Resolve(_, _, _)
Resolve(D, d, i) ==
  LET j == IF D[d].parent # 0 /\ ResolveThroughAncestors THEN Resolve(D, D[d].parent, i) ELSE i
  IN  IF j \in DOMAIN D[d].redirect THEN D[d].redirect[j] ELSE j

RECURSIVE GetNode(_, _, _)
GetNode(D, d, i) ==
  LET j == Resolve(D, d, i)
  IN  IF j < D[d].offset THEN GetNode(D, D[d].parent, j) ELSE D[d].nodes[j - D[d].offset + 1]

\* the database whose node list holds (resolved) index i when looked up from d, as get_node descends
RECURSIVE Owner(_, _, _)
Owner(D, d, i) ==
  LET j == Resolve(D, d, i) IN IF j < D[d].offset THEN Owner(D, D[d].parent, j) ELSE d

NoHead == -1
RECURSIVE GetHead(_, _, _)
GetHead(D, d, s) ==
  IF s \in DOMAIN D[d].heads THEN D[d].heads[s]
  ELSE IF D[d].parent # 0 THEN GetHead(D, D[d].parent, s) ELSE NoHead

AppendNode(D, d, n) == [ D EXCEPT ![d].nodes = Append(@, n) ]
SetNode(D, d, i, n) == [ D EXCEPT ![d].nodes[i - D[d].offset + 1] = n ]      \* i >= offset (checked by IndexesLocal)
SetHead(D, d, s, i) == [ D EXCEPT ![d].heads = (s :> i) @@ @ ]

\* _add_head(head, create): returns [D, idx]
AddHead(D, d, s, create) ==
  LET node == GetHead(D, d, s) IN
  IF node = NoHead
  THEN LET idx == LenDB(D, d)
           D1 == AppendNode(D, d, IF create THEN Define(s, << >>) ELSE Empty)
       IN  [ D |-> SetHead(D1, d, s, idx), idx |-> idx ]
  ELSE IF create /\ node < D[d].offset
  THEN LET existing == GetNode(D, d, node)
           clauses == IF existing.t = "define" THEN existing.ch ELSE << >>
           idx == LenDB(D, d)
           D1 == AppendNode(D, d, Define(s, clauses))
           D2 == [ D1 EXCEPT ![d].redirect = (node :> idx) @@ @ ]
       IN  [ D |-> SetHead(D2, d, s, idx), idx |-> idx ]
  ELSE [ D |-> D, idx |-> node ]

\* _add_define_node(head, childnode)
AddDefineNode(D, d, s, child) ==
  LET r == AddHead(D, d, s, TRUE)
      n == GetNode(r.D, d, r.idx)
  IN  IF n.t # "define" THEN SetNode(r.D, d, r.idx, Define(s, <<child>>))
      ELSE \* clauses.append(childnode) mutates the list object inside the node that get_node returned - in whichever
           \* database that node lives (the model follows the code: if it were an ancestor's node, the ancestor changes)
           LET j == Resolve(r.D, d, r.idx)
               o == Owner(r.D, d, j)
           IN  SetNode(r.D, o, Resolve(r.D, o, j), Define(s, Append(n.ch, child)))

\* _add_call_node(term): placeholder head if the callee is unknown
AddCall(D, d, s) ==
  LET r == AddHead(D, d, s, FALSE)
      idx == LenDB(r.D, d)
  IN  [ D |-> AppendNode(r.D, d, CallN(s, r.idx)), idx |-> idx ]

DoFact(D, d, s, cid) ==
  LET idx == LenDB(D, d) IN AddDefineNode(AppendNode(D, d, Fact(s, cid)), d, s, idx)

DoRule(D, d, s, body, cid) ==
  LET c1 == AddCall(D, d, body[1])
      b  == IF Len(body) = 1 THEN c1
            ELSE LET c2 == AddCall(c1.D, d, body[2])
                     idx == LenDB(c2.D, d)
                 IN  [ D |-> AppendNode(c2.D, d, Conj(c1.idx, c2.idx)), idx |-> idx ]
      idx == LenDB(b.D, d)
  IN  AddDefineNode(AppendNode(b.D, d, Rule(s, b.idx, cid)), d, s, idx)

NewDB(D, p) == [ parent |-> p, offset |-> IF p = 0 THEN 0 ELSE LenDB(D, p), nodes |-> << >>, heads |-> << >>, redirect |-> << >> ]

\* ---------------------------------------------------------------- state machine
Init == /\ dbs = << [ parent |-> 0, offset |-> 0, nodes |-> << >>, heads |-> << >>, redirect |-> << >> ] >>
        /\ hist = << >>

Leaf(d) == \A e \in DOMAIN dbs : dbs[e].parent # d
NextCid == Len(hist) + 1

AddFactA(d, s) ==
  /\ Leaf(d)
  /\ dbs' = DoFact(dbs, d, s, NextCid)
  /\ hist' = Append(hist, [ op |-> "fact", d |-> d, s |-> s, body |-> << >>, cid |-> NextCid ])

AddRuleA(d, s, body) ==
  /\ Leaf(d)
  /\ dbs' = DoRule(dbs, d, s, body, NextCid)
  /\ hist' = Append(hist, [ op |-> "rule", d |-> d, s |-> s, body |-> body, cid |-> NextCid ])

ExtendA(d) ==
  /\ Len(dbs) < MaxDBs
  /\ dbs' = Append(dbs, NewDB(dbs, d))
  /\ hist' = Append(hist, [ op |-> "extend", d |-> d, s |-> "", body |-> << >>, cid |-> NextCid ])

Bodies == { <<a>> : a \in Preds } \cup { <<a, b>> : a \in Preds, b \in Preds }

Next ==
  /\ Len(hist) < MaxOps
  /\ \/ \E d \in DOMAIN dbs, s \in Preds : AddFactA(d, s)
     \/ \E d \in DOMAIN dbs, s \in Preds, b \in Bodies : AddRuleA(d, s, b)
     \/ \E d \in DOMAIN dbs : ExtendA(d)

Spec == Init /\ [][Next]_vars

\* ---------------------------------------------------------------- Layer A
RECURSIVE Ancestors(_, _)
Ancestors(D, d) == IF d = 0 THEN {} ELSE {d} \cup Ancestors(D, D[d].parent)

\* clauses of predicate s that database d denotes: added to d or an ancestor, in the order they were added
Ideal(d, s) ==
  LET A == Ancestors(dbs, d)
  IN  SelectSeq([ i \in DOMAIN hist |-> IF hist[i].op \in {"fact", "rule"} /\ hist[i].d \in A /\ hist[i].s = s THEN hist[i].cid ELSE 0 ],
                LAMBDA c : c # 0)

\* what d shows for s when navigated as the engine does: find(head) -> get_node -> children -> get_node
ChildCids(d, defnode) ==
  IF defnode.t # "define" THEN << >> ELSE [ k \in DOMAIN defnode.ch |-> GetNode(dbs, d, defnode.ch[k]).cid ]
View(d, s) ==
  LET h == GetHead(dbs, d, s) IN IF h = NoHead THEN << >> ELSE ChildCids(d, GetNode(dbs, d, h))

ViewCorrect == \A d \in DOMAIN dbs, s \in Preds : View(d, s) = Ideal(d, s)

\* every call node of every clause that d shows reaches, from d, d's own definition of the callee
CallNodesOf(d, n) ==
  IF n.t = "call" THEN {n} ELSE IF n.t = "conj" THEN { GetNode(dbs, d, n.ch[1]), GetNode(dbs, d, n.ch[2]) } ELSE {}
CallsReachCurrentDefinition ==
  \A d \in DOMAIN dbs, s \in Preds :
     LET h == GetHead(dbs, d, s) IN
     h # NoHead /\ GetNode(dbs, d, h).t = "define" =>
       \A k \in DOMAIN GetNode(dbs, d, h).ch :
          LET cl == GetNode(dbs, d, GetNode(dbs, d, h).ch[k]) IN
          cl.t = "clause" =>
            \A c \in CallNodesOf(d, GetNode(dbs, d, cl.body)) : ChildCids(d, GetNode(dbs, d, c.def)) = Ideal(d, c.s)

\* structural facts the code relies on
IndexesLocal ==      \* heads and redirect targets of a database point into its own segment or an ancestor's
  \A d \in DOMAIN dbs :
     /\ \A s \in DOMAIN dbs[d].heads : dbs[d].heads[s] < LenDB(dbs, d)
     /\ \A i \in DOMAIN dbs[d].redirect : i < dbs[d].offset /\ dbs[d].redirect[i] >= dbs[d].offset /\ dbs[d].redirect[i] < LenDB(dbs, d)
TypeOK == \A d \in DOMAIN dbs : dbs[d].parent \in 0..(d - 1) /\ dbs[d].offset >= 0
=============================================================================

---------------------------- MODULE TermAlgebra ----------------------------
(***************************************************************************)
(* Layer A: first-order terms, Robinson unification with occurs check,     *)
(* variants, the standard order of terms, sort/2.                          *)
(*                                                                         *)
(* A term is a record:                                                     *)
(*   [t |-> "v", n |-> id]              variable (integer id)              *)
(*   [t |-> "i", v |-> int]             integer                            *)
(*   [t |-> "f", v |-> int]             float, value v/4 (dyadic grid)     *)
(*   [t |-> "a", c |-> Seq(0..255)]     atom, text as character codes      *)
(*   [t |-> "s", c |-> Seq(0..255)]     string                             *)
(*   [t |-> "c", c |-> codes, a |-> Seq(term)]   compound (arity >= 1)     *)
(* Lists are compounds '.'(H,T) ending in the atom '[]'.                   *)
(***************************************************************************)
EXTENDS Naturals, Integers, Sequences, SequencesExt, FiniteSets, TLC

IsVar(x) == x.t = "v"

-----------------------------------------------------------------------------
(* Substitutions are functions from variable ids to terms (triangular).    *)

RECURSIVE Walk(_, _)
Walk(x, s) == IF x.t = "v" /\ x.n \in DOMAIN s THEN Walk(s[x.n], s) ELSE x

RECURSIVE Occurs(_, _, _)
Occurs(v, x, s) ==
  LET w == Walk(x, s)
  IN  IF w.t = "v" THEN w.n = v
      ELSE IF w.t = "c" THEN \E i \in DOMAIN w.a : Occurs(v, w.a[i], s)
      ELSE FALSE

Fail(occ) == [ ok |-> FALSE, occ |-> occ, s |-> << >> ]
Ok(s)     == [ ok |-> TRUE, occ |-> FALSE, s |-> s ]

Bind(v, x, s) == (v :> x) @@ s

RECURSIVE UnifyD(_, _, _, _)
RECURSIVE UnifyArgs(_, _, _, _, _)
\* most general unifier of x and y extending s (Robinson, with occurs check);
\* dir = 1: arguments left to right, dir = -1: right to left (only the REASON of a failure depends on it)
UnifyD(x, y, s, dir) ==
  LET a == Walk(x, s)
      b == Walk(y, s)
  IN  IF a.t = "v" /\ b.t = "v" /\ a.n = b.n THEN Ok(s)
      ELSE IF a.t = "v" THEN (IF Occurs(a.n, b, s) THEN Fail(TRUE) ELSE Ok(Bind(a.n, b, s)))
      ELSE IF b.t = "v" THEN (IF Occurs(b.n, a, s) THEN Fail(TRUE) ELSE Ok(Bind(b.n, a, s)))
      ELSE IF a.t # b.t THEN Fail(FALSE)
      ELSE IF a.t = "i" \/ a.t = "f" THEN (IF a.v = b.v THEN Ok(s) ELSE Fail(FALSE))
      ELSE IF a.t = "a" \/ a.t = "s" THEN (IF a.c = b.c THEN Ok(s) ELSE Fail(FALSE))
      ELSE IF a.c # b.c \/ Len(a.a) # Len(b.a) THEN Fail(FALSE)
      ELSE UnifyArgs(a.a, b.a, IF dir = 1 THEN 1 ELSE Len(a.a), s, dir)
UnifyArgs(xs, ys, i, s, dir) ==
  IF i > Len(xs) \/ i < 1 THEN Ok(s)
  ELSE LET r == UnifyD(xs[i], ys[i], s, dir)
       IN  IF r.ok THEN UnifyArgs(xs, ys, i + dir, r.s, dir) ELSE r
Unify(x, y, s) == UnifyD(x, y, s, 1)

Mgu(x, y) == Unify(x, y, << >>)
Unifiable(x, y) == Mgu(x, y).ok
\* a non-unifiable pair on which some unification order runs into the occurs check
OccursFailurePossible(x, y) == Mgu(x, y).occ \/ UnifyD(x, y, << >>, -1).occ

RECURSIVE Apply(_, _)
Apply(x, s) ==
  LET w == Walk(x, s)
  IN  IF w.t = "c" THEN [ w EXCEPT !.a = [ i \in DOMAIN w.a |-> Apply(w.a[i], s) ] ] ELSE w

-----------------------------------------------------------------------------
(* Variants: equal up to a bijective renaming of variables.                *)
(* VMap extends the renaming m (function id -> id) or returns the marker.  *)
\* a renaming in progress: [ok |-> BOOLEAN, m |-> function id -> id]
RECURSIVE VMap(_, _, _)
RECURSIVE VMapArgs(_, _, _, _)
VBad == [ ok |-> FALSE, m |-> << >> ]
VMap(x, y, r) ==
  IF ~r.ok THEN r
  ELSE LET m == r.m IN
       IF x.t = "v"
       THEN IF y.t # "v" THEN VBad
            ELSE IF x.n \in DOMAIN m THEN (IF m[x.n] = y.n THEN r ELSE VBad)
            ELSE IF \E k \in DOMAIN m : m[k] = y.n THEN VBad       \* injective
            ELSE [ ok |-> TRUE, m |-> (x.n :> y.n) @@ m ]
       ELSE IF x.t # y.t THEN VBad
       ELSE IF x.t = "i" \/ x.t = "f" THEN (IF x.v = y.v THEN r ELSE VBad)
       ELSE IF x.t = "a" \/ x.t = "s" THEN (IF x.c = y.c THEN r ELSE VBad)
       ELSE IF x.c # y.c \/ Len(x.a) # Len(y.a) THEN VBad
       ELSE VMapArgs(x.a, y.a, 1, r)
VMapArgs(xs, ys, i, r) ==
  IF i > Len(xs) \/ ~r.ok THEN r ELSE VMapArgs(xs, ys, i + 1, VMap(xs[i], ys[i], r))
Variant(x, y) == VMap(x, y, [ ok |-> TRUE, m |-> << >> ]).ok

RECURSIVE Ground(_)
Ground(x) == IF x.t = "v" THEN FALSE ELSE IF x.t = "c" THEN \A i \in DOMAIN x.a : Ground(x.a[i]) ELSE TRUE

\* syntactic identity (==/2): same term, variables compared by identity
Identical(x, y) == x = y

-----------------------------------------------------------------------------
(* Standard order of terms:  Var < Number < Atom < String < Compound.      *)
(* Numbers by value (a float f stands for f/4), a float before an equal    *)
(* integer; atoms and strings by character codes; compounds by arity, then *)
(* name, then arguments left to right.  Cmp returns -1, 0 or 1.            *)

CmpInt(a, b) == IF a < b THEN -1 ELSE IF a > b THEN 1 ELSE 0
RECURSIVE CmpCodes(_, _, _)
CmpCodes(a, b, i) ==
  IF i > Len(a) /\ i > Len(b) THEN 0
  ELSE IF i > Len(a) THEN -1
  ELSE IF i > Len(b) THEN 1
  ELSE IF a[i] # b[i] THEN CmpInt(a[i], b[i])
  ELSE CmpCodes(a, b, i + 1)

Rank(x) == CASE x.t = "v" -> 0 [] x.t = "i" -> 1 [] x.t = "f" -> 1 [] x.t = "a" -> 3 [] x.t = "s" -> 4 [] x.t = "c" -> 5
Num4(x) == IF x.t = "i" THEN 4 * x.v ELSE x.v          \* value in quarters

RECURSIVE StdCmp(_, _)
RECURSIVE StdCmpArgs(_, _, _)
StdCmp(x, y) ==
  IF Rank(x) # Rank(y) THEN CmpInt(Rank(x), Rank(y))
  ELSE IF x.t = "v" THEN CmpInt(x.n, y.n)
  ELSE IF Rank(x) = 1
       THEN IF Num4(x) # Num4(y) THEN CmpInt(Num4(x), Num4(y))
            ELSE IF x.t = y.t THEN 0 ELSE IF x.t = "f" THEN -1 ELSE 1
  ELSE IF x.t = "a" \/ x.t = "s" THEN CmpCodes(x.c, y.c, 1)
  ELSE IF Len(x.a) # Len(y.a) THEN CmpInt(Len(x.a), Len(y.a))
  ELSE IF CmpCodes(x.c, y.c, 1) # 0 THEN CmpCodes(x.c, y.c, 1)
  ELSE StdCmpArgs(x.a, y.a, 1)
StdCmpArgs(xs, ys, i) ==
  IF i > Len(xs) THEN 0
  ELSE LET r == StdCmp(xs[i], ys[i]) IN IF r # 0 THEN r ELSE StdCmpArgs(xs, ys, i + 1)

\* sort/2: strictly ascending, duplicate-free (duplicates = StdCmp 0)
RECURSIVE InsertSorted(_, _)
InsertSorted(s, x) ==
  IF s = << >> THEN <<x>>
  ELSE LET c == StdCmp(x, Head(s))
       IN  IF c < 0 THEN <<x>> \o s ELSE IF c = 0 THEN s ELSE <<Head(s)>> \o InsertSorted(Tail(s), x)
RECURSIVE SortUnique(_)
SortUnique(l) == IF l = << >> THEN << >> ELSE InsertSorted(SortUnique(Tail(l)), Head(l))

\* laws of the order on a finite universe (checked by TLC in TermAlgebraMC)
TotalOn(U)      == \A x, y \in U : StdCmp(x, y) = -StdCmp(y, x)
AntisymOn(U)    == \A x, y \in U : StdCmp(x, y) = 0 <=> x = y
TransitiveOn(U) == \A x, y, z \in U : (StdCmp(x, y) <= 0 /\ StdCmp(y, z) <= 0) => StdCmp(x, z) <= 0
=============================================================================

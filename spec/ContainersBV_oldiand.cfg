CONSTANT BS = 2
CONSTANT MaxIdx = 5
SPECIFICATION SpecOld
INVARIANT Refines
INVARIANT ContainsAgrees
CHECK_DEADLOCK FALSE

---------------------------- MODULE ContainersOS ----------------------------
(* OrderedSet: the linked-list representation refines the abstract sequence, for every history of
   add / discard / pop / |= &= -= / | & - ^ over two sets.  Model-checked exhaustively by TLC. *)
EXTENDS Containers
CONSTANT Keys            \* non-zero naturals (0 is the sentinel)
VARIABLES ax, ay, cx, cy, last   \* abstract / concrete state of two sets; last = result of the last call
vars == <<ax, ay, cx, cy, last>>

RECURSIVE OSB_AddAll(_, _)
OSB_AddAll(c, t) == IF t = <<>> THEN c ELSE OSB_AddAll(OSB_Add(c, Head(t)), Tail(t))
OSB_FromSeq(t)   == OSB_AddAll(OSB_Empty, t)
RECURSIVE OSB_DiscardAll(_, _)
OSB_DiscardAll(c, t) == IF t = <<>> THEN c ELSE OSB_DiscardAll(OSB_Discard(c, Head(t)), Tail(t))
\* the mixin methods, as executed on the concrete structure (iteration = walk of the list, membership = map)
OSB_Or(x, y)  == OSB_FromSeq(OSB_Abs(x) \o OSB_Abs(y))
OSB_And(x, y) == OSB_FromSeq(SelectSeq(OSB_Abs(y), LAMBDA k : k \in x.map))
OSB_Sub(x, y) == OSB_FromSeq(SelectSeq(OSB_Abs(x), LAMBDA k : k \notin y.map))
OSB_Xor(x, y) == OSB_Or(OSB_Sub(x, y), OSB_Sub(y, x))
OSB_IOr(x, y) == OSB_AddAll(x, OSB_Abs(y))
OSB_IAnd(x, y) == OSB_DiscardAll(x, OSB_Abs(OSB_Sub(x, y)))
OSB_ISub(x, y) == OSB_DiscardAll(x, OSB_Abs(y))

Init == ax = <<>> /\ ay = <<>> /\ cx = OSB_Empty /\ cy = OSB_Empty /\ last = <<"init">>

AddX(k)     == ax' = OSA_Add(ax, k) /\ cx' = OSB_Add(cx, k) /\ last' = <<"add", k>> /\ UNCHANGED <<ay, cy>>
AddY(k)     == ay' = OSA_Add(ay, k) /\ cy' = OSB_Add(cy, k) /\ last' = <<"addy", k>> /\ UNCHANGED <<ax, cx>>
DiscardX(k) == ax' = OSA_Discard(ax, k) /\ cx' = OSB_Discard(cx, k) /\ last' = <<"discard", k>> /\ UNCHANGED <<ay, cy>>
PopX(lst)   == /\ ax # <<>>
               /\ LET ka == IF lst THEN ax[Len(ax)] ELSE ax[1]
                      kc == IF lst THEN cx.prv[0] ELSE cx.nxt[0]     \* end[1][0] / end[2][0]
                  IN  /\ ax' = OSA_Discard(ax, ka) /\ cx' = OSB_Discard(cx, kc)
                      /\ last' = <<"pop", ka, kc>>
               /\ UNCHANGED <<ay, cy>>
IOrX        == ax' = OSA_IOr(ax, ay)  /\ cx' = OSB_IOr(cx, cy)  /\ last' = <<"ior">>  /\ UNCHANGED <<ay, cy>>
IAndX       == ax' = OSA_IAnd(ax, ay) /\ cx' = OSB_IAnd(cx, cy) /\ last' = <<"iand">> /\ UNCHANGED <<ay, cy>>
ISubX       == ax' = OSA_ISub(ax, ay) /\ cx' = OSB_ISub(cx, cy) /\ last' = <<"isub">> /\ UNCHANGED <<ay, cy>>
\* binary operators build a NEW set; it replaces y
OrXY        == ay' = OSA_Or(ax, ay)  /\ cy' = OSB_Or(cx, cy)  /\ last' = <<"or">>  /\ UNCHANGED <<ax, cx>>
AndXY       == ay' = OSA_And(ax, ay) /\ cy' = OSB_And(cx, cy) /\ last' = <<"and">> /\ UNCHANGED <<ax, cx>>
SubXY       == ay' = OSA_Sub(ax, ay) /\ cy' = OSB_Sub(cx, cy) /\ last' = <<"sub">> /\ UNCHANGED <<ax, cx>>
XorXY       == ay' = OSA_Xor(ax, ay) /\ cy' = OSB_Xor(cx, cy) /\ last' = <<"xor">> /\ UNCHANGED <<ax, cx>>

Next == \/ \E k \in Keys : AddX(k) \/ AddY(k) \/ DiscardX(k)
        \/ \E b \in BOOLEAN : PopX(b)
        \/ IOrX \/ IAndX \/ ISubX \/ OrXY \/ AndXY \/ SubXY \/ XorXY
Spec == Init /\ [][Next]_vars

\* ---- properties (C34, OrderedSet clause) ----
Refines      == OSB_Abs(cx) = ax /\ OSB_Abs(cy) = ay
WellFormed   == OSB_WellFormed(cx) /\ OSB_WellFormed(cy)
IsSet        == OSA_NoDup(ax) /\ OSA_NoDup(ay)
PopAgrees    == last[1] = "pop" => last[2] = last[3]
\* "a set that iterates in first-insertion order": add never moves an existing element
InsertionOrder == [][\A k \in Keys : (ax' = OSA_Add(ax, k) /\ k \in SeqToSet(ax)) => ax' = ax]_vars
View == <<ax, ay, cx, cy>>
=============================================================================

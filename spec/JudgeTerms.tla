---------------------------- MODULE JudgeTerms ----------------------------
(***************************************************************************)
(* C14 / C15 / C18, flow F-A: outcomes of the real =/2, \=/2, clause-head  *)
(* resolution, compare/3, @</2 ..., ==/2, sort/2 and of Python-level term  *)
(* equality / hashing, recorded by the harness, are judged against         *)
(* TermAlgebra.tla.                                                        *)
(* outcome codes: 1 = succeeded, 0 = failed, 2 = raised a ProbLog error    *)
(***************************************************************************)
EXTENDS TermAlgebra, Json, IOUtils

Cases == JsonDeserialize(IOEnv.CASES_FILE)

Pair(x, y) == [ t |-> "c", c |-> <<112>>, a |-> <<x, y>> ]

\* verdict for one way of unifying x with y: out = [ok |-> 0|1|2, res |-> instantiated pair (if ok = 1)]
UnifyVerdict(x, y, out, tag, whole) ==
  LET m == Mgu(x, y)
  IN  IF out.ok = 1
      THEN IF ~m.ok THEN tag \o (IF m.occ THEN "-succeeds-needing-occurs-check-violation" ELSE "-succeeds-on-non-unifiable")
           ELSE IF ~Variant(out.res, Apply(IF whole THEN Pair(x, y) ELSE x, m.s)) THEN tag \o "-bindings-not-mgu"
           ELSE ""
      ELSE IF out.ok = 0
      THEN IF m.ok THEN tag \o "-fails-on-unifiable" ELSE ""
      ELSE \* an error is acceptable only where an occurs-check violation would be needed
           IF m.ok \/ ~OccursFailurePossible(x, y) THEN tag \o "-raises-error" ELSE ""

JudgeUnify(C) ==
  LET v1 == UnifyVerdict(C.x, C.y, C.eq, "eq", TRUE)
      v2 == UnifyVerdict(C.x, C.yh, C.head, "head", FALSE)
      v2b == UnifyVerdict(C.x, C.yh, C.head2, "rulehead", FALSE)
      v2c == UnifyVerdict(C.x, C.yh, C.head3, "rulehead-with-body-variables", FALSE)
      v3 == IF C.eq.ok # 2 /\ C.neq.ok # 2 /\ (C.neq.ok = 1) # (C.eq.ok = 0) THEN "neq-not-complement-of-eq" ELSE ""
  IN  IF v1 # "" THEN v1 ELSE IF v3 # "" THEN v3 ELSE IF v2 # "" THEN v2 ELSE IF v2b # "" THEN v2b ELSE v2c

B(x) == x = 1
JudgeCmp(C) ==
  LET c == StdCmp(C.x, C.y)
  IN  IF C.cmp # c THEN "compare3"
      ELSE IF B(C.lt) # (c < 0) THEN "@<"
      ELSE IF B(C.le) # (c <= 0) THEN "@=<"
      ELSE IF B(C.gt) # (c > 0) THEN "@>"
      ELSE IF B(C.ge) # (c >= 0) THEN "@>="
      ELSE IF B(C.eq) # (c = 0) THEN "=="
      ELSE IF B(C.ne) # (c # 0) THEN "\\=="
      ELSE ""

JudgeSort(C) ==
  IF C.ok # 1 THEN "sort-failed"
  ELSE IF C.res # SortUnique(C.list) THEN "sort-result" ELSE ""

\* C18: matrix of Python-level == and hash over objects built with the public constructors / the parser.
\* eq[i][j] in {0,1}; hash[i] = class id (equal ids <=> equal hashes); unif[i][j] = 1 iff ProbLog's own
\* unify_value accepts the pair (0 = UnifyError, 2 = other exception); ground[i] in {0,1}
JudgeEq(C) ==
  LET n == Len(C.eq)
      E(i, j) == C.eq[i][j] = 1
  IN  IF \E i \in 1..n : ~E(i, i) THEN "eq-not-reflexive"
      ELSE IF \E i, j \in 1..n : E(i, j) # E(j, i) THEN "eq-not-symmetric"
      ELSE IF \E i, j, k \in 1..n : E(i, j) /\ E(j, k) /\ ~E(i, k) THEN "eq-not-transitive"
      ELSE IF \E i, j \in 1..n : E(i, j) /\ C.hash[i] # C.hash[j] THEN "eq-but-different-hash"
      ELSE IF \E i, j \in 1..n : C.ground[i] = 1 /\ C.ground[j] = 1 /\ C.unif[i][j] # 2
                                  /\ E(i, j) # (C.unif[i][j] = 1) THEN "eq-differs-from-unification"
      \* == is a relation on terms, not on object histories: the matrix observed before any hash was taken (eq0)
      \* and the one observed on the same objects afterwards (eq) are the same
      ELSE IF \E i, j \in 1..n : C.eq0[i][j] # C.eq[i][j] THEN "eq-changes-after-hashing"
      \* ... nor after the terms were printed (eq2: the matrix observed once str() / repr() of every object was taken)
      ELSE IF \E i, j \in 1..n : C.eq2[i][j] # C.eq[i][j] THEN "eq-changes-after-printing"
      ELSE ""

JudgeCase(C) ==
  LET why == CASE C.kind = "unify" -> JudgeUnify(C)
               [] C.kind = "cmp" -> JudgeCmp(C)
               [] C.kind = "sort" -> JudgeSort(C)
               [] C.kind = "eq" -> JudgeEq(C)
               [] C.kind = "variant" -> IF Variant(C.x, C.y) THEN "" ELSE "not-a-variant"
  IN  [ id |-> C.id, ok |-> why = "", why |-> why ]

Results == [ c \in DOMAIN Cases |-> JudgeCase(Cases[c]) ]
ASSUME ndJsonSerialize(IOEnv.OUT_FILE, Results)
=============================================================================

CONSTANT BS = 2
CONSTANT MaxIdx = 5
SPECIFICATION Spec
INVARIANT Refines
INVARIANT ContainsAgrees
CHECK_DEADLOCK FALSE

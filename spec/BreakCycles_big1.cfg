SPECIFICATION MCSpec
CONSTANTS
  NComp = 3
  RefKind = 1
  MaxQ = 1
  WithEvidence = FALSE
  WithEvv = FALSE
  ReuseChecksCB = TRUE
  ReuseChecksCN = TRUE
  SubtractBroken = TRUE
  EvvSigned = TRUE
CHECK_DEADLOCK FALSE
INVARIANT MeaningPreserved
INVARIANT TargetAcyclic
INVARIANT MemoSound
INVARIANT MemoShape

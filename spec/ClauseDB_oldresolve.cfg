SPECIFICATION Spec
CONSTANTS
  Preds = {"p", "q"}
  MaxOps = 6
  MaxDBs = 3
  ResolveThroughAncestors = FALSE
INVARIANT TypeOK
INVARIANT IndexesLocal
INVARIANT ViewCorrect
INVARIANT CallsReachCurrentDefinition
CHECK_DEADLOCK FALSE

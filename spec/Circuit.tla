---------------------------- MODULE Circuit ----------------------------
(***************************************************************************)
(* Layer A for C09 / C10: CNF model sets, Clark-completion correctness,    *)
(* d-DNNF structural properties and equivalence.                           *)
(* CNF: [nvars |-> n, clauses |-> Seq(Seq(Int))] (DIMACS literals).        *)
(* NNF / DAG graphs are AOG graphs (acyclic here).                         *)
(***************************************************************************)
EXTENDS AOG

AbsI(x) == IF x < 0 THEN -x ELSE x
LitTrue(l, M)    == IF l > 0 THEN l \in M ELSE (-l) \notin M          \* M = set of true variables
ClauseSat(c, M)  == \E i \in DOMAIN c : LitTrue(c[i], M)
CNFSat(cnf, M)   == \A j \in DOMAIN cnf.clauses : ClauseSat(cnf.clauses[j], M)

\* value of every node of an ACYCLIC graph, bottom-up, under the set T of true atom node indices
RECURSIVE EvalUpTo(_, _, _)
\* returns the set of true node indices among 1..k
EvalUpTo(g, k, T) ==
  IF k = 0 THEN {}
  ELSE LET prev == EvalUpTo(g, k - 1, T)
           n == g[k]
           kv(c) == IF c = 0 THEN TRUE ELSE IF c = FKey THEN FALSE
                    ELSE IF c > 0 THEN c \in prev ELSE (-c) \notin prev
           v == CASE n.t = "atom" -> k \in T
                  [] n.t = "conj" -> \A i \in DOMAIN n.ch : kv(n.ch[i])
                  [] n.t = "disj" -> \E i \in DOMAIN n.ch : kv(n.ch[i])
       IN  IF v THEN prev \cup {k} ELSE prev
EvalDag(g, T) == EvalUpTo(g, Len(g), T)
KeyTrue(k, V) == IF k = 0 THEN TRUE ELSE IF k = FKey THEN FALSE ELSE IF k > 0 THEN k \in V ELSE (-k) \notin V

AtomNodes(g) == { k \in DOMAIN g : g[k].t = "atom" }
CompNodes(g) == { k \in DOMAIN g : g[k].t # "atom" }

\* variables mentioned below a node (acyclic)
RECURSIVE VarsUpTo(_, _)
VarsUpTo(g, k) ==   \* function node -> set of atom nodes, for nodes 1..k
  IF k = 0 THEN << >>
  ELSE LET prev == VarsUpTo(g, k - 1)
           n == g[k]
           vs == IF n.t = "atom" THEN {k}
                 ELSE UNION { IF n.ch[i] = 0 \/ n.ch[i] = FKey THEN {} ELSE prev[AbsI(n.ch[i])] : i \in DOMAIN n.ch }
       IN  Append(prev, vs)
NodeVars(g) == VarsUpTo(g, Len(g))

Decomposable(g) ==
  LET nv == NodeVars(g)
  IN  \A k \in DOMAIN g : g[k].t = "conj" =>
        \A i, j \in DOMAIN g[k].ch : i < j =>
           LET a == g[k].ch[i]  b == g[k].ch[j]
           IN  (a = 0 \/ a = FKey \/ b = 0 \/ b = FKey) \/ nv[AbsI(a)] \cap nv[AbsI(b)] = {}
Smooth(g) ==
  LET nv == NodeVars(g)
  IN  \A k \in DOMAIN g : g[k].t = "disj" =>
        \A i, j \in DOMAIN g[k].ch :
           LET a == g[k].ch[i]  b == g[k].ch[j]
           IN  (a = 0 \/ a = FKey \/ b = 0 \/ b = FKey) \/ nv[AbsI(a)] = nv[AbsI(b)]
\* deterministic: under no assignment two children of an OR node are both true
DeterministicUnder(g, V) ==
  \A k \in DOMAIN g : g[k].t = "disj" =>
     \A i, j \in DOMAIN g[k].ch : i < j => ~(KeyTrue(g[k].ch[i], V) /\ KeyTrue(g[k].ch[j], V))
=============================================================================

---------------------------- MODULE DDNNFEval ----------------------------
(***************************************************************************)
(* Layer B: the life cycle of a SimpleDDNNFEvaluator as a state machine.   *)
(*   Propagate            evaluator.propagate() = _initialize(): weights   *)
(*                        from the formula, evidence literals, Z check     *)
(*   EvalQ                evaluator.evaluate(q) for the next query; the    *)
(*                        evaluator object (weights + cache) is reused     *)
(*   EvalEvidence         evaluator.evaluate_evidence()                    *)
(* One action per public call (sequential object: the linearisation point  *)
(* is the return of the call).                                             *)
(*                                                                         *)
(* Checked by TLC for every circuit of the family, every weight vector,    *)
(* every evidence list and every query sequence:                           *)
(*   InitCorrect       InconsistentEvidenceError iff P(evidence) = 0       *)
(*   ResultsCorrect    every value returned is P(q | evidence), the ratio  *)
(*                     of weighted model counts (Layer A, Circuit.tla)     *)
(*   EvidenceCorrect   evaluate_evidence() = P(evidence)                   *)
(*   WeightsRestored   between calls the weights are those after           *)
(*                     propagate (history independence)                    *)
(***************************************************************************)
EXTENDS DDNNFEvalOps, TLC

VARIABLES g, w0, ev, qs, nsp,       \* the instance
          st,                       \* evaluator state
          pc,                       \* "new" | "ready" | "inconsistent"
          qi, results, pev          \* next query, values returned so far, result of evaluate_evidence (or <<>>)
vars == <<g, w0, ev, qs, nsp, st, pc, qi, results, pev>>

InitRest == /\ st = [ w |-> << >>, c |-> << >> ] /\ pc = "new" /\ qi = 1 /\ results = << >> /\ pev = << >>

Propagate ==
  /\ pc = "new"
  /\ LET r == Initialize(g, w0, ev)
     IN  /\ st' = r.st
         /\ pc' = IF r.bad THEN "inconsistent" ELSE "ready"
  /\ UNCHANGED <<g, w0, ev, qs, nsp, qi, results, pev>>

EvalQ ==
  /\ pc = "ready" /\ qi <= Len(qs)
  /\ LET r == Evaluate(g, st, qs[qi], ev # << >>, nsp)
     IN  /\ st' = r.st
         /\ results' = Append(results, r.val)
  /\ qi' = qi + 1
  /\ UNCHANGED <<g, w0, ev, qs, nsp, pc, pev>>

\* evaluate_evidence() re-initialises the weights without evidence and leaves the evidence literals set by _set_value:
\* the evaluator is not used for queries afterwards (tasks call it on a fresh evaluator), so it ends the behaviour
EvalEvidence ==
  /\ pc = "ready" /\ pev = << >> /\ qi > Len(qs)
  /\ LET r == EvaluateEvidence(g, w0, ev) IN pev' = <<r.val>> /\ st' = r.st
  /\ pc' = "closed"
  /\ UNCHANGED <<g, w0, ev, qs, nsp, qi, results>>

Next == Propagate \/ EvalQ \/ EvalEvidence

\* ---------------------------------------------------------------- properties
PE == WMC(g, w0, ev)
PQ(q) == IF q = 0 THEN PE ELSE IF q = FKey THEN RZero ELSE WMC(g, w0, ev \o <<q>>)

InitCorrect == pc # "new" => ((pc = "inconsistent") <=> RIsZero(PE))

\* without evidence and outside NSP the evaluator does not normalise: the property then speaks about circuits whose total
\* weight is one (what ProbLog's own pipeline produces)
Normalised == ev # << >> \/ nsp
ResultsCorrect ==
  (pc \in {"ready", "closed"} /\ (Normalised \/ REq(WMC(g, w0, << >>), ROne))) =>
     \A i \in DOMAIN results : REq(results[i], IF Normalised THEN RDiv(PQ(qs[i]), PE) ELSE PQ(qs[i]))

EvidenceCorrect == pev # << >> => REq(pev[1], PE)

\* weights after propagate: formula weights with the evidence literals set to (1,0) / (0,1)
RECURSIVE EvW(_, _, _)
EvW(w, e, i) == IF i > Len(e) THEN w
                ELSE EvW(Put(w, AbsI(e[i]), IF e[i] > 0 THEN <<ROne, RZero>> ELSE <<RZero, ROne>>), e, i + 1)
WeightsRestored == pc = "ready" => st.w = EvW(w0, ev, 1)

\* the cache only ever holds the value the node has under the current weights
CacheSound == pc = "ready" => \A k \in DOMAIN st.c : REq(st.c[k], GetWeight(g, [ w |-> st.w, c |-> << >> ], k).val)
=============================================================================

---------------------------- MODULE FormulaBuilder ----------------------------
(***************************************************************************)
(* Layer B.  ProbLog's ground-program builder (LogicFormula in             *)
(* problog/formula.py) as a state machine: one action per public call,     *)
(* transcribed branch by branch from                                       *)
(*   add_atom            formula.py:619   (deterministic shortcuts, index) *)
(*   add_and / add_or    formula.py:691   -> _add_compound  formula.py:808 *)
(*   _add                formula.py:539   (three index tables, `reuse`)    *)
(*   add_disjunct        formula.py:753   (max_arity split, TRUE child)    *)
(*   negate              formula.py:373                                    *)
(* The builder state is the node table plus the three hash-consing         *)
(* indexes.  `hist` is the history of calls in exactly the format the      *)
(* harness replays into the real class (vlib/pl_tasks.py builder_history)  *)
(* and JudgeBuilder.tla judges: each entry carries the key the MODEL       *)
(* returned.  Keys: 0 = TRUE, FKey = FALSE (Python None), -k = negation.   *)
(*                                                                         *)
(* Layer A link: MeaningPreserved - after every call, every key returned   *)
(* so far has, under every assignment of the atoms, the same well-founded  *)
(* value in the model's (folded, shared) graph as its call has in the      *)
(* ideal graph that keeps one node per call with the intended children     *)
(* (JudgeBuilder!IdealRules).  This is property C11 stated on the design.  *)
(* Names (add_name, avoid_name_clash) are not modelled.                    *)
(***************************************************************************)
EXTENDS FormulaBuilderOps

CONSTANTS AtomSeq,          \* atom identifiers, e.g. <<"x", "y">>; the history starts with one add_atom per identifier
          MaxCalls,         \* bound on the history length
          MaxRefs,          \* bound on the number of children of one add_and / add_or call
          AutoCompact, KeepDuplicates, KeepAll, MaxArity      \* builder options (keep_order does not change behaviour:
                                                              \* both branches build tuple(OrderedSet(content)))

VARIABLES nodes,     \* Seq([t, ch, id, det])  - the node table (key k = nodes[k])
          ia,        \* _index_atom : atom identifier -> key
          ic,        \* _index_conj : children tuple  -> key
          id,        \* _index_disj : children tuple  -> key
          hist       \* calls so far, with the returned keys

vars == <<nodes, ia, ic, id, hist>>

Atoms == { AtomSeq[i] : i \in DOMAIN AtomSeq }
Opt == [ ac |-> AutoCompact, kd |-> KeepDuplicates, ka |-> KeepAll, ma |-> MaxArity ]

\* ---------------------------------------------------------------- references and the ideal graph
Ref(i, s) == [ k |-> "c", i |-> i, s |-> s ]
RefT == [ k |-> "T", i |-> 0, s |-> 1 ]
RefF == [ k |-> "F", i |-> 0, s |-> 1 ]
ValueCalls(h) == { i \in DOMAIN h : h[i].op \in {"atom", "and", "or", "not"} }
AllRefs(h) == { Ref(i, s) : i \in ValueCalls(h), s \in {0, 1} } \cup {RefT, RefF}
KeyOf(h, r) == IF r.k = "T" THEN 0 ELSE IF r.k = "F" THEN FKey
               ELSE IF r.s = 1 THEN h[r.i].ret ELSE NegKey(h[r.i].ret)
RefSeqs(h) == UNION { [ 1..n -> AllRefs(h) ] : n \in 1..MaxRefs }

Call(op, refs, a, det, target, mut, ret) ==
  [ op |-> op, refs |-> refs, id |-> a, det |-> det, target |-> target, mutable |-> mut, skipped |-> 0, named |-> 0, ret |-> ret ]

\* dependency of the ideal graph: does call src reach call dst along a path that uses at least one negated reference?
\* (ProbLog's engine raises NegativeCycle for ANY cycle through a negation, even or odd; such graphs are outside the
\* builder's contract, and the well-founded reading of the ideal graph would not be two-valued on them.)
Edges(h) == { <<(IF h[i].op = "disjunct" THEN h[i].target ELSE i), h[i].refs[j].i, h[i].refs[j].s>> :
                 <<i, j>> \in { <<a, b>> \in (DOMAIN h) \X (1..MaxRefs) : b \in DOMAIN h[a].refs /\ h[a].refs[b].k = "c" } }
RECURSIVE ReachNeg(_, _)
ReachNeg(E, S) ==
  LET T == S \cup { <<e[2], IF e[3] = 0 THEN 1 ELSE p[2]>> : <<e, p>> \in { <<x, y>> \in E \X S : x[1] = y[1] } }
  IN  IF T = S THEN S ELSE ReachNeg(E, T)
NegDep(h, src, dst) == <<dst, 1>> \in ReachNeg(Edges(h), { <<src, 0>> })

\* ---------------------------------------------------------------- the state machine
Init == /\ nodes = [ i \in DOMAIN AtomSeq |-> [ t |-> "atom", ch |-> << >>, id |-> AtomSeq[i], det |-> 0 ] ]
        /\ ia = [ a \in Atoms |-> CHOOSE i \in DOMAIN AtomSeq : AtomSeq[i] = a ]
        /\ ic = << >> /\ id = << >>
        /\ hist = [ i \in DOMAIN AtomSeq |-> Call("atom", << >>, AtomSeq[i], 0, 0, 0, i) ]

Cur == St(nodes, ia, ic, id)
Commit(r, call) ==
  /\ nodes' = r.st.nodes /\ ia' = r.st.ia /\ ic' = r.st.ic /\ id' = r.st.id
  /\ hist' = Append(hist, call)

DoAtom(a, det) ==
  LET r == AddAtom(Opt, Cur, a, det)
  IN  Commit(r, Call("atom", << >>, a, det, 0, 0, r.ret))

DoAnd(refs) ==
  LET r == AddCompound(Opt, Cur, "conj", [ j \in DOMAIN refs |-> KeyOf(hist, refs[j]) ], TRUE)
  IN  Commit(r, Call("and", refs, "", 0, 0, 0, r.ret))

DoOr(refs, mut) ==
  LET r == AddCompound(Opt, Cur, "disj", [ j \in DOMAIN refs |-> KeyOf(hist, refs[j]) ], mut = 0)
  IN  Commit(r, Call("or", refs, "", 0, 0, mut, r.ret))

\* negate(key of the positive reference); the history stores the already negated reference (JudgeBuilder's convention)
DoNot(ref) ==
  LET pos == IF ref.k = "c" THEN Ref(ref.i, 1 - ref.s) ELSE IF ref.k = "T" THEN RefF ELSE RefT
  IN  Commit(Out(Cur, NegKey(KeyOf(hist, pos))), Call("not", <<ref>>, "", 0, 0, 0, NegKey(KeyOf(hist, pos))))

\* add_disjunct on the result of an earlier MUTABLE add_or whose key is a real disjunction node
Updatable(i) == /\ hist[i].op = "or" /\ hist[i].mutable = 1
                /\ hist[i].ret > 0 /\ hist[i].ret # FKey /\ nodes[hist[i].ret].t = "disj"
DoDisjunct(i, ref) ==
  LET call == Call("disjunct", <<ref>>, "", 0, i, 0, NoRet)
  IN  /\ Updatable(i)
      /\ ~(ref.k = "c" /\ NegDep(Append(hist, call), i, i))          \* no cycle through negation (outside the contract)
      /\ Commit(Out(AddDisjunct(Opt, Cur, hist[i].ret, KeyOf(hist, ref)), NoRet), call)

Next ==
  /\ Len(hist) < MaxCalls
  /\ \/ \E a \in Atoms : DoAtom(a, 0)
     \/ \E refs \in RefSeqs(hist) : DoAnd(refs)
     \/ \E refs \in RefSeqs(hist), m \in {0, 1} : DoOr(refs, m)
     \/ \E r \in AllRefs(hist) : DoNot(r)
     \/ \E i \in DOMAIN hist, r \in AllRefs(hist) : DoDisjunct(i, r)

Spec == Init /\ [][Next]_vars

\* ---------------------------------------------------------------- Layer A: C11 on the design
RefPosI(refs) == { <<"i", refs[j].i>> : j \in { x \in DOMAIN refs : refs[x].k = "c" /\ refs[x].s = 1 } }
RefNegI(refs) == { <<"i", refs[j].i>> : j \in { x \in DOMAIN refs : refs[x].k = "c" /\ refs[x].s = 0 } }
RefHasF(refs) == \E j \in DOMAIN refs : refs[j].k = "F"
OneRule(i, r) == [ h |-> <<"i", i>>,
                   pos |-> IF r.k = "c" /\ r.s = 1 THEN { <<"i", r.i>> } ELSE {},
                   neg |-> IF r.k = "c" /\ r.s = 0 THEN { <<"i", r.i>> } ELSE {} ]
IdealRulesOf(h, asg) ==
  UNION { LET c == h[i] IN
          CASE c.op = "atom" -> IF c.det = 1 \/ (c.det = 0 /\ c.id \in asg) THEN { [ h |-> <<"i", i>>, pos |-> {}, neg |-> {} ] } ELSE {}
            [] c.op \in {"and", "not"} -> IF RefHasF(c.refs) THEN {}
                                          ELSE { [ h |-> <<"i", i>>, pos |-> RefPosI(c.refs), neg |-> RefNegI(c.refs) ] }
            [] c.op = "or" -> { OneRule(i, c.refs[j]) : j \in { x \in DOMAIN c.refs : c.refs[x].k # "F" } }
            [] c.op = "disjunct" -> IF c.refs[1].k = "F" THEN {} ELSE { OneRule(c.target, c.refs[1]) }
          : i \in DOMAIN h }

MeaningPreserved ==
  \A asg \in SUBSET Atoms :
     LET wr == WFM(GraphRules("r", nodes, asg))
         wi == WFM(IdealRulesOf(hist, asg))
     IN  \A i \in ValueCalls(hist) :
            KeyValue("r", wr, hist[i].ret) = (IF <<"i", i>> \in wi[1] THEN "T" ELSE IF <<"i", i>> \in wi[2] THEN "U" ELSE "F")

\* structural invariants of the real class that the engine relies on
IndexesPointAtTheirContent ==
  /\ \A a \in DOMAIN ia : nodes[ia[a]].t = "atom" /\ nodes[ia[a]].id = a
  /\ \A c \in DOMAIN ic : nodes[ic[c]].t = "conj" /\ nodes[ic[c]].ch = c
KeysInRange ==
  \A k \in DOMAIN nodes : \A j \in DOMAIN nodes[k].ch :
      LET c == nodes[k].ch[j] IN c = 0 \/ c = FKey \/ AbsKey(c) \in DOMAIN nodes
TypeOK == /\ \A k \in DOMAIN nodes : nodes[k].t \in {"atom", "conj", "disj"}
          /\ \A i \in DOMAIN hist : hist[i].ret = NoRet \/ hist[i].ret = 0 \/ hist[i].ret = FKey \/ AbsKey(hist[i].ret) \in DOMAIN nodes
=============================================================================

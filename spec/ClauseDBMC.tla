---------------------------- MODULE ClauseDBMC ----------------------------
(* Model-checking wrapper for ClauseDB.tla: exports every explored history with the views the model predicts.            *)
EXTENDS ClauseDB, Json
Views == [ d \in DOMAIN dbs |-> [ s \in Preds |-> View(d, s) ] ]
ExportHist == (Len(hist) = MaxOps) => PrintT(<<"HIST", ToJson([ hist |-> hist, views |-> Views, parents |-> [ d \in DOMAIN dbs |-> dbs[d].parent ] ])>>)
Alias == [ hist |-> hist, views |-> Views, ideal |-> [ d \in DOMAIN dbs |-> [ s \in Preds |-> Ideal(d, s) ] ],
           calls |-> [ d \in DOMAIN dbs |-> [ s \in Preds |->
              LET h == GetHead(dbs, d, s) IN
              IF h = NoHead \/ GetNode(dbs, d, h).t # "define" THEN << >>
              ELSE [ k \in DOMAIN GetNode(dbs, d, h).ch |->
                     LET cl == GetNode(dbs, d, GetNode(dbs, d, h).ch[k]) IN
                     IF cl.t # "clause" THEN << >> ELSE
                     LET cs == CallNodesOf(d, GetNode(dbs, d, cl.body)) IN
                     { <<c.s, ChildCids(d, GetNode(dbs, d, c.def)), Ideal(d, c.s)>> : c \in cs } ] ] ] ]
=============================================================================

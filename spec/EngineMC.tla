---------------------------- MODULE EngineMC ----------------------------
(* Model-checking wrapper for Engine.tla: the program family, query sequences, and the export of every terminal       *)
(* behaviour (program, queries, schedule, projected message log, results, formula) for replay on the real engine.     *)
EXTENDS Engine, Json

Fact(h)    == [ h |-> h, b |-> << >>, f |-> TRUE ]
Rule(h, b) == [ h |-> h, b |-> b, f |-> FALSE ]
L(s, a)    == [ s |-> s, a |-> a ]
ClauseSeqs(h, B) == { << Rule(h, b) >> : b \in B } \cup { << Rule(h, b1), Rule(h, b2) >> : b1 \in B, b2 \in B }

QB == { << L(1, "f") >>, << L(0, "g") >>, << L(1, "f"), L(1, "g") >>, << L(1, "g"), L(0, "f") >> }
PB == { << L(1, "q") >>, << L(0, "q") >>, << L(1, "q"), L(1, "f") >>, << L(1, "g"), L(0, "q") >>, << L(1, "f") >>,
        << L(0, "q"), L(0, "f") >> }
FamilyPQ == { << Fact("f"), Fact("g") >> \o qs \o ps : qs \in ClauseSeqs("q", QB), ps \in ClauseSeqs("p", PB) }
\* a fact that also has a rule, three clauses for one predicate, a three-level chain
RB == { << L(1, "q"), L(1, "p") >>, << L(0, "p") >>, << L(1, "p"), L(0, "q") >> }
FamilyDeep == { << Fact("f"), Fact("g"), Fact("q"), Rule("q", << L(1, "f"), L(0, "g") >>) >> \o ps \o rs :
                  ps \in { << Rule("p", << L(1, "q") >>), Rule("p", << L(0, "f") >>), Rule("p", << L(1, "g"), L(1, "q") >>) >>,
                           << Rule("p", << L(0, "q"), L(1, "g") >>) >> },
                  rs \in ClauseSeqs("r", RB) }
\* positive recursion between p and q (cycles of length 1 and 2), with facts and stratified negation on top
PBc == { << L(1, "q") >>, << L(1, "f") >>, << L(1, "q"), L(1, "g") >>, << L(1, "g"), L(1, "q") >>, << L(1, "p") >> }
QBc == { << L(1, "p") >>, << L(1, "g") >>, << L(1, "p"), L(1, "f") >>, << L(0, "f"), L(1, "p") >> }
FamilyCyc == { << Fact("f"), Fact("g") >> \o ps \o qs : ps \in ClauseSeqs("p", PBc), qs \in ClauseSeqs("q", QBc) }
RBc == { << L(0, "p") >>, << L(0, "q"), L(1, "f") >>, << L(1, "q"), L(0, "p") >> }
FamilyCycNeg == { << Fact("f"), Fact("g") >> \o ps \o qs \o rs :
                    ps \in { << Rule("p", << L(1, "q") >>), Rule("p", << L(1, "f") >>) >>, << Rule("p", << L(1, "q"), L(1, "g") >>), Rule("p", << L(1, "f") >>) >> },
                    qs \in { << Rule("q", << L(1, "p") >>) >>, << Rule("q", << L(1, "g") >>), Rule("q", << L(1, "p"), L(1, "f") >>) >> },
                    rs \in ClauseSeqs("r", RBc) }
\* cycles THROUGH negation: the engine must raise NegativeCycle or answer; never a wrong two-valued answer
FamilyNegLoop == { << Fact("f"), Fact("g") >> \o ps \o qs :
                     ps \in ClauseSeqs("p", { << L(0, "q") >>, << L(1, "f") >>, << L(1, "q"), L(1, "g") >>, << L(0, "q"), L(1, "f") >> }),
                     qs \in ClauseSeqs("q", { << L(1, "p") >>, << L(0, "p") >>, << L(1, "g") >>, << L(1, "p"), L(0, "f") >> }) }
\* three predicates on one cycle, a deterministic fact t, a contradictory conjunction (g, \+g): the shapes of KF1
B3(x) == { << L(1, x) >>, << L(1, "g"), L(0, "g") >>, << L(1, x), L(1, "f") >>, << L(1, "t") >>, << L(1, "g"), L(1, x) >> }
Family3 == { << Fact("f"), Fact("g"), Fact("t") >> \o as \o bs \o cs :
               as \in ClauseSeqs("p", B3("r")), bs \in { << Rule("q", << L(1, "p") >>) >>, << Rule("q", << L(1, "p"), L(1, "f") >>) >> },
               cs \in ClauseSeqs("r", B3("q")) }
\* a cycle nested in a cycle, with a negated call of the inner goal from a sibling branch of the outer one
\* (q :- q, \+p.  q :- p.  p :- a.  a :- a.  a :- f.): stratified, although p is still active when \+p is evaluated
FamilyNested == { << Fact("f"), Fact("g") >> \o qs \o ps \o as :
                    qs \in { << Rule("q", << L(1, "q"), L(0, "p") >>), Rule("q", << L(1, "p") >>) >>,
                             << Rule("q", << L(1, "p") >>), Rule("q", << L(1, "q"), L(0, "p") >>) >>,
                             << Rule("q", << L(0, "p"), L(1, "q") >>), Rule("q", << L(1, "p"), L(1, "g") >>) >>,
                             << Rule("q", << L(1, "p"), L(1, "q") >>), Rule("q", << L(0, "a") >>), Rule("q", << L(1, "p") >>) >> },
                    ps \in { << Rule("p", << L(1, "a") >>) >>, << Rule("p", << L(1, "a"), L(0, "f") >>) >>,
                             << Rule("p", << L(1, "g") >>), Rule("p", << L(1, "a") >>) >> },
                    as \in { << Rule("a", << L(1, "a") >>), Rule("a", << L(1, "f") >>) >>,
                             << Rule("a", << L(1, "f") >>), Rule("a", << L(1, "a"), L(1, "g") >>) >>,
                             << Rule("a", << L(1, "p") >>), Rule("a", << L(1, "f") >>) >> } }
\* TWO recursive clauses around a base clause, in every clause order (recursive, base, recursive; ...): the second recursive
\* call of a goal meets a cycle parent that already has a cycle child and results found in between
Perm3(a, b, c) == { <<a, b, c>>, <<a, c, b>>, <<b, a, c>>, <<b, c, a>>, <<c, a, b>>, <<c, b, a>> }
FamilyMultiRec == { << Fact("f"), Fact("g") >> \o rs \o qs :
                      rs \in UNION { Perm3(Rule("r", << L(1, "q"), L(1, "f") >>), Rule("r", << L(1, "g") >>), Rule("r", << L(1, x), L(1, "f") >>))
                                     : x \in {"q", "r"} },
                      qs \in { << Rule("q", << L(1, "r") >>) >>,
                               << Rule("q", << L(1, "r") >>), Rule("q", << L(1, "f"), L(1, "g") >>) >>,
                               << Rule("q", << L(1, "f") >>), Rule("q", << L(1, "r") >>) >> } }
\* KF42: the negated goal c is first called positively below the active goal b, which already has a proof
\* b :- f.  b :- c.  b :- \+c.  c :- b.     (b is undefined when f is false, yet the engine answers)
FamilyKF42 == { << Fact("f"), Fact("g"),
                   Rule("p", << L(1, "f") >>), Rule("p", << L(1, "q") >>), Rule("p", << L(0, "q") >>),
                   Rule("q", << L(1, "p") >>) >> }
QSkf42 == { << "p" >> }
QSmr == { << "r" >>, << "q" >>, << "r", "q" >>, << "q", "r" >> }
\* a negated goal with a positive cycle of its own, evaluated while an enclosing cycle is open (the shape of KF2):
\* a :- \+r.  r :- r.  r :- \+p.  p :- p.   - stratified, yet connecting p's cycle to the open root walks through the EvalNot
FamilyKF2 == { << Fact("f"), Fact("g") >> \o as \o rs \o ps :
                 as \in { << Rule("a", << L(0, "r") >>) >>, << Rule("a", << L(0, "r"), L(1, "f") >>) >>, << Rule("a", << L(1, "r") >>) >> },
                 rs \in { << Rule("r", << L(1, "r") >>), Rule("r", << L(0, "p") >>) >>,
                          << Rule("r", << L(0, "p") >>), Rule("r", << L(1, "r") >>) >>,
                          << Rule("r", << L(1, "r"), L(1, "g") >>), Rule("r", << L(0, "p"), L(1, "f") >>) >> },
                 ps \in { << Rule("p", << L(1, "p") >>) >>, << Rule("p", << L(1, "p") >>), Rule("p", << L(1, "g") >>) >>,
                          << Rule("p", << L(1, "g") >>), Rule("p", << L(1, "p"), L(1, "f") >>) >> } }
QSa == { << "a" >>, << "r" >>, << "p", "a" >> }
SmallPrograms == FamilyPQ
AllPrograms   == FamilyPQ \cup FamilyDeep
QS2 == { << "p" >>, << "p", "q" >>, << "q", "p" >> }
QS3 == QS2 \cup { << "r", "p" >>, << "q", "r" >>, << "r" >> }

\* the projection of a popped message that the harness also records from the real engine
Proj(P, m) ==
  CASE m.t = "q" -> [ t |-> "q", k |-> "", p |-> m.p, a |-> 0, node |-> 0, last |-> 0 ]
    [] m.t = "e" -> [ t |-> "e",
                      k |-> IF m.node.k = "clause" THEN (IF P[m.node.i].f THEN "fact" ELSE "clause") ELSE m.node.k,
                      p |-> IF m.node.k = "clause" THEN P[m.node.i].h ELSE m.node.p,      \* for a neg node: the negated predicate
                      a |-> m.par, node |-> 0, last |-> 0 ]
    [] m.t = "r" -> [ t |-> "r", k |-> "", p |-> "", a |-> m.obj, node |-> m.key, last |-> IF m.last THEN 1 ELSE 0 ]
    [] m.t = "c" -> [ t |-> "c", k |-> "", p |-> "", a |-> m.obj, node |-> 0, last |-> 0 ]

Export == (Done \/ Failed \/ Stuck) =>
            PrintT(<<"HIST", ToJson([ prog |-> prog, queries |-> queries, sched |-> sched,
                                      log |-> [ i \in DOMAIN log |-> Proj(prog, log[i]) ],
                                      results |-> results, nodes |-> fb.nodes,
                                      err |-> IF Stuck THEN "InvalidEngineState" ELSE err ])>>)
ShowClause(c) == IF c.f THEN <<c.h>> ELSE <<c.h, ":-", [ j \in DOMAIN c.b |-> IF c.b[j].s = 1 THEN c.b[j].a ELSE "not " \o c.b[j].a ]>>
Alias == [ program |-> [ i \in DOMAIN prog |-> ShowClause(prog[i]) ], queries |-> queries, results |-> results, err |-> err,
           nodes |-> fb.nodes, cache |-> cache, nmsgs |-> Len(msgs), popped |-> IF log = << >> THEN << >> ELSE Proj(prog, log[Len(log)]) ]
=============================================================================

SPECIFICATION Spec
CONSTANTS
  Programs <- AllPrograms
  QuerySeqs <- QS3
  Permute = TRUE
VIEW view
INVARIANT NoCycleInFamily
INVARIANT NoDanglingMessages
INVARIANT StackEmpty
INVARIANT TableSound
INVARIANT ResultCorrect
CHECK_DEADLOCK FALSE

SPECIFICATION Spec
CONSTANTS
  Programs <- FamilyCycNeg
  QuerySeqs <- QS3
  Permute = TRUE
  CheckOnTableHit = TRUE
  RepairFalseResult = TRUE
  LinkStopsAtNegation = FALSE
CONSTRAINT Export
CHECK_DEADLOCK FALSE

SPECIFICATION Spec
CONSTANTS
  Programs <- FamilyCycNeg
  QuerySeqs <- QS3
  Permute = TRUE
  CheckOnTableHit = TRUE
  RepairFalseResult = TRUE
CONSTRAINT Export
CHECK_DEADLOCK FALSE

---------------------------- MODULE AOG ----------------------------
(***************************************************************************)
(* Layer A.  Signed AND/OR graphs as ProbLog's LogicFormula stores them,   *)
(* and their meaning: for an assignment to the atoms, the well-founded     *)
(* (least-fixpoint, negation by alternating fixpoint) valuation of every   *)
(* node.  Keys: 0 = TRUE, FKey = FALSE (Python None), k > 0 = node k,      *)
(* k < 0 = negation of node -k.                                            *)
(* A graph is a sequence of nodes [t |-> "atom"|"conj"|"disj",            *)
(*                                 ch |-> Seq(key), id |-> atom identity,  *)
(*                                 det |-> 0 free | 1 true | 2 false].     *)
(***************************************************************************)
EXTENDS Semantics

FKey == 1000000

\* literals of a child key, as (pos, neg) contribution; TRUE adds nothing, FALSE makes a conjunction fail
ChildPos(tag, ch) == { <<tag, ch[i]>> : i \in { j \in DOMAIN ch : ch[j] > 0 /\ ch[j] # FKey } }
ChildNeg(tag, ch) == { <<tag, -ch[i]>> : i \in { j \in DOMAIN ch : ch[j] < 0 } }
HasFalse(ch)      == \E i \in DOMAIN ch : ch[i] = FKey

\* normal rules describing graph g under the atom assignment asg (a set of atom identities)
GraphRules(tag, g, asg) ==
  UNION { LET n == g[k] IN
          CASE n.t = "atom" -> \* det = 1: deterministic true atom kept as a node (keep_all); det = 2: deterministic false
                               IF n.det = 1 \/ (n.det = 0 /\ n.id \in asg)
                               THEN { [ h |-> <<tag, k>>, pos |-> {}, neg |-> {} ] } ELSE {}
            [] n.t = "conj" -> IF HasFalse(n.ch) THEN {}
                               ELSE { [ h |-> <<tag, k>>, pos |-> ChildPos(tag, n.ch), neg |-> ChildNeg(tag, n.ch) ] }
            [] n.t = "disj" -> { [ h |-> <<tag, k>>,
                                   pos |-> IF n.ch[i] > 0 /\ n.ch[i] # FKey THEN { <<tag, n.ch[i]>> } ELSE {},
                                   neg |-> IF n.ch[i] < 0 THEN { <<tag, -n.ch[i]>> } ELSE {} ]
                                 : i \in { j \in DOMAIN n.ch : n.ch[j] # FKey } }
          : k \in DOMAIN g }

\* three-valued value of a key: "T", "F" or "U" given wf = WFM(rules)
KeyValue(tag, wf, k) ==
  IF k = 0 THEN "T"
  ELSE IF k = FKey THEN "F"
  ELSE LET a == <<tag, IF k > 0 THEN k ELSE -k>>
           v == IF a \in wf[1] THEN "T" ELSE IF a \in wf[2] THEN "U" ELSE "F"
       IN  IF k > 0 THEN v ELSE (IF v = "T" THEN "F" ELSE IF v = "F" THEN "T" ELSE "U")

AtomIds(g) == { g[k].id : k \in { j \in DOMAIN g : g[j].t = "atom" } }
Acyclic(g) == \A k \in DOMAIN g : g[k].t = "atom" \/
                 \A i \in DOMAIN g[k].ch : LET c == g[k].ch[i] IN c = 0 \/ c = FKey \/ (IF c > 0 THEN c ELSE -c) < k
=============================================================================

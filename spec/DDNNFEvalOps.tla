---------------------------- MODULE DDNNFEvalOps ----------------------------
(***************************************************************************)
(* problog/ddnnf_formula.py: SimpleDDNNFEvaluator as pure operators over   *)
(* an evaluator state st = [w |-> weights (atom -> <<pos, neg>>),          *)
(*                          c |-> cache_intermediate (node -> value)]      *)
(* and a circuit g (Circuit.tla: acyclic AOG graph, root = Len(g)).        *)
(* Values are exact rationals <<num, den>> (the probability semiring; the  *)
(* NSP flag only switches the normalisation rule, as in the code).         *)
(***************************************************************************)
EXTENDS Circuit

CONSTANTS ClearCacheOnSetWeight,   \* TRUE in the code: set_weight clears cache_intermediate
          EvidenceCheckOld         \* TRUE in the code: set_evidence tests the CURRENT weight of the observed side for zero

\* ---------------------------------------------------------------- exact rationals
Q(n, d)      == <<n, d>>
RZero        == Q(0, 1)
ROne         == Q(1, 1)
RGcd(a, b)   == LET RECURSIVE G(_, _)
                    G(x, y) == IF y = 0 THEN x ELSE G(y, x % y)
                IN  G(a, b)
RRed(q)      == IF q[1] = 0 THEN RZero ELSE LET d == RGcd(q[1], q[2]) IN Q(q[1] \div d, q[2] \div d)
RPlus(a, b)  == RRed(Q(a[1] * b[2] + b[1] * a[2], a[2] * b[2]))
RTimes(a, b) == RRed(Q(a[1] * b[1], a[2] * b[2]))
RDiv(a, z)   == RRed(Q(a[1] * z[2], a[2] * z[1]))          \* z # 0
REq(a, b)    == a[1] * b[2] = b[1] * a[2]
RIsZero(a)   == a[1] = 0

\* ---------------------------------------------------------------- the evaluator
Put(f, k, v) == IF k \in DOMAIN f THEN [ f EXCEPT ![k] = v ] ELSE (k :> v) @@ f
RV(st, v) == [ st |-> st, val |-> v ]

RECURSIVE GetWeight(_, _, _), KidWeights(_, _, _, _)

\* _get_weight(index)  (+ _calculate_weight on a miss; the result is cached as (w, w))
GetWeight(g, st, index) ==
  IF index = 0 THEN RV(st, ROne)
  ELSE IF index = FKey THEN RV(st, RZero)
  ELSE LET a == AbsI(index) IN
       IF a \in DOMAIN st.w THEN RV(st, st.w[a][IF index < 0 THEN 2 ELSE 1])
       ELSE IF a \in DOMAIN st.c THEN RV(st, st.c[a])
       ELSE LET n == g[a]
                r == IF n.t = "atom" THEN RV(st, ROne)                    \* an atom without a weight
                     ELSE LET k == KidWeights(g, st, n.ch, << >>)
                          IN  RV(k.st, IF n.t = "conj"
                                       THEN LET RECURSIVE P(_)
                                                P(s) == IF s = << >> THEN ROne ELSE RTimes(Head(s), P(Tail(s)))
                                            IN  P(k.val)
                                       ELSE LET RECURSIVE S(_)
                                                S(s) == IF s = << >> THEN RZero ELSE RPlus(Head(s), S(Tail(s)))
                                            IN  S(k.val))
            IN  RV([ r.st EXCEPT !.c = Put(@, a, r.val) ], r.val)

KidWeights(g, st, ch, acc) ==
  IF ch = << >> THEN RV(st, acc)
  ELSE LET r == GetWeight(g, st, Head(ch)) IN KidWeights(g, r.st, Tail(ch), Append(acc, r.val))

\* set_weight(index, pos, neg)
SetWeight(st, index, pos, neg) ==
  [ w |-> Put(st.w, index, <<pos, neg>>), c |-> IF ClearCacheOnSetWeight THEN << >> ELSE st.c ]

\* _set_value(index, value)
SetValue(g, st, index, value) ==
  IF value THEN LET r == GetWeight(g, st, index)  IN SetWeight(r.st, index, r.val, RZero)
           ELSE LET r == GetWeight(g, st, -index) IN SetWeight(r.st, index, RZero, r.val)

\* get_root_weight()   (weights.get(0) is None: no weight of TRUE)
RootWeight(g, st) == GetWeight(g, st, Len(g))

\* set_evidence(index, value): "inconsistent" or the new state
SetEvidence(st, index, value) ==
  LET cur == st.w[index]
      new == IF value THEN <<ROne, RZero>> ELSE <<RZero, ROne>>              \* Semiring.to_evidence
      tested == IF EvidenceCheckOld THEN cur ELSE new
      bad == (value /\ RIsZero(tested[1])) \/ (~value /\ RIsZero(tested[2]))
  IN  [ bad |-> bad, st |-> SetWeight(st, index, new[1], new[2]) ]

\* _initialize(with_evidence = True): weights from the formula, evidence literals in order, Z must not be zero
RECURSIVE ApplyEvidence(_, _, _)
ApplyEvidence(st, ev, i) ==
  IF i > Len(ev) THEN [ bad |-> FALSE, st |-> st ]
  ELSE LET r == SetEvidence(st, AbsI(ev[i]), ev[i] > 0)
       IN  IF r.bad THEN r ELSE ApplyEvidence(r.st, ev, i + 1)
Initialize(g, w0, ev) ==
  LET r == ApplyEvidence([ w |-> w0, c |-> << >> ], ev, 1)
  IN  IF r.bad THEN [ bad |-> TRUE, st |-> r.st ]
      ELSE LET z == RootWeight(g, r.st) IN [ bad |-> RIsZero(z.val), st |-> z.st ]

\* evaluate(node): result and the state left behind
Evaluate(g, st, node, hasEv, nsp) ==
  IF node = 0
  THEN IF ~nsp THEN RV(st, ROne)
       ELSE LET r == RootWeight(g, st)
                z == RootWeight(g, r.st)
            IN  RV(z.st, RDiv(r.val, z.val))
  ELSE IF node = FKey THEN RV(st, RZero)
  ELSE LET a  == AbsI(node)
           p  == GetWeight(g, st, a)
           n  == GetWeight(g, p.st, -a)
           s1 == SetValue(g, n.st, a, node > 0)
           r  == RootWeight(g, s1)
           s2 == SetWeight(r.st, a, p.val, n.val)                           \* _reset_value
       IN  IF hasEv \/ nsp
           THEN LET z == RootWeight(g, s2) IN RV(z.st, RDiv(r.val, z.val))
           ELSE RV(s2, r.val)

\* _evaluate_evidence(): P(evidence) with the formula's own weights
RECURSIVE SetValues(_, _, _, _)
SetValues(g, st, ev, i) == IF i > Len(ev) THEN st ELSE SetValues(g, SetValue(g, st, AbsI(ev[i]), ev[i] > 0), ev, i + 1)
EvaluateEvidence(g, w0, ev) == RootWeight(g, SetValues(g, [ w |-> w0, c |-> << >> ], ev, 1))

\* ---------------------------------------------------------------- Layer A: weighted model counts
Atoms(g) == AtomNodes(g)
Models(g) == { T \in SUBSET Atoms(g) : Len(g) \in EvalDag(g, T) }
WOf(w0, a, val) == IF a \in DOMAIN w0 THEN w0[a][IF val THEN 1 ELSE 2] ELSE ROne
RECURSIVE ProdOver(_, _, _)
ProdOver(S, w0, T) == IF S = {} THEN ROne
                      ELSE LET a == CHOOSE x \in S : TRUE IN RTimes(WOf(w0, a, a \in T), ProdOver(S \ {a}, w0, T))
RECURSIVE SumOver(_, _, _)
SumOver(Ms, g, w0) == IF Ms = {} THEN RZero
                      ELSE LET T == CHOOSE x \in Ms : TRUE IN RPlus(ProdOver(Atoms(g), w0, T), SumOver(Ms \ {T}, g, w0))
Sat(T, lits) == \A i \in DOMAIN lits : LitTrue(lits[i], T)
WMC(g, w0, lits) == SumOver({ T \in Models(g) : Sat(T, lits) }, g, w0)
=============================================================================

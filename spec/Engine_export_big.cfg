SPECIFICATION Spec
CONSTANTS
  Programs <- AllPrograms
  QuerySeqs <- QS3
  Permute = TRUE
  CheckOnTableHit = FALSE
  RepairFalseResult = FALSE
VIEW view
INVARIANT NoDanglingMessages
INVARIANT NoError
INVARIANT NegCycleOnlyWhenCyclic
INVARIANT StackEmpty
INVARIANT TableSound
INVARIANT ResultCorrect
CONSTRAINT Export
CHECK_DEADLOCK FALSE

---------------------------- MODULE ContainersBV ----------------------------
(* BitVector: blocks of BS bits refine a set of naturals under add / contains / iteration / len / & / | / &= / |=. *)
EXTENDS Containers
CONSTANTS BS, MaxIdx
VARIABLES ax, ay, bx, by, last
vars == <<ax, ay, bx, by, last>>
Idx == 0..MaxIdx

Init == ax = {} /\ ay = {} /\ bx = << >> /\ by = << >> /\ last = <<"init">>
AddX(i) == ax' = ax \cup {i} /\ bx' = BVB_Add(bx, i, BS) /\ last' = <<"add">> /\ UNCHANGED <<ay, by>>
AddY(i) == ay' = ay \cup {i} /\ by' = BVB_Add(by, i, BS) /\ last' = <<"add">> /\ UNCHANGED <<ax, bx>>
ContainsX(i) == last' = <<"contains", i \in ax, BVB_Contains(bx, i, BS)>> /\ UNCHANGED <<ax, ay, bx, by>>
AndXY == ay' = ax \cap ay /\ by' = BVB_And(bx, by) /\ last' = <<"and">> /\ UNCHANGED <<ax, bx>>
OrXY  == ay' = ax \cup ay /\ by' = BVB_Or(bx, by)  /\ last' = <<"or">>  /\ UNCHANGED <<ax, bx>>
IAndX == ax' = ax \cap ay /\ bx' = BVB_IAnd(bx, by) /\ last' = <<"iand">> /\ UNCHANGED <<ay, by>>
IOrX  == ax' = ax \cup ay /\ bx' = BVB_IOr(bx, by)  /\ last' = <<"ior">>  /\ UNCHANGED <<ay, by>>
Next == (\E i \in Idx : AddX(i) \/ AddY(i) \/ ContainsX(i)) \/ AndXY \/ OrXY \/ IAndX \/ IOrX
Spec == Init /\ [][Next]_vars

Refines == BVB_Abs(bx, BS) = ax /\ BVB_Abs(by, BS) = ay
ContainsAgrees == last[1] = "contains" => last[2] = last[3]
\* the pre-fix __iand__ (high blocks of self kept): TLC must find a Refines counterexample (expected-violation config)
IAndXOld == ax' = ax \cap ay /\ bx' = BVB_IAndOld(bx, by) /\ last' = <<"iand">> /\ UNCHANGED <<ay, by>>
NextOld == (\E i \in Idx : AddX(i) \/ AddY(i) \/ ContainsX(i)) \/ AndXY \/ OrXY \/ IAndXOld \/ IOrX
SpecOld == Init /\ [][NextOld]_vars
=============================================================================

SPECIFICATION Spec
CONSTANTS
  K = 3
  CompletionAll = TRUE
INVARIANT Sound
CHECK_DEADLOCK FALSE
CONSTRAINT Export

SPECIFICATION MCSpec
CONSTANTS
  NComp = 3
  RefKind = 3
  MaxQ = 2
  WithEvidence = TRUE
  ReuseChecksCB = TRUE
  ReuseChecksCN = TRUE
  SubtractBroken = TRUE
CHECK_DEADLOCK FALSE
INVARIANT MeaningPreserved
INVARIANT TargetAcyclic
INVARIANT MemoSound
INVARIANT MemoShape

---------------------------- MODULE JudgeSLD ----------------------------
(* C13 / C33, flow F-A: the answer sequence the real engine returns for a query on a deterministic program is
   judged against SLD!Answers (Prolog order, duplicates kept).  impl.ok: 1 answers, 2 ProbLog error. *)
EXTENDS Cut, Json, IOUtils
Cases == JsonDeserialize(IOEnv.CASES_FILE)

SameSeq(a, b) == Len(a) = Len(b) /\ \A i \in DOMAIN a : Variant(a[i], b[i])
\* multiset comparison up to variants
Count(x, s) == Cardinality({ i \in DOMAIN s : Variant(s[i], x) })
SameBag(a, b) == Len(a) = Len(b) /\ \A i \in DOMAIN a : Count(a[i], a) = Count(a[i], b)
SameSet(a, b) == (\A i \in DOMAIN a : Count(a[i], b) > 0) /\ (\A i \in DOMAIN b : Count(b[i], a) > 0)

\* elements of a Prolog list term
RECURSIVE ListElems(_)
ListElems(x) == IF x.t = "c" /\ x.c = <<46>> /\ Len(x.a) = 2 THEN <<x.a[1]>> \o ListElems(x.a[2]) ELSE << >>
\* mode "seq": one answer w(List); compare the lists
ListVerdict(e, i) ==
  IF Len(e) # 1 \/ Len(i) # 1 THEN "answer-set"
  ELSE LET le == ListElems(e[1].a[1])
           li == ListElems(i[1].a[1])
       IN  IF SameSeq(le, li) THEN ""
           ELSE IF SameBag(le, li) THEN "findall-order"
           ELSE IF SameSet(le, li) THEN "findall-multiplicity"
           ELSE "findall-content"

\* first occurrences only (a tabled engine reports every answer once)
RECURSIVE Dedup(_, _)
Dedup(s, acc) == IF s = << >> THEN acc
                 ELSE IF Count(Head(s), acc) > 0 THEN Dedup(Tail(s), acc) ELSE Dedup(Tail(s), Append(acc, Head(s)))

JudgeCase(C) ==
  LET b == IF C.mode = "builtin" THEN Builtin(C.q) ELSE [ sup |-> TRUE, sols |-> << >> ]
      e == IF C.mode = "builtin" THEN [ ovf |-> ~b.sup, ans |-> b.sols ]
           ELSE IF C.mode = "cut" THEN CutAnswers(C.prog, C.q)
           ELSE Answers(C.prog, C.q, 400)
      why == IF e.ovf THEN "skip"
             ELSE IF C.impl.ok # 1 THEN "error-instead-of-answers"
             ELSE IF C.mode = "set" \/ C.mode = "cut" THEN (IF SameSet(e.ans, C.impl.ans) THEN "" ELSE "answer-set")
             ELSE IF SameSeq(e.ans, C.impl.ans) THEN ""
             ELSE IF C.mode = "seq" THEN ListVerdict(e.ans, C.impl.ans)
             ELSE IF C.mode = "seqtop"
                  THEN (IF SameSeq(Dedup(e.ans, << >>), C.impl.ans) THEN ""
                        ELSE IF SameSet(e.ans, C.impl.ans) THEN "toplevel-answer-order" ELSE "answer-set")
             ELSE IF SameBag(e.ans, C.impl.ans) THEN "answer-order"
             ELSE IF SameSet(e.ans, C.impl.ans) THEN "answer-multiplicity"
             ELSE "answer-set"
  IN  [ id |-> C.id, ok |-> (why = "" \/ why = "skip"), skipped |-> why = "skip", why |-> why,
        nexp |-> Len(e.ans), exp |-> IF why = "" \/ why = "skip" THEN << >> ELSE e.ans ]
Results == [ c \in DOMAIN Cases |-> JudgeCase(Cases[c]) ]
ASSUME ndJsonSerialize(IOEnv.OUT_FILE, Results)
=============================================================================

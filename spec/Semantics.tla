---------------------------- MODULE Semantics ----------------------------
(***************************************************************************)
(* Layer A.  The distribution (possible-world) semantics of function-free  *)
(* ProbLog programs with probabilistic facts, annotated disjunctions (with *)
(* or without bodies), normal rules, queries and evidence.                 *)
(*                                                                         *)
(* A program is a record (the structured exchange form, DESIGN App. C):    *)
(*   consts   : sequence of constant names                                 *)
(*   facts    : sequence of [p |-> <<num,den>>, atom |-> A]   (ground)     *)
(*   ads      : sequence of [heads |-> Seq([p, atom]), body |-> Seq(Lit)]  *)
(*   rules    : sequence of [head |-> A, body |-> Seq(Lit)]                *)
(*   queries  : sequence of A        (may contain variables)               *)
(*   evidence : sequence of [atom |-> A, s |-> 0|1]   (ground)             *)
(* A   = [f |-> name, a |-> Seq([k |-> "c"|"v", v |-> name])]              *)
(* Lit = [s |-> 0|1, atom |-> A]            (s = 1 positive, 0 negated)    *)
(*                                                                         *)
(* Truth in a world is the well-founded model of the world's normal        *)
(* program (alternating fixpoint).  All numbers are exact integers: a      *)
(* world's weight is the product of the numerators of its choices over     *)
(* the common denominator Den(P) (product of all choice denominators).     *)
(***************************************************************************)
EXTENDS Naturals, Integers, Sequences, SequencesExt, FiniteSets, FiniteSetsExt, TLC

SeqRange(s) == { s[i] : i \in DOMAIN s }


-----------------------------------------------------------------------------
(* Terms, atoms, substitutions *)

AVars(A)   == { A.a[i].v : i \in { j \in DOMAIN A.a : A.a[j].k = "v" } }
LitsVars(b) == UNION { AVars(b[i].atom) : i \in DOMAIN b }

\* a ground atom is [f |-> name, a |-> sequence of constant names]
GA(A, th) == [ f |-> A.f,
               a |-> [ i \in DOMAIN A.a |->
                         IF A.a[i].k = "v" THEN th[A.a[i].v] ELSE A.a[i].v ] ]

Subst(vs, P) == [ vs -> SeqRange(P.consts) ]

-----------------------------------------------------------------------------
(* Ground normal rules: [h |-> ground atom, pos |-> set, neg |-> set]      *)

PosOf(b, th) == { GA(b[i].atom, th) : i \in { j \in DOMAIN b : b[j].s = 1 } }
NegOf(b, th) == { GA(b[i].atom, th) : i \in { j \in DOMAIN b : b[j].s = 0 } }

RuleVars(r) == AVars(r.head) \cup LitsVars(r.body)
GroundRules(P) ==
  UNION { { [ h |-> GA(P.rules[i].head, th),
              pos |-> PosOf(P.rules[i].body, th),
              neg |-> NegOf(P.rules[i].body, th) ]
            : th \in Subst(RuleVars(P.rules[i]), P) }
          : i \in DOMAIN P.rules }

ADVars(ad) == UNION { AVars(ad.heads[i].atom) : i \in DOMAIN ad.heads } \cup LitsVars(ad.body)

-----------------------------------------------------------------------------
(* Choices.  A fact is one binary choice (value 1 = true, 0 = false).      *)
(* An AD contributes one choice per substitution of all its variables;     *)
(* value k in 1..n selects head k, 0 selects no head.                      *)

FactChoices(P) == { <<"f", j, <<>> >> : j \in DOMAIN P.facts }
ADChoices(P)   == UNION { { <<"a", i, th>> : th \in Subst(ADVars(P.ads[i]), P) }
                          : i \in DOMAIN P.ads }
PChoices(P)     == FactChoices(P) \cup ADChoices(P)

Arity(P, c) == IF c[1] = "f" THEN 1 ELSE Len(P.ads[c[2]].heads)

ChDen(P, c) == IF c[1] = "f" THEN P.facts[c[2]].p[2]
               ELSE P.ads[c[2]].heads[1].p[2]      \* all heads of one AD share a denominator

RECURSIVE SeqSum(_)
SeqSum(s) == IF s = <<>> THEN 0 ELSE Head(s) + SeqSum(Tail(s))

HeadNums(ad) == [ i \in DOMAIN ad.heads |-> ad.heads[i].p[1] ]

ChoiceNum(P, c, v) ==
  IF c[1] = "f"
  THEN IF v = 1 THEN P.facts[c[2]].p[1] ELSE P.facts[c[2]].p[2] - P.facts[c[2]].p[1]
  ELSE LET ad == P.ads[c[2]]
       IN  IF v = 0 THEN ad.heads[1].p[2] - SeqSum(HeadNums(ad)) ELSE ad.heads[v].p[1]

\* every annotation in [0,1] and every AD sums to at most 1
ValidAnnotation(P) ==
  /\ \A j \in DOMAIN P.facts : P.facts[j].p[1] >= 0 /\ P.facts[j].p[1] <= P.facts[j].p[2]
  /\ \A i \in DOMAIN P.ads :
        /\ \A k \in DOMAIN P.ads[i].heads : P.ads[i].heads[k].p[1] >= 0
                                            /\ P.ads[i].heads[k].p[1] <= P.ads[i].heads[k].p[2]
        /\ SeqSum(HeadNums(P.ads[i])) <= P.ads[i].heads[1].p[2]

\* the rules a choice contributes in a world where it takes value v
ChoiceRules(P, c, v) ==
  IF c[1] = "f"
  THEN IF v = 1 THEN { [ h |-> GA(P.facts[c[2]].atom, <<>>), pos |-> {}, neg |-> {} ] } ELSE {}
  ELSE IF v = 0 THEN {}
       ELSE LET ad == P.ads[c[2]]
            IN  { [ h |-> GA(ad.heads[v].atom, c[3]),
                    pos |-> PosOf(ad.body, c[3]), neg |-> NegOf(ad.body, c[3]) ] }

\* all rules any world can contain (the full ground program; used for the
\* dependency graph and the Herbrand base)
AllChoiceRules(P) ==
  UNION { UNION { ChoiceRules(P, c, v) : v \in 0..Arity(P, c) } : c \in PChoices(P) }
FullGround(P) == GroundRules(P) \cup AllChoiceRules(P)

-----------------------------------------------------------------------------
(* Well-founded model of a ground normal program by the alternating        *)
(* fixpoint.  Gamma(R, I) = least model of the reduct of R w.r.t. I.       *)

RECURSIVE Lfp(_, _)
Lfp(R, S) ==
  LET S2 == S \cup { r.h : r \in { x \in R : x.pos \subseteq S } }
  IN  IF S2 = S THEN S ELSE Lfp(R, S2)

Gamma(R, I) == Lfp({ r \in R : r.neg \cap I = {} }, {})

RECURSIVE Alt(_, _)
\* K = atoms known true so far (under-estimate); returns <<True, Possible>>
Alt(R, K) ==
  LET U  == Gamma(R, K)        \* over-estimate of true atoms
      K2 == Gamma(R, U)        \* improved under-estimate
  IN  IF K2 = K THEN <<K, U>> ELSE Alt(R, K2)

WFM(R) == Alt(R, {})           \* <<true atoms, true-or-undefined atoms>>

-----------------------------------------------------------------------------
(* Dependency graph of the full grounding and cycles through negation      *)

RECURSIVE Reach(_, _)
\* atoms that the atoms in S depend on (reflexive-transitive)
Reach(R, S) ==
  LET S2 == S \cup UNION { r.pos \cup r.neg : r \in { x \in R : x.h \in S } }
  IN  IF S2 = S THEN S ELSE Reach(R, S2)

HasNegativeCycle(R) == \E r \in R : \E n \in r.neg : r.h \in Reach(R, {n})

-----------------------------------------------------------------------------
(* Queries and evidence *)

QueryInstances(P) ==
  UNION { { GA(P.queries[i], th) : th \in Subst(AVars(P.queries[i]), P) } : i \in DOMAIN P.queries }

EvidenceAtoms(P) == { GA(P.evidence[i].atom, <<>>) : i \in DOMAIN P.evidence }

Defined(P) == { r.h.f : r \in FullGround(P) }
\* predicate names that occur in a body, a query or evidence but have no clause at all
CalledPreds(P) ==
  UNION { { a.f : a \in r.pos \cup r.neg } : r \in FullGround(P) }
UndefinedCalled(P) ==
  (CalledPreds(P) \cup { P.queries[i].f : i \in DOMAIN P.queries }
                  \cup { P.evidence[i].atom.f : i \in DOMAIN P.evidence }) \ Defined(P)

-----------------------------------------------------------------------------
(* World enumeration.  Eval(P) walks the choices depth-first and returns   *)
(*   [ den  |-> total weight of worlds satisfying the evidence,            *)
(*     num  |-> [q \in QueryInstances |-> weight of those where q holds],  *)
(*     undefW |-> number of positive-weight worlds in which a query or     *)
(*                evidence atom is undefined,                              *)
(*     posW |-> number of positive-weight worlds ]                         *)

ChoiceSeq(P) == SetToSeq(PChoices(P))

EvOK(P, T, U) ==
  \A i \in DOMAIN P.evidence :
     LET a == GA(P.evidence[i].atom, <<>>)
     IN  IF P.evidence[i].s = 1 THEN a \in T ELSE a \notin U

Leaf(P, R, wt, QI, EA) ==
  LET wf   == WFM(R)
      T    == wf[1]
      U    == wf[2]
      ok   == EvOK(P, T, U)
      \* the evidence is not definitely contradicted in this world (atoms may still be undefined)
      evPossible == \A i \in DOMAIN P.evidence :
                      LET a == GA(P.evidence[i].atom, <<>>)
                      IN  IF P.evidence[i].s = 1 THEN a \in U ELSE a \notin T
      und  == evPossible /\ \E a \in QI \cup EA : a \in U /\ a \notin T
  IN  [ den    |-> IF ok THEN wt ELSE 0,
        num    |-> [ q \in QI |-> IF ok /\ q \in T THEN wt ELSE 0 ],
        undefW |-> IF wt > 0 /\ und THEN 1 ELSE 0,
        posW   |-> IF wt > 0 THEN 1 ELSE 0 ]

Merge(x, y) ==
  [ den |-> x.den + y.den,
    num |-> [ q \in DOMAIN x.num |-> x.num[q] + y.num[q] ],
    undefW |-> x.undefW + y.undefW,
    posW |-> x.posW + y.posW ]

RECURSIVE Walk(_, _, _, _, _, _, _)
Walk(P, cs, k, R, wt, QI, EA) ==
  IF k > Len(cs) THEN Leaf(P, R, wt, QI, EA)
  ELSE LET c == cs[k]
           RECURSIVE Branch(_)
           Branch(v) ==
             LET here == Walk(P, cs, k + 1, R \cup ChoiceRules(P, c, v),
                              wt * ChoiceNum(P, c, v), QI, EA)
             IN  IF v = Arity(P, c) THEN here ELSE Merge(here, Branch(v + 1))
       IN  Branch(0)

Eval(P) == Walk(P, ChoiceSeq(P), 1, GroundRules(P), 1, QueryInstances(P), EvidenceAtoms(P))

\* common denominator of all world weights
RECURSIVE DenProd(_, _, _)
DenProd(P, cs, k) == IF k > Len(cs) THEN 1 ELSE ChDen(P, cs[k]) * DenProd(P, cs, k + 1)
Den(P) == DenProd(P, ChoiceSeq(P), 1)

-----------------------------------------------------------------------------
(* Classification used by C01 / C02 / C30 *)

MustAnswer(P)  == ~HasNegativeCycle(FullGround(P))
\* some possible (positive-weight) world leaves a QUERY or EVIDENCE atom undefined in its well-founded model.
\* (Undefined atoms that the queries do not depend on are not counted: a goal-directed engine never sees them -
\* that is the 'only after goal-directed pruning' latitude of C02.)
MustReject(P, ev) == ev.undefW > 0

=============================================================================

---------------------------- MODULE JudgeClauseDB ----------------------------
(***************************************************************************)
(* C29, structural form, on data recorded from the real ClauseDB.  A case  *)
(* is a history of operations (the alphabet of ClauseDB.tla: fact, rule,   *)
(* extend) executed on real databases, with - recorded after the LAST      *)
(* operation and, where the harness says so, after every operation -       *)
(*   views[d][s] : the clause ids database d shows for predicate s,        *)
(*                 navigated with find() / get_node() as the engine does   *)
(*   calls[d]    : for every call node of every clause that d shows:       *)
(*                 [s |-> callee, seen |-> clause ids reached from d]      *)
(* Layer A (ClauseDB!Ideal): d shows exactly the clauses added to d and    *)
(* its ancestors, in order; calls reach d's own definition of the callee.  *)
(***************************************************************************)
EXTENDS Naturals, Integers, Sequences, FiniteSets, TLC, Json, IOUtils
Cases == JsonDeserialize(IOEnv.CASES_FILE)

RECURSIVE Anc(_, _)
Anc(parents, d) == IF d = 0 THEN {} ELSE {d} \cup Anc(parents, parents[d])

IdealOf(hist, n, parents, d, s) ==
  LET A == Anc(parents, d)
  IN  SelectSeq([ i \in 1..n |-> IF hist[i].op \in {"fact", "rule"} /\ hist[i].d \in A /\ hist[i].s = s THEN hist[i].cid ELSE 0 ],
                LAMBDA c : c # 0)

\* snapshot = [n |-> number of operations executed, parents, views |-> Seq([s, cids]) per db, calls |-> Seq(Seq([s, seen]))]
SnapBad(C, S) ==
  LET dbsN == DOMAIN S.parents
      badView == { <<d, k>> \in dbsN \X (1..20) : k \in DOMAIN S.views[d] /\
                     S.views[d][k].cids # IdealOf(C.hist, S.n, S.parents, d, S.views[d][k].s) }
      badCall == { <<d, k>> \in dbsN \X (1..60) : k \in DOMAIN S.calls[d] /\
                     S.calls[d][k].seen # IdealOf(C.hist, S.n, S.parents, d, S.calls[d][k].s) }
  IN  IF badView # {} THEN LET w == CHOOSE x \in badView : TRUE
                           IN [ ok |-> FALSE, why |-> "view", n |-> S.n, d |-> w[1], s |-> S.views[w[1]][w[2]].s,
                                got |-> S.views[w[1]][w[2]].cids, want |-> IdealOf(C.hist, S.n, S.parents, w[1], S.views[w[1]][w[2]].s) ]
      ELSE IF badCall # {} THEN LET w == CHOOSE x \in badCall : TRUE
                           IN [ ok |-> FALSE, why |-> "call", n |-> S.n, d |-> w[1], s |-> S.calls[w[1]][w[2]].s,
                                got |-> S.calls[w[1]][w[2]].seen, want |-> IdealOf(C.hist, S.n, S.parents, w[1], S.calls[w[1]][w[2]].s) ]
      ELSE [ ok |-> TRUE, why |-> "", n |-> S.n, d |-> 0, s |-> "", got |-> << >>, want |-> << >> ]

RECURSIVE First(_, _)
First(C, k) ==
  IF k > Len(C.snaps) THEN [ id |-> C.id, ok |-> TRUE, why |-> "", n |-> 0, d |-> 0, s |-> "", got |-> << >>, want |-> << >> ]
  ELSE LET r == SnapBad(C, C.snaps[k]) IN IF r.ok THEN First(C, k + 1) ELSE [ id |-> C.id ] @@ r

Results == [ c \in DOMAIN Cases |-> First(Cases[c], 1) ]
ASSUME ndJsonSerialize(IOEnv.OUT_FILE, Results)
=============================================================================

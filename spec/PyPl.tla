---------------------------- MODULE PyPl ----------------------------
(***************************************************************************)
(* C28.  Python values (ints, dyadic floats, strings, lists, tuples of      *)
(* length # 1) and their encoding as Prolog terms by problog.pypl.py2pl,   *)
(* with the decoding pl2py, transcribed.  TLC checks over a bounded value  *)
(* universe that Decode(Encode(v)) = v (PyPlMC) - which exposes where the  *)
(* ENCODING is not injective - and JudgePyPl validates recorded round      *)
(* trips of the real functions.                                            *)
(* value: [t |-> "int", v] | [t |-> "flt", v (quarters)] | [t |-> "str", c |-> codes]                     *)
(*      | [t |-> "list", a |-> Seq(value)] | [t |-> "tup", a |-> Seq(value)]                               *)
(***************************************************************************)
EXTENDS TermAlgebra

Str(cs) == [ t |-> "s", c |-> cs ]
RECURSIVE Encode(_)
RECURSIVE EncList(_, _)
RECURSIVE EncTup(_, _)
Encode(v) ==
  CASE v.t = "int" -> [ t |-> "i", v |-> v.v ]
    [] v.t = "flt" -> [ t |-> "f", v |-> v.v ]
    [] v.t = "str" -> Str(v.c)
    [] v.t = "list" -> EncList(v.a, 1)
    [] v.t = "tup" -> IF v.a = << >> THEN [ t |-> "a", c |-> <<40, 41>> ] ELSE EncTup(v.a, 1)
EncList(s, i) == IF i > Len(s) THEN [ t |-> "a", c |-> <<91, 93>> ]
                 ELSE [ t |-> "c", c |-> <<46>>, a |-> << Encode(s[i]), EncList(s, i + 1) >> ]
\* (a, b, c) -> ','(a, ','(b, c)) : the last element is the tail itself
EncTup(s, i) == IF i = Len(s) THEN Encode(s[i])
                ELSE [ t |-> "c", c |-> <<44>>, a |-> << Encode(s[i]), EncTup(s, i + 1) >> ]

RECURSIVE Decode(_)
RECURSIVE DecList(_)
RECURSIVE DecTup(_)
Decode(x) ==
  CASE x.t = "i" -> [ t |-> "int", v |-> x.v ]
    [] x.t = "f" -> [ t |-> "flt", v |-> x.v ]
    [] x.t = "s" -> [ t |-> "str", c |-> x.c ]
    [] x.t = "a" -> IF x.c = <<91, 93>> THEN [ t |-> "list", a |-> << >> ]
                    ELSE IF x.c = <<40, 41>> THEN [ t |-> "tup", a |-> << >> ]
                    ELSE [ t |-> "term", x |-> x ]
    [] x.t = "c" -> IF x.c = <<46>> /\ Len(x.a) = 2 THEN [ t |-> "list", a |-> DecList(x) ]
                    ELSE IF x.c = <<44>> /\ Len(x.a) = 2 THEN [ t |-> "tup", a |-> DecTup(x) ]
                    ELSE [ t |-> "term", x |-> x ]
    [] OTHER -> [ t |-> "term", x |-> x ]
DecList(x) == IF x.t = "c" /\ x.c = <<46>> /\ Len(x.a) = 2 THEN << Decode(x.a[1]) >> \o DecList(x.a[2])
              ELSE IF x.t = "a" /\ x.c = <<91, 93>> THEN << >> ELSE << Decode(x) >>
DecTup(x)  == IF x.t = "c" /\ x.c = <<44>> /\ Len(x.a) = 2 THEN << Decode(x.a[1]) >> \o DecTup(x.a[2])
              ELSE << Decode(x) >>

RoundTrips(v) == Decode(Encode(v)) = v
\* the documented domain: tuples of length other than one; the encoding of a tuple whose LAST element is a tuple
\* coincides with the flattened tuple, so such values are where the encoding is not injective
RECURSIVE LastIsTuple(_)
LastIsTuple(v) == (v.t = "tup" /\ v.a # << >> /\ v.a[Len(v.a)].t = "tup" /\ v.a[Len(v.a)].a # << >>)
                  \/ ((v.t = "tup" \/ v.t = "list") /\ \E i \in DOMAIN v.a : LastIsTuple(v.a[i]))
=============================================================================

---------------------------- MODULE DDNNFEvalMC ----------------------------
(* Instance family: smooth decision-DNNFs built by Shannon expansion of every boolean function over the atoms 1..NV
   (the shape dsharp -smoothNNF produces), weights from a small grid, evidence lists, query sequences. *)
EXTENDS DDNNFEval, Json

CONSTANTS NV, MaxEv, MaxQ, WeightKind

AtomN(i) == [ t |-> "atom", ch |-> << >>, id |-> "", det |-> 0 ]
CN(t, ch) == [ t |-> t, ch |-> ch, id |-> "", det |-> 0 ]
VarsFrom(i) == i..NV

RECURSIVE Sh(_, _, _)
\* f: set of subsets of VarsFrom(i) (satisfying assignments); returns [nodes, key]
Sh(f, i, nodes) ==
  IF i > NV THEN [ nodes |-> nodes, key |-> IF f = {} THEN FKey ELSE 0 ]
  ELSE LET lo == Sh({ s \in f : i \notin s }, i + 1, nodes)
           hi == Sh({ s \ {i} : s \in { x \in f : i \in x } }, i + 1, lo.nodes)
           AndK(ns, lit, sub) == IF sub = FKey THEN [ nodes |-> ns, key |-> FKey ]
                                 ELSE IF sub = 0 THEN [ nodes |-> ns, key |-> lit ]
                                 ELSE [ nodes |-> Append(ns, CN("conj", <<lit, sub>>)), key |-> Len(ns) + 1 ]
           a == AndK(hi.nodes, i, hi.key)
           b == AndK(a.nodes, -i, lo.key)
       IN  IF a.key = FKey THEN b
           ELSE IF b.key = FKey THEN a
           ELSE [ nodes |-> Append(b.nodes, CN("disj", <<a.key, b.key>>)), key |-> Len(b.nodes) + 1 ]

AtomsSeq == [ i \in 1..NV |-> AtomN(i) ]
Funs == (SUBSET (SUBSET (1..NV))) \ {{}}
CircuitOf(f) == Sh(f, 1, AtomsSeq)
\* the root must be a compound node stored last (get_root_weight reads node len(formula))
Circuits == { c.nodes : c \in { CircuitOf(f) : f \in Funs } \cap { x \in { CircuitOf(f) : f \in Funs } : x.key = Len(x.nodes) /\ x.key > NV } }

H == Q(1, 2)
WChoices(i) == CASE WeightKind = 1 -> IF i = 1 THEN { <<H, H>> } ELSE IF i = 2 THEN { <<Q(1, 4), Q(3, 4)>>, <<ROne, ROne>>, <<RZero, ROne>> }
                                      ELSE { <<ROne, ROne>>, <<RZero, ROne>>, <<H, H>> }
              [] WeightKind = 2 -> { <<H, H>>, <<Q(1, 4), Q(3, 4)>>, <<ROne, ROne>>, <<RZero, ROne>>, <<ROne, RZero>> }
Weights == { w \in [ 1..NV -> UNION { WChoices(i) : i \in 1..NV } ] : \A i \in 1..NV : w[i] \in WChoices(i) }

Lits == (1..NV) \cup { -i : i \in 1..NV }
EvLists == { << >> } \cup { <<l>> : l \in Lits } \cup (IF MaxEv >= 2 THEN { <<p[1], p[2]>> : p \in { x \in Lits \X Lits : AbsI(x[1]) # AbsI(x[2]) } } ELSE {})
QKeys == Lits \cup {0, FKey}
QSeqs == UNION { [ 1..n -> QKeys ] : n \in 1..MaxQ }

MCInit == /\ g \in Circuits /\ w0 \in Weights /\ ev \in EvLists /\ qs \in QSeqs /\ nsp \in BOOLEAN /\ InitRest
MCSpec == MCInit /\ [][Next]_vars

Fin == pc \in {"closed", "inconsistent"}
Proj == [ g |-> g, w0 |-> w0, ev |-> ev, qs |-> qs, nsp |-> IF nsp THEN 1 ELSE 0, pc |-> pc, results |-> results, pev |-> pev,
          defined |-> IF Normalised \/ REq(WMC(g, w0, << >>), ROne) THEN 1 ELSE 0 ]
Export == Fin => PrintT(<<"HIST", ToJson(Proj)>>)
=============================================================================

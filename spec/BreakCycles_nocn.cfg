SPECIFICATION MCSpec
CONSTANTS
  NComp = 3
  RefKind = 3
  MaxQ = 2
  WithEvidence = FALSE
  WithEvv = FALSE
  ReuseChecksCB = TRUE
  ReuseChecksCN = FALSE
  SubtractBroken = TRUE
  EvvSigned = TRUE
CHECK_DEADLOCK FALSE
INVARIANT MeaningPreserved
INVARIANT TargetAcyclic
INVARIANT MemoSound
INVARIANT MemoShape
\* ReuseChecksCN = FALSE: the second half of the reuse test ("the previous node does not contain ancestors") is switched off.
\* TLC finds NO counterexample (1.9 M states): reusing a complete translation of a node that contains an ancestor is still
\* meaning preserving (positive loops unfold).  Kept as a configuration that must pass: a change that drops this test is not a
\* violation of C09, and the check must not say so (it reports drift only).

---------------------------- MODULE JudgeBN ----------------------------
(***************************************************************************)
(* C31, translation validation.  A case holds an evidence-free program P   *)
(* (Semantics structure) and the Bayesian network the bn task built for    *)
(* it: variables [name, values] and CPTs [rv, parents, rows] with rows     *)
(* [pv |-> Seq(parent value), p |-> Seq(numerator over the factor's denominator d)] (OrCPTs     *)
(* expanded by the tool's own to_factor).  The joint distribution is the   *)
(* product of the CPTs; the marginal of every exported query variable is   *)
(* computed exactly (integers) and compared with ProbNum/Den of P.         *)
(***************************************************************************)
EXTENDS Semantics, Json, IOUtils
Cases == JsonDeserialize(IOEnv.CASES_FILE)

FactorOf(C, v) == C.factors[CHOOSE i \in DOMAIN C.factors : C.factors[i].rv = v]
ValuesOf(C, v) == C.vars[CHOOSE i \in DOMAIN C.vars : C.vars[i].name = v].values
RowFor(f, asg) == LET pv == [ i \in DOMAIN f.parents |-> asg[f.parents[i]] ]
                  IN  f.rows[CHOOSE r \in DOMAIN f.rows : f.rows[r].pv = pv]

\* walk the variables in an order in which parents come first; returns the total weight (numerator over den^n)
\* of the joint assignments in which variable q has value qv
RECURSIVE WalkBN(_, _, _, _, _, _)
WalkBN(C, remaining, asg, wt, q, qv) ==
  IF wt = 0 THEN 0
  ELSE IF remaining = {} THEN (IF asg[q] = qv THEN wt ELSE 0)
  ELSE LET ready == { v \in remaining : \A i \in DOMAIN FactorOf(C, v).parents : FactorOf(C, v).parents[i] \in DOMAIN asg }
       IN  IF ready = {} THEN -1        \* cyclic network: not a Bayesian network
           ELSE LET v == CHOOSE x \in ready : TRUE
                    f == FactorOf(C, v)
                    row == RowFor(f, asg)
                    vals == ValuesOf(C, v)
                    RECURSIVE Br(_)
                    Br(k) == IF k > Len(vals) THEN 0
                             ELSE WalkBN(C, remaining \ {v}, (v :> vals[k]) @@ asg, wt * row.p[k], q, qv) + Br(k + 1)
                IN  Br(1)

RECURSIVE Pow(_, _)
Pow(b, e) == IF e = 0 THEN 1 ELSE b * Pow(b, e - 1)

JudgeCase(C) ==
  LET P == C.prog
      ev == Eval(P)
      tot == Den(P)
      allv == { C.vars[i].name : i \in DOMAIN C.vars }
      nvar == Len(C.vars)
      \* every CPT row is a distribution
      rowsOk == \A i \in DOMAIN C.factors : \A r \in DOMAIN C.factors[i].rows :
                   LET RECURSIVE S(_)
                       S(s) == IF s = << >> THEN 0 ELSE Head(s) + S(Tail(s))
                   IN  S(C.factors[i].rows[r].p) = C.factors[i].d
      hasF(v) == \E i \in DOMAIN C.factors : C.factors[i].rv = v
      wellFormed == /\ \A v \in allv : hasF(v)
                    /\ \A i \in DOMAIN C.factors : \A k \in DOMAIN C.factors[i].parents : C.factors[i].parents[k] \in allv
      res == [ i \in DOMAIN C.queries |->
                 LET qn == C.queries[i]
                     a == [ f |-> qn.f, a |-> qn.a ]
                     bnNum == IF ~wellFormed THEN -3 ELSE IF qn.name \in allv THEN WalkBN(C, allv, << >>, 1, qn.name, qn.tv) ELSE -2
                     RECURSIVE DenAll(_)
                     DenAll(k) == IF k > Len(C.factors) THEN 1 ELSE C.factors[k].d * DenAll(k + 1)
                 IN  [ name |-> qn.name, bnNum |-> bnNum, bnDen |-> DenAll(1),
                       plNum |-> ev.num[a], plDen |-> tot,
                       \* cross-multiplication would overflow 32 bits: the harness compares the two exact fractions
                       present |-> qn.name \in allv ] ]
  IN  [ id |-> C.id, rowsOk |-> rowsOk, wellFormed |-> wellFormed, queries |-> res ]
Results == [ c \in DOMAIN Cases |-> JudgeCase(Cases[c]) ]
ASSUME ndJsonSerialize(IOEnv.OUT_FILE, Results)
=============================================================================

SPECIFICATION Spec
CONSTANTS
  Programs <- Family3
  QuerySeqs <- QS3
  Permute = TRUE
  CheckOnTableHit = FALSE
  RepairFalseResult = FALSE
CONSTRAINT Export
CHECK_DEADLOCK FALSE

SPECIFICATION Spec
CONSTANTS
  Programs <- Family3
  QuerySeqs <- QS3
  Permute = TRUE
  CheckOnTableHit = TRUE
  RepairFalseResult = TRUE
  LinkStopsAtNegation = FALSE
CONSTRAINT Export
CHECK_DEADLOCK FALSE

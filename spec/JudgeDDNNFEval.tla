---------------------------- MODULE JudgeDDNNFEval ----------------------------
(***************************************************************************)
(* C05, flow F-B: for circuits / weights / evidence / query sequences run  *)
(* on the real SimpleDDNNFEvaluator the judge returns                      *)
(*   - Layer A: whether P(evidence) = 0, P(evidence) and P(q | evidence)   *)
(*     for every query as exact fractions (weighted model counts)          *)
(*   - Layer B: what the model of the evaluator returns for the same calls *)
(* The harness compares the recorded floats with the fractions (verdict)   *)
(* and with the model's values (drift).                                    *)
(***************************************************************************)
EXTENDS DDNNFEvalOps, Json, IOUtils
Cases == JsonDeserialize(IOEnv.CASES_FILE)

RECURSIVE RunQs(_, _, _, _, _, _, _)
RunQs(g, st, qs, i, hasEv, nsp, acc) ==
  IF i > Len(qs) THEN acc
  ELSE LET r == Evaluate(g, st, qs[i], hasEv, nsp) IN RunQs(g, r.st, qs, i + 1, hasEv, nsp, Append(acc, r.val))

JudgeCase(C) ==
  LET nsp  == C.nsp = 1
      pe   == WMC(C.g, C.w0, C.ev)
      norm == C.ev # << >> \/ nsp
      def  == norm \/ REq(WMC(C.g, C.w0, << >>), ROne)
      pq(q) == IF q = 0 THEN pe ELSE IF q = FKey THEN RZero ELSE WMC(C.g, C.w0, C.ev \o <<q>>)
      init == Initialize(C.g, C.w0, C.ev)
  IN  [ id |-> C.id, zero |-> IF RIsZero(pe) THEN 1 ELSE 0, pe |-> pe, defined |-> IF def THEN 1 ELSE 0,
        expected |-> IF RIsZero(pe) THEN << >> ELSE [ i \in DOMAIN C.qs |-> IF norm THEN RDiv(pq(C.qs[i]), pe) ELSE pq(C.qs[i]) ],
        mbad |-> IF init.bad THEN 1 ELSE 0,
        model |-> IF init.bad THEN << >> ELSE RunQs(C.g, init.st, C.qs, 1, C.ev # << >>, nsp, << >>) ]
Results == [ c \in DOMAIN Cases |-> JudgeCase(Cases[c]) ]
ASSUME ndJsonSerialize(IOEnv.OUT_FILE, Results)
=============================================================================

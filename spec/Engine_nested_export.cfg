SPECIFICATION Spec
CONSTANTS
  Programs <- FamilyNested
  QuerySeqs <- QS2
  Permute = TRUE
  CheckOnTableHit = TRUE
  RepairFalseResult = TRUE
CONSTRAINT Export
CHECK_DEADLOCK FALSE

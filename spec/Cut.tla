---------------------------- MODULE Cut ----------------------------
(* Layer A for C33: the documented meaning of library(cut) over the SLD reference interpreter. *)
EXTENDS Inspect
\* C33: the soft-cut library.  C.q = cut(r(Args...), I); the indexed rules are the clauses of r/(n+1) whose first
\* argument is the index.  Expected: the answers of the applicable rule with the smallest index (standard order).
CutIndices(P, f) == { P[i].h.a[1] : i \in { j \in DOMAIN P : P[j].h.t = "c" /\ P[j].h.c = f /\ P[j].h.a[1].t = "i" } }
RECURSIVE CutFrom(_, _, _, _)
CutFrom(P, call, idxs, k) ==
  IF k > Len(idxs) THEN [ ovf |-> FALSE, ans |-> << >> ]
  ELSE LET rc == [ t |-> "c", c |-> call.c, a |-> <<idxs[k]>> \o call.a ]
           r == Answers(P, rc, 400)
       IN  IF r.ovf THEN r
           ELSE IF r.ans # << >>
                THEN [ ovf |-> FALSE,
                       ans |-> [ i \in DOMAIN r.ans |->
                                   [ t |-> "c", c |-> <<99,117,116>>,
                                     a |-> << [ t |-> "c", c |-> call.c, a |-> Tail(r.ans[i].a) ], idxs[k] >> ] ] ]
                ELSE CutFrom(P, call, idxs, k + 1)
CutAnswers(P, q) ==
  LET call == q.a[1]
      idxs == SortUnique(SetToSeq(CutIndices(P, call.c)))
  IN  CutFrom(P, call, idxs, 1)

=============================================================================

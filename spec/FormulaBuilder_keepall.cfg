SPECIFICATION Spec
CONSTANTS
  AtomSeq <- XY
  MaxCalls = 4
  MaxRefs = 2
  AutoCompact = TRUE
  KeepDuplicates = FALSE
  KeepAll = TRUE
  MaxArity = 0
INVARIANT TypeOK
INVARIANT KeysInRange
INVARIANT IndexesPointAtTheirContent
INVARIANT MeaningPreserved
CONSTRAINT ExportHist
CHECK_DEADLOCK FALSE

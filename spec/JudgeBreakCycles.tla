---------------------------- MODULE JudgeBreakCycles ----------------------------
(***************************************************************************)
(* C09, flow F-B: runs of the real break_cycles recorded by the harness    *)
(* (source node table, labelled nodes, target node table, registered keys) *)
(* are                                                                     *)
(*  - judged by Layer A: target acyclic; every registered key has, for     *)
(*    every assignment of the atoms, the well-founded value of its source  *)
(*    node (AOG.tla)                                      -> verdict       *)
(*  - compared with the model's own output (BreakCyclesOps!BC run on the   *)
(*    same input)                                         -> drift only    *)
(***************************************************************************)
EXTENDS BreakCyclesOps, Json, IOUtils

Cases == JsonDeserialize(IOEnv.CASES_FILE)

RECURSIVE Run(_, _, _, _, _, _)
Run(g, qs, i, s, t, res) ==
  IF i > Len(qs) THEN [ st |-> s, results |-> res ]
  ELSE LET q  == qs[i]
           t0 == IF q.phase = 2 /\ (i = 1 \/ qs[i - 1].phase = 1) THEN EmptyTr ELSE t
           r  == BC(g, s, t0, IF q.phase = 2 THEN AbsKey(q.key) ELSE q.key, {})
           k  == IF q.phase = 2 /\ q.key < 0 THEN NegKey(r.ret) ELSE r.ret
       IN  Run(g, qs, i + 1, r.st, r.tr, Append(res, k))

Strip(nodes) == [ i \in DOMAIN nodes |-> [ t |-> nodes[i].t, ch |-> nodes[i].ch, id |-> nodes[i].id ] ]

JudgeCase(C) ==
  LET ids == AtomIds(C.src) \cup AtomIds(C.nodes)
      meaning == \A asg \in SUBSET ids :
                    LET ws == WFM(GraphRules("s", C.src, asg))
                        wt == WFM(GraphRules("t", C.nodes, asg))
                    IN  \A i \in DOMAIN C.results :
                           KeyValue("s", ws, C.queries[i].key) = KeyValue("t", wt, C.results[i])
      m == Run(C.src, C.queries, 1, EmptySt, EmptyTr, << >>)
  IN  [ id |-> C.id, acyclic |-> Acyclic(C.nodes), meaning |-> meaning,
        same |-> (m.results = C.results /\ Strip(m.st.nodes) = Strip(C.nodes)) ]

Results == [ c \in DOMAIN Cases |-> JudgeCase(Cases[c]) ]
ASSUME ndJsonSerialize(IOEnv.OUT_FILE, Results)
=============================================================================

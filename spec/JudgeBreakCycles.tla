---------------------------- MODULE JudgeBreakCycles ----------------------------
(***************************************************************************)
(* C09, flow F-B: runs of the real break_cycles recorded by the harness    *)
(* (source node table, labelled nodes, target node table, registered keys) *)
(* are                                                                     *)
(*  - judged by Layer A: target acyclic; every registered key has, for     *)
(*    every assignment of the atoms, the well-founded value of its source  *)
(*    node (AOG.tla)                                      -> verdict       *)
(*  - compared with the model's own output (BreakCyclesOps!BC run on the   *)
(*    same input)                                         -> drift only    *)
(***************************************************************************)
EXTENDS BreakCyclesOps, Json, IOUtils

Cases == JsonDeserialize(IOEnv.CASES_FILE)

RECURSIVE Run(_, _, _, _, _, _, _)
Run(g, qs, i, s, t, res, evv) ==
  IF i > Len(qs) THEN [ st |-> s, results |-> res ]
  ELSE LET q  == qs[i]
           t0 == IF q.phase = 2 /\ (i = 1 \/ qs[i - 1].phase = 1) THEN EmptyTr ELSE t
           r  == BC(g, s, t0, IF q.phase = 2 THEN AbsKey(q.key) ELSE q.key, {}, evv, q.phase = 2)
           k  == IF q.phase = 2 /\ q.key < 0 THEN NegKey(r.ret) ELSE r.ret
       IN  Run(g, qs, i + 1, r.st, r.tr, Append(res, k), evv)

Strip(nodes) == [ i \in DOMAIN nodes |-> [ t |-> nodes[i].t, ch |-> nodes[i].ch, id |-> nodes[i].id ] ]

JudgeCase(C) ==
  LET ids == AtomIds(C.src) \cup AtomIds(C.nodes)
      \* C.evv[n] = -1: no propagated value; 0 / FKey: lookup_evidence[n]
      evv == [ n \in { k \in DOMAIN C.evv : C.evv[k] # -1 } |-> C.evv[n] ]
      evl == { C.queries[i].key : i \in { k \in DOMAIN C.queries : C.queries[k].phase = 2 } }
      cons(ws) == \A l \in evl : KeyValue("s", ws, l) = "T"
      \* precondition: the propagated values are entailed by the evidence (C06 / Propagate.tla); otherwise the case is not judged
      evvSound == \A asg \in SUBSET ids : LET ws == WFM(GraphRules("s", C.src, asg))
                                           IN  cons(ws) => \A n \in DOMAIN evv : KeyValue("s", ws, n) = (IF evv[n] = 0 THEN "T" ELSE "F")
      meaning == \A asg \in SUBSET ids :
                    LET ws == WFM(GraphRules("s", C.src, asg))
                        wt == WFM(GraphRules("t", C.nodes, asg))
                    IN  cons(ws) => \A i \in DOMAIN C.results :
                           KeyValue("s", ws, C.queries[i].key) = KeyValue("t", wt, C.results[i])
      m == Run(C.src, C.queries, 1, EmptySt, EmptyTr, << >>, evv)
  IN  [ id |-> C.id, acyclic |-> Acyclic(C.nodes), meaning |-> (~evvSound \/ meaning), evvSound |-> evvSound,
        same |-> (m.results = C.results /\ Strip(m.st.nodes) = Strip(C.nodes)) ]

Results == [ c \in DOMAIN Cases |-> JudgeCase(Cases[c]) ]
ASSUME ndJsonSerialize(IOEnv.OUT_FILE, Results)
=============================================================================

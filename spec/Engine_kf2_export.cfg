SPECIFICATION Spec
CONSTANTS
  Programs <- FamilyKF2
  QuerySeqs <- QSa
  Permute = TRUE
  CheckOnTableHit = TRUE
  RepairFalseResult = TRUE
  LinkStopsAtNegation = FALSE
CONSTRAINT Export
CHECK_DEADLOCK FALSE

---------------------------- MODULE JudgeBuilder ----------------------------
(***************************************************************************)
(* C11, flow F-A.  A case is a recorded history of builder calls on a real *)
(* LogicFormula: per call its operation, its arguments (references to the  *)
(* results of earlier calls, or TRUE/FALSE), the key the real builder      *)
(* returned and the real node table after the call.                        *)
(* The IDEAL builder keeps one node per call with exactly the intended     *)
(* children (no folding, no sharing).  MeaningPreserved: after every call, *)
(* every key returned so far has, for every assignment of the atoms, the   *)
(* same (well-founded) value in the real graph as its call has in the      *)
(* ideal graph.                                                            *)
(***************************************************************************)
EXTENDS AOG, Json, IOUtils

Cases == JsonDeserialize(IOEnv.CASES_FILE)

\* a reference: [k |-> "c", i |-> call index, s |-> 1|0 (0 = negated)]  |  [k |-> "T"] | [k |-> "F"]
RefPos(refs) == { <<"i", refs[j].i>> : j \in { x \in DOMAIN refs : refs[x].k = "c" /\ refs[x].s = 1 } }
RefNeg(refs) == { <<"i", refs[j].i>> : j \in { x \in DOMAIN refs : refs[x].k = "c" /\ refs[x].s = 0 } }
RefHasFalse(refs) == \E j \in DOMAIN refs : refs[j].k = "F"

\* ideal rules contributed by call i of history calls[1..n]
IdealRules(calls, n, asg) ==
  UNION { LET c == calls[i] IN
          CASE c.op = "atom" -> IF c.det = 1 THEN { [ h |-> <<"i", i>>, pos |-> {}, neg |-> {} ] }
                                ELSE IF c.det = 2 THEN {}
                                ELSE IF c.id \in asg THEN { [ h |-> <<"i", i>>, pos |-> {}, neg |-> {} ] } ELSE {}
            [] c.op = "and"  -> IF RefHasFalse(c.refs) THEN {}
                                ELSE { [ h |-> <<"i", i>>, pos |-> RefPos(c.refs), neg |-> RefNeg(c.refs) ] }
            [] c.op = "or"   -> { [ h |-> <<"i", i>>,
                                    pos |-> IF c.refs[j].k = "c" /\ c.refs[j].s = 1 THEN { <<"i", c.refs[j].i>> } ELSE {},
                                    neg |-> IF c.refs[j].k = "c" /\ c.refs[j].s = 0 THEN { <<"i", c.refs[j].i>> } ELSE {} ]
                                  : j \in { x \in DOMAIN c.refs : c.refs[x].k # "F" } }
            [] c.op = "not"  -> IF RefHasFalse(c.refs) THEN {}
                                ELSE { [ h |-> <<"i", i>>, pos |-> RefPos(c.refs), neg |-> RefNeg(c.refs) ] }
                                   \* refs holds the negated reference (sign already flipped by the harness)
            [] c.op = "disjunct" ->  \* add_disjunct(target, component): one more rule for the TARGET call
                                \* skipped = 1: the real key of the target is not an updatable node (FALSE, a negated
                                \* key or a non-disjunction), the call was not made (add_disjunct raises ValueError there)
                                IF c.refs[1].k = "F" \/ c.skipped = 1 THEN {}
                                ELSE { [ h |-> <<"i", c.target>>,
                                         pos |-> IF c.refs[1].k = "c" /\ c.refs[1].s = 1 THEN { <<"i", c.refs[1].i>> } ELSE {},
                                         neg |-> IF c.refs[1].k = "c" /\ c.refs[1].s = 0 THEN { <<"i", c.refs[1].i>> } ELSE {} ] }
            [] OTHER -> {}
          : i \in 1..n }

AllAtoms(calls) == { calls[i].id : i \in { j \in DOMAIN calls : calls[j].op = "atom" /\ calls[j].det = 0 } }

IdealValue(wf, i) == IF <<"i", i>> \in wf[1] THEN "T" ELSE IF <<"i", i>> \in wf[2] THEN "U" ELSE "F"

\* first disagreement after prefix n, or <<>> if none
PrefixBad(C, n) ==
  LET calls == C.calls
      g     == calls[n].nodes
      bad   == { <<i, asg>> \in ({ j \in 1..n : calls[j].ret # -FKey }) \X (SUBSET AllAtoms(calls)) :
                   LET wr == WFM(GraphRules("r", g, asg))
                       wi == WFM(IdealRules(calls, n, asg))
                   IN  KeyValue("r", wr, calls[i].ret) # IdealValue(wi, i) }
  IN  bad

RECURSIVE FirstBad(_, _)
FirstBad(C, n) ==
  IF n > Len(C.calls) THEN [ id |-> C.id, ok |-> TRUE, prefix |-> 0, call |-> 0, asg |-> <<>> ]
  ELSE LET b == PrefixBad(C, n)
       IN  IF b = {} THEN FirstBad(C, n + 1)
           ELSE LET w == CHOOSE x \in b : TRUE
                IN  [ id |-> C.id, ok |-> FALSE, prefix |-> n, call |-> w[1], asg |-> SetToSeq(w[2]) ]

Results == [ c \in DOMAIN Cases |-> FirstBad(Cases[c], 1) ]
ASSUME ndJsonSerialize(IOEnv.OUT_FILE, Results)
=============================================================================

---------------------------- MODULE SelectA ----------------------------
(* C32, Layer A: the documented distribution of select_weighted/5,4 and select_uniform/4:
   exactly one element is chosen, position i with probability w_i / sum(w); Value = L[i], Rest = L without position i.
   Expected(C) lists, per distinct (Value, Rest), the numerator over the denominator sum(w). *)
EXTENDS Naturals, Integers, Sequences, FiniteSets, SequencesExt, TLC, Json, IOUtils
RECURSIVE SumS(_)
SumS(s) == IF s = << >> THEN 0 ELSE Head(s) + SumS(Tail(s))
Without(l, i) == [ j \in 1..(Len(l) - 1) |-> IF j < i THEN l[j] ELSE l[j + 1] ]
Outcomes(w, l) == { <<l[i], Without(l, i)>> : i \in DOMAIN l }
Num(w, l, o) == SumS([ i \in DOMAIN l |-> IF l[i] = o[1] /\ Without(l, i) = o[2] THEN w[i] ELSE 0 ])
Cases == JsonDeserialize(IOEnv.CASES_FILE)
Expected(C) == [ id |-> C.id, den |-> SumS(C.w),
                 outs |-> SetToSeq({ [ v |-> o[1], rest |-> o[2], num |-> Num(C.w, C.l, o) ] : o \in Outcomes(C.w, C.l) }) ]
Results == [ c \in DOMAIN Cases |-> Expected(Cases[c]) ]
ASSUME ndJsonSerialize(IOEnv.OUT_FILE, Results)
=============================================================================

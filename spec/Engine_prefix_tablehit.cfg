SPECIFICATION Spec
CONSTANTS
  Programs <- FamilyNegLoop
  QuerySeqs <- QS2
  Permute = TRUE
  CheckOnTableHit = FALSE
  RepairFalseResult = TRUE
  LinkStopsAtNegation = FALSE
VIEW view
INVARIANT NoDanglingMessages
INVARIANT NoError
INVARIANT NegCycleOnlyWhenCyclic
INVARIANT AnsweredOnlyWhenDefined
INVARIANT StackEmpty
INVARIANT TableSound
INVARIANT ResultCorrect
CHECK_DEADLOCK FALSE

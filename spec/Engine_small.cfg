SPECIFICATION Spec
CONSTANTS
  Programs <- SmallPrograms
  QuerySeqs <- QS2
  Permute = TRUE
VIEW view
INVARIANT NoCycleInFamily
INVARIANT NoDanglingMessages
INVARIANT StackEmpty
INVARIANT TableSound
INVARIANT ResultCorrect
CHECK_DEADLOCK FALSE

---------------------------- MODULE JudgeEngine ----------------------------
(***************************************************************************)
(* Layer-A judgement of a RECORDED run of the real engine on a program of  *)
(* Engine.tla's fragment (propositional, possibly recursive): the key the  *)
(* engine gave each query must mean, in every world, the truth of the      *)
(* query atom in the well-founded model (an undefined atom matches no key).  Used when a replayed behaviour differs from *)
(* the model (drift): only this judgement can say VIOLATION.               *)
(* case: [id, prog, queries, results |-> Seq(key | -999 absent), nodes]    *)
(***************************************************************************)
EXTENDS AOG, Json, IOUtils
Cases == JsonDeserialize(IOEnv.CASES_FILE)

Facts(P) == { P[i].h : i \in { j \in DOMAIN P : P[j].f /\ P[j].h # "t" } }
RulesIn(P, asg) == { [ h |-> P[i].h, pos |-> { P[i].b[j].a : j \in { x \in DOMAIN P[i].b : P[i].b[x].s = 1 } },
                       neg |-> { P[i].b[j].a : j \in { x \in DOMAIN P[i].b : P[i].b[x].s = 0 } } ]
                     : i \in { j \in DOMAIN P : ~P[j].f \/ P[j].h \in asg \/ P[j].h = "t" } }
\* three-valued truth in the well-founded model of the world asg (the program may be recursive)
Truth3(P, asg, p) == LET wf == WFM(RulesIn(P, asg)) IN IF p \in wf[1] THEN "T" ELSE IF p \in wf[2] THEN "U" ELSE "F"

\* the harness renames atom identities to the fact names (node order = order of first use)
KeyTruth(nodes, asg, k) == IF k = -999 THEN "F" ELSE KeyValue("r", WFM(GraphRules("r", nodes, asg)), k)
JudgeCase(C) ==
  LET bad == { <<q, asg>> \in (DOMAIN C.results) \X (SUBSET Facts(C.prog)) :
                 KeyTruth(C.nodes, asg, C.results[q]) # Truth3(C.prog, asg, C.queries[q]) }
  IN  IF bad = {} THEN [ id |-> C.id, ok |-> TRUE, q |-> "", world |-> << >> ]
      ELSE LET w == CHOOSE x \in bad : TRUE IN [ id |-> C.id, ok |-> FALSE, q |-> C.queries[w[1]], world |-> SetToSeq(w[2]) ]
Results == [ c \in DOMAIN Cases |-> JudgeCase(Cases[c]) ]
ASSUME ndJsonSerialize(IOEnv.OUT_FILE, Results)
=============================================================================

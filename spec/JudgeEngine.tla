---------------------------- MODULE JudgeEngine ----------------------------
(***************************************************************************)
(* Layer-A judgement of a RECORDED run of the real engine on a program of  *)
(* Engine.tla's fragment (acyclic, propositional): the key the engine gave *)
(* each query must mean, in every world, the truth of the query atom in    *)
(* the program's least model.  Used when a replayed behaviour differs from *)
(* the model (drift): only this judgement can say VIOLATION.               *)
(* case: [id, prog, queries, results |-> Seq(key | -999 absent), nodes]    *)
(***************************************************************************)
EXTENDS AOG, Json, IOUtils
Cases == JsonDeserialize(IOEnv.CASES_FILE)

Facts(P) == { P[i].h : i \in { j \in DOMAIN P : P[j].f } }
RECURSIVE Truth(_, _, _)
Truth(P, asg, p) ==
  \E i \in DOMAIN P : P[i].h = p /\
     IF P[i].f THEN p \in asg
     ELSE \A j \in DOMAIN P[i].b : IF P[i].b[j].s = 1 THEN Truth(P, asg, P[i].b[j].a) ELSE ~Truth(P, asg, P[i].b[j].a)

\* the harness renames atom identities to the fact names (node order = order of first use)
KeyTruth(nodes, asg, k) == IF k = -999 THEN "F" ELSE KeyValue("r", WFM(GraphRules("r", nodes, asg)), k)
JudgeCase(C) ==
  LET bad == { <<q, asg>> \in (DOMAIN C.results) \X (SUBSET Facts(C.prog)) :
                 KeyTruth(C.nodes, asg, C.results[q]) # (IF Truth(C.prog, asg, C.queries[q]) THEN "T" ELSE "F") }
  IN  IF bad = {} THEN [ id |-> C.id, ok |-> TRUE, q |-> "", world |-> << >> ]
      ELSE LET w == CHOOSE x \in bad : TRUE IN [ id |-> C.id, ok |-> FALSE, q |-> C.queries[w[1]], world |-> SetToSeq(w[2]) ]
Results == [ c \in DOMAIN Cases |-> JudgeCase(Cases[c]) ]
ASSUME ndJsonSerialize(IOEnv.OUT_FILE, Results)
=============================================================================

CONSTANTS
  ReuseChecksCB = TRUE
  ReuseChecksCN = TRUE
  SubtractBroken = TRUE
  EvvSigned = TRUE

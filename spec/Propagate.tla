---------------------------- MODULE Propagate ----------------------------
(***************************************************************************)
(* Layer B model of LogicFormula.propagate (formula.py): propagation of    *)
(* evidence through a (possibly cyclic) signed AND/OR graph.  It is what   *)
(* the default pipeline runs after grounding (propagate_evidence = True):  *)
(* the nodes it marks TRUE / FALSE are replaced by constants when queries  *)
(* are translated (break_cycles: get_evidence_value).                      *)
(*                                                                         *)
(* State: queue (a Python set: any element may be popped next - one TLC    *)
(* successor per element), current (node -> TRUE/FALSE), atoms_in_rules    *)
(* (child -> parents waiting for it).  One step = one iteration of the     *)
(* while loop.                                                             *)
(*                                                                         *)
(* Checked: Sound - in every state, for every assignment of the atoms in   *)
(* which all evidence literals hold (well-founded valuation of the graph,  *)
(* AOG.tla), every recorded value and every queued literal is the value    *)
(* of that node; InconsistentRight - if the loop raises                    *)
(* InconsistentEvidenceError, no assignment satisfies the evidence.        *)
(***************************************************************************)
EXTENDS AOG, TLC

CONSTANT DisjTrueAll   \* FALSE in formula.py; TRUE: a true disjunction makes all its children true (must be caught: vacuity guard)

VARIABLES g,        \* graph
          ev,       \* evidence literals (signed node ids)
          queue,    \* set of signed node ids
          current,  \* function node id -> 0 (TRUE) | FKey (FALSE)
          air,      \* atoms_in_rules: node id -> set of parent ids
          status    \* "run" | "done" | "inconsistent"

vars == <<g, ev, queue, current, air, status>>

AbsK(k) == IF k < 0 THEN -k ELSE k
NegK(k) == IF k = 0 THEN FKey ELSE IF k = FKey THEN 0 ELSE -k
Put(f, k, v) == IF k \in DOMAIN f THEN [ f EXCEPT ![k] = v ] ELSE (k :> v) @@ f
Get(f, k, d) == IF k \in DOMAIN f THEN f[k] ELSE d
AirDiscard(a, c, p) == IF c \in DOMAIN a THEN [ a EXCEPT ![c] = @ \ {p} ] ELSE (c :> {}) @@ a     \* defaultdict: the key is created
AirAdd(a, c, p)     == IF c \in DOMAIN a THEN [ a EXCEPT ![c] = @ \cup {p} ] ELSE (c :> {p}) @@ a

RECURSIVE FoldAir(_, _, _, _)
FoldAir(a, cs, p, add) == IF cs = << >> THEN a
                          ELSE FoldAir(IF add THEN AirAdd(a, AbsK(Head(cs)), p) ELSE AirDiscard(a, AbsK(Head(cs)), p), Tail(cs), p, add)

InitRest == /\ queue = ev /\ current = << >> /\ air = << >> /\ status = "run"

Process(nid) ==
  LET a    == AbsK(nid)
      n    == g[a]
      \* first time: parents that already have a value are propagated again
      wake == IF a \in DOMAIN current THEN {}
              ELSE { IF current[p] = 0 THEN p ELSE -p : p \in { x \in Get(air, a, {}) : x \in DOMAIN current } }
      air0 == IF a \in DOMAIN current \/ a \in DOMAIN air THEN air ELSE (a :> {}) @@ air         \* atoms_in_rules[abs(nid)] creates the key
      cur1 == Put(current, a, IF nid > 0 THEN 0 ELSE FKey)
      q1   == (queue \ {nid}) \cup wake
  IN  IF n.t = "atom"
      THEN /\ queue' = q1 /\ current' = cur1 /\ air' = air0 /\ status' = status
      ELSE LET kids == [ i \in DOMAIN n.ch |->
                           LET c  == n.ch[i]
                               ch == Get(cur1, AbsK(c), AbsK(c))
                           IN  IF c < 0 THEN NegK(ch) ELSE ch ]
               hasF == \E i \in DOMAIN kids : kids[i] = FKey
               hasT == \E i \in DOMAIN kids : kids[i] = 0
               rest == SelectSeq(kids, LAMBDA x : x # 0 /\ x # FKey)
           IN  IF (n.t = "conj" /\ hasF /\ nid > 0) \/ (n.t = "disj" /\ hasT /\ nid < 0)
               THEN /\ status' = "inconsistent" /\ queue' = q1 /\ current' = cur1 /\ air' = air0
               ELSE IF (n.t = "conj" /\ hasF /\ nid < 0) \/ (n.t = "disj" /\ hasT /\ nid > 0)
               THEN /\ queue' = q1 /\ current' = cur1 /\ air' = air0 /\ status' = status
               ELSE IF Len(rest) = 1
               THEN /\ queue' = q1 \cup (IF AbsK(rest[1]) \in DOMAIN cur1 THEN {} ELSE { IF nid < 0 THEN -rest[1] ELSE rest[1] })
                    /\ air' = IF AbsK(rest[1]) \in DOMAIN cur1 THEN air0 ELSE AirDiscard(air0, AbsK(rest[1]), a)
                    /\ current' = cur1 /\ status' = status
               ELSE IF (nid > 0 /\ n.t = "conj") \/ (nid < 0 /\ n.t = "disj") \/ (DisjTrueAll /\ nid > 0 /\ n.t = "disj")
               THEN /\ queue' = q1 \cup { IF nid > 0 THEN rest[i] ELSE -rest[i] : i \in { j \in DOMAIN rest : AbsK(rest[j]) \notin DOMAIN cur1 } }
                    /\ air' = FoldAir(air0, rest, a, FALSE)
                    /\ current' = cur1 /\ status' = status
               ELSE /\ air' = FoldAir(air0, rest, a, TRUE)
                    /\ queue' = q1 /\ current' = cur1 /\ status' = status

Step == /\ status = "run" /\ queue # {}
        /\ \E nid \in queue : Process(nid)
        /\ UNCHANGED <<g, ev>>
Finish == /\ status = "run" /\ queue = {} /\ status' = "done" /\ UNCHANGED <<g, ev, queue, current, air>>
Next == Step \/ Finish

\* ---------------------------------------------------------------- properties
Ids == AtomIds(g)
Holds(wf, lit) == KeyValue("s", wf, lit) = "T"
Consistent(asg) == LET wf == WFM(GraphRules("s", g, asg)) IN \A e \in ev : Holds(wf, e)

Sound ==
  \A asg \in SUBSET Ids :
     LET wf == WFM(GraphRules("s", g, asg))
     IN  (\A e \in ev : Holds(wf, e)) =>
           /\ \A n \in DOMAIN current : KeyValue("s", wf, n) = (IF current[n] = 0 THEN "T" ELSE "F")
           /\ \A l \in queue : Holds(wf, l)
           /\ status # "inconsistent"

\* the queue never asks for the opposite of a recorded value (the loop would overwrite it silently)
NoFlip == \A l \in queue : AbsK(l) \in DOMAIN current => current[AbsK(l)] = (IF l > 0 THEN 0 ELSE FKey)
=============================================================================

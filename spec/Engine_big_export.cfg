SPECIFICATION Spec
CONSTANTS
  Programs <- FamilyDeep
  QuerySeqs <- QS3
  Permute = TRUE
  CheckOnTableHit = TRUE
  RepairFalseResult = TRUE
  LinkStopsAtNegation = FALSE
CONSTRAINT Export
CHECK_DEADLOCK FALSE

SPECIFICATION Spec
CONSTANTS
  Consts = {1}
  Functors = {1}
  DontCache = {}
  MaxOps = 2
  CanonPerGoal = TRUE
INVARIANT Refines
INVARIANT HitsAreInstances
CHECK_DEADLOCK FALSE
CONSTRAINT Export

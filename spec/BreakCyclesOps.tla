---------------------------- MODULE BreakCyclesOps ----------------------------
(***************************************************************************)
(* problog/cycles.py: _break_cycles as a pure recursive operator over a    *)
(* source graph (AOG.tla), a target builder state (FormulaBuilderOps.tla)  *)
(* and the translation table.  Used by BreakCycles.tla (state machine,     *)
(* model checking) and JudgeBreakCycles.tla (validation of recorded runs   *)
(* of the real break_cycles).  See BreakCycles.tla for the description.    *)
(***************************************************************************)
EXTENDS FormulaBuilderOps, TLC

CONSTANTS ReuseChecksCB,      \* TRUE in cycles.py:  cb <= ancset
          ReuseChecksCN,      \* TRUE in cycles.py:  not ancset & cn
          SubtractBroken,     \* TRUE in cycles.py:  child_content - child_cycles_broken is stored
          EvvSigned           \* TRUE in cycles.py:  the propagated value of a negatively referenced node is negated

Opt == [ ac |-> TRUE, kd |-> FALSE, ka |-> FALSE, ma |-> 0 ]
EmptySt == St(<< >>, << >>, << >>, << >>)
EmptyTr == << >>        \* a function with empty domain

Res(s, t, r, cb, cn) == [ st |-> s, tr |-> t, ret |-> r, cb |-> cb, cn |-> cn ]
Signed(neg, k) == IF neg THEN NegKey(k) ELSE k

\* first reusable memo entry of a node under the ancestor set ancset (0 = none)
Reusable(e, ancset) == /\ (ReuseChecksCB => e.cb \subseteq ancset)
                       /\ (ReuseChecksCN => ancset \cap e.cn = {})
FirstHit(es, ancset) == LET ok == { i \in DOMAIN es : Reusable(es[i], ancset) }
                        IN  IF ok = {} THEN 0 ELSE CHOOSE i \in ok : \A j \in ok : i <= j

TrAppend(t, n, e) == IF n \in DOMAIN t THEN [ t EXCEPT ![n] = Append(@, e) ] ELSE (n :> <<e>>) @@ t

RECURSIVE BC(_, _, _, _, _, _, _), BCKids(_, _, _, _, _, _, _, _)

\* _break_cycles(source, target, nodeid = key, ancestors = anc, ..., is_evidence = isEv): the sets cb / cn of the result are what
\* the call adds to the caller's cycles_broken / content.  evv = source.lookup_evidence (node -> TRUE / FALSE, the result of evidence
\* propagation; empty when propagate_evidence is off): outside the evidence pass a node with a propagated value is replaced by it.
BC(g, s, t, key, anc, evv, isEv) ==
  LET neg == key < 0
      n   == AbsKey(key)
  IN  IF key = 0 \/ key = FKey THEN Res(s, t, key, {}, {})               \* not probabilistic: returned as is
      ELSE IF ~isEv /\ n \in DOMAIN evv THEN Res(s, t, IF EvvSigned THEN Signed(neg, evv[n]) ELSE evv[n], {}, {})      \* get_evidence_value(nodeid) is not probabilistic
      ELSE IF n \in anc THEN Res(s, t, FKey, {n}, {})                      \* cyclic node: node is False
      ELSE LET ancset == anc \cup {n}
               hit == IF n \in DOMAIN t THEN FirstHit(t[n], ancset) ELSE 0
           IN  IF hit # 0
               THEN LET e == t[n][hit] IN Res(s, t, Signed(neg, e.node), e.cb, e.cn)
               ELSE LET node == g[n] IN
                    IF node.t = "atom"
                    THEN LET o == AddAtom(Opt, s, node.id, 0)
                         IN  Res(o.st, TrAppend(t, n, [ node |-> o.ret, cb |-> {}, cn |-> {} ]), Signed(neg, o.ret), {}, {})
                    ELSE LET k == BCKids(g, s, t, node.ch, ancset, [ rets |-> << >>, cb |-> {}, cn |-> {} ], evv, isEv)
                             o == AddCompound(Opt, k.st, node.t, k.acc.rets, TRUE)
                             prob == o.ret # 0 /\ o.ret # FKey
                             e == [ node |-> o.ret, cb |-> k.acc.cb,
                                    cn |-> IF SubtractBroken THEN k.acc.cn \ k.acc.cb ELSE k.acc.cn ]
                         IN  Res(o.st, TrAppend(k.tr, n, e), Signed(neg, o.ret), k.acc.cb,
                                 k.acc.cn \cup (IF prob THEN {n} ELSE {}))

\* the list comprehension over node.children: left to right, one shared child_cycles_broken / child_content
BCKids(g, s, t, ch, ancset, acc, evv, isEv) ==
  IF ch = << >> THEN [ st |-> s, tr |-> t, acc |-> acc ]
  ELSE LET r == BC(g, s, t, Head(ch), ancset, evv, isEv)
       IN  BCKids(g, r.st, r.tr, Tail(ch), ancset,
                  [ rets |-> Append(acc.rets, r.ret), cb |-> acc.cb \cup r.cb, cn |-> acc.cn \cup r.cn ], evv, isEv)

\* ---------------------------------------------------------------- graph families
Reach1(g, k) == { AbsKey(g[k].ch[i]) : i \in DOMAIN g[k].ch } \ {0, FKey}
RECURSIVE ReachFrom(_, _, _)
ReachFrom(g, S, seen) == IF S \subseteq seen THEN seen
                         ELSE ReachFrom(g, UNION { Reach1(g, k) : k \in S \ seen }, seen \cup S)
Reaches(g, a, b) == b \in ReachFrom(g, Reach1(g, a), {})
\* no cycle through negation: a negative edge k -> -c never lies on a cycle
NoNegCycle(g) == \A k \in DOMAIN g : \A i \in DOMAIN g[k].ch :
                    LET c == g[k].ch[i] IN (c < 0) => ~(-c = k \/ Reaches(g, -c, k))
Cyclic(g) == \E k \in DOMAIN g : Reaches(g, k, k)

AtomNode(a) == [ t |-> "atom", ch |-> << >>, id |-> a, det |-> 0 ]
=============================================================================

SPECIFICATION MCSpec
CONSTANTS
  NV = 2
  MaxEv = 1
  MaxQ = 2
  WeightKind = 1
  ClearCacheOnSetWeight = FALSE
  EvidenceCheckOld = TRUE
CHECK_DEADLOCK FALSE
INVARIANT InitCorrect
INVARIANT ResultsCorrect
INVARIANT EvidenceCorrect
INVARIANT WeightsRestored
INVARIANT CacheSound

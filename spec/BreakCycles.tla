---------------------------- MODULE BreakCycles ----------------------------
(***************************************************************************)
(* Layer B model of problog/cycles.py: break_cycles / _break_cycles.       *)
(*                                                                         *)
(* The source is a cyclic signed AND/OR graph (AOG.tla), the target a      *)
(* builder state of FormulaBuilderOps.tla (a LogicDAG with the default     *)
(* options).  _break_cycles is transcribed as the recursive operator BC:   *)
(*   - a node met again on the current path (ancestors) is FALSE and is    *)
(*     recorded in cycles_broken;                                          *)
(*   - every translated node is memoised in translation[nodeid] together   *)
(*     with the cycles broken below it (cb) and the nodes it contains (cn);*)
(*     an entry may be reused iff  cb <= ancestors+{node}  and             *)
(*     (ancestors+{node}) /\ cn = {}   (cycles.py, "We can reuse ...");    *)
(*   - otherwise the children are translated left to right, sharing        *)
(*     child_cycles_broken / child_content, and the node is rebuilt with   *)
(*     add_and / add_or on the target (compaction, hash-consing).          *)
(* One step of the state machine is one iteration of the loop over the     *)
(* labelled nodes in break_cycles (queries first, sharing one translation  *)
(* table; then evidence with a fresh table, is_evidence = True).           *)
(*                                                                         *)
(* Checked by TLC (BreakCyclesMC): for every source graph of the family    *)
(* without a cycle through negation, every query sequence, every           *)
(* assignment of the atoms: the key returned for a query has the           *)
(* well-founded value of the query node in the source (MeaningPreserved),  *)
(* the target is acyclic, and the memo table is sound (MemoSound).  With   *)
(* propagated evidence values (evv, any SOUND set of them) the equality is *)
(* required for the assignments that satisfy the evidence.                 *)
(* ReuseChecksCB / ReuseChecksCN switch off one half of the reuse          *)
(* condition: both variants must yield a counterexample (vacuity guard).   *)
(***************************************************************************)
EXTENDS BreakCyclesOps

VARIABLES src,        \* source graph (sequence of AOG nodes)
          queries,    \* sequence of [key, phase]  phase 1 = labelled names, phase 2 = evidence
          qi,         \* next query
          st,         \* target builder state
          tr,         \* translation: node id -> sequence of [node, cb, cn]
          results,    \* keys registered in the target, one per processed query
          evv         \* source.lookup_evidence: node -> 0 (TRUE) | FKey (FALSE), values fixed by evidence propagation

vars == <<src, queries, qi, st, tr, results, evv>>

\* ---------------------------------------------------------------- state machine
InitRest == qi = 1 /\ st = EmptySt /\ tr = EmptyTr /\ results = << >>      \* src, queries: chosen by the instance

Step ==
  /\ qi <= Len(queries)
  /\ LET q == queries[qi]
         \* evidence: a fresh translation table for the first evidence node (translation = defaultdict(list))
         t0 == IF q.phase = 2 /\ (qi = 1 \/ queries[qi - 1].phase = 1) THEN EmptyTr ELSE tr
         r  == BC(src, st, t0, IF q.phase = 2 THEN AbsKey(q.key) ELSE q.key, {}, evv, q.phase = 2)
         \* evidence on a negative literal: target.negate(newnode)
         k  == IF q.phase = 2 /\ q.key < 0 THEN NegKey(r.ret) ELSE r.ret
     IN  /\ st' = r.st /\ tr' = r.tr
         /\ results' = Append(results, k)
  /\ qi' = qi + 1
  /\ UNCHANGED <<src, queries, evv>>

Next == Step

\* ---------------------------------------------------------------- properties
Ids == AtomIds(src)
EvLits == { queries[i].key : i \in { j \in DOMAIN queries : queries[j].phase = 2 } }
\* assignments of the atoms in which all evidence literals hold (all of them when there is no evidence)
Consistent(ws) == \A l \in EvLits : KeyValue("s", ws, l) = "T"
\* the propagated values are entailed by the evidence (what Propagate.tla establishes for LogicFormula.propagate)
EvvSound == \A asg \in SUBSET Ids : LET ws == WFM(GraphRules("s", src, asg))
                                     IN  Consistent(ws) => \A n \in DOMAIN evv : KeyValue("s", ws, n) = (IF evv[n] = 0 THEN "T" ELSE "F")
WS(asg) == WFM(GraphRules("s", src, asg))
WT(asg) == WFM(GraphRules("t", st.nodes, asg))

\* the property of C09 on the model: same value for every assignment of the atoms
MeaningPreserved ==
  \A asg \in SUBSET Ids :
     LET ws == WS(asg)
         wt == WT(asg)
     IN  Consistent(ws) => \A i \in DOMAIN results : KeyValue("s", ws, queries[i].key) = KeyValue("t", wt, results[i])

TargetAcyclic == Acyclic(st.nodes)

\* a memo entry without broken cycles is the node itself: it must keep the source meaning for good
MemoSound ==
  \A asg \in SUBSET Ids :
     LET ws == WS(asg)
         wt == WT(asg)
     IN  Consistent(ws) => \A n \in DOMAIN tr : \A i \in DOMAIN tr[n] :
            tr[n][i].cb = {} => KeyValue("s", ws, n) = KeyValue("t", wt, tr[n][i].node)

\* broken cycles of a memo entry are nodes of the source, never atoms
MemoShape ==
  \A n \in DOMAIN tr : \A i \in DOMAIN tr[n] :
     /\ tr[n][i].cb \subseteq { k \in DOMAIN src : src[k].t # "atom" }
     /\ tr[n][i].cn \subseteq { k \in DOMAIN src : src[k].t # "atom" }
     /\ (SubtractBroken => tr[n][i].cb \cap tr[n][i].cn = {})

=============================================================================

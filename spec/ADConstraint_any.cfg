SPECIFICATION Spec
CONSTANTS
  K = 3
  CompletionAll = FALSE
INVARIANT Sound
CHECK_DEADLOCK FALSE

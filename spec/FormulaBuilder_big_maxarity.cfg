SPECIFICATION Spec
CONSTANTS
  AtomSeq <- XY
  MaxCalls = 5
  MaxRefs = 2
  AutoCompact = TRUE
  KeepDuplicates = FALSE
  KeepAll = FALSE
  MaxArity = 2
INVARIANT TypeOK
INVARIANT KeysInRange
INVARIANT IndexesPointAtTheirContent
INVARIANT MeaningPreserved
CHECK_DEADLOCK FALSE

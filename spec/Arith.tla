---------------------------- MODULE Arith ----------------------------
(***************************************************************************)
(* Layer A: integer and dyadic-rational semantics of the evaluable         *)
(* functors docs/source/prolog.rst lists as supported (transcendental      *)
(* functions excluded: TLA+ has no reals).                                 *)
(* A number is [k |-> "i" | "f", q |-> value in quarters] (an integer n    *)
(* has q = 4n).  Results: [ok |-> TRUE, k, q]  or                          *)
(* [ok |-> FALSE, err |-> "zero" | "type" | "unrep"]                       *)
(* ("unrep": the exact value is not a multiple of 1/4 - case not judged).  *)
(* An expression is [op |-> name, a |-> Seq(expr)] or [op |-> "num", k, q].*)
(***************************************************************************)
EXTENDS Naturals, Integers, Sequences, TLC

Num(k, q)  == [ ok |-> TRUE, k |-> k, q |-> q ]
Err(e)     == [ ok |-> FALSE, err |-> e ]
IsI(x)     == x.k = "i"
AbsV(x)    == IF x < 0 THEN -x ELSE x
SignV(x)   == IF x < 0 THEN -1 ELSE IF x > 0 THEN 1 ELSE 0

\* floor and truncating division of integers (TLA's \div is floor division for positive divisors)
FloorDiv(a, b) == IF b > 0 THEN a \div b ELSE (-a) \div (-b)
TruncDiv(a, b) == SignV(a) * SignV(b) * (AbsV(a) \div AbsV(b))
FloorMod(a, b) == a - b * FloorDiv(a, b)                 \* sign of the divisor

\* rounding of a value given in quarters to an integer
FloorQ(q)   == FloorDiv(q, 4)
CeilQ(q)    == -FloorDiv(-q, 4)
TruncQ(q)   == TruncDiv(q, 4)
RoundQ(q)   == SignV(q) * FloorDiv(AbsV(q) + 2, 4)       \* half away from zero

RECURSIVE PowI(_, _)
PowI(b, e) == IF e = 0 THEN 1 ELSE b * PowI(b, e - 1)

RECURSIVE BitOp(_, _, _)
\* bitwise operation on non-negative integers; f = "and" | "or" | "xor"
BitOp(f, a, b) ==
  IF a = 0 /\ b = 0 THEN 0
  ELSE LET x == a % 2
           y == b % 2
           bit == CASE f = "and" -> IF x = 1 /\ y = 1 THEN 1 ELSE 0
                    [] f = "or"  -> IF x = 1 \/ y = 1 THEN 1 ELSE 0
                    [] f = "xor" -> IF x # y THEN 1 ELSE 0
       IN  bit + 2 * BitOp(f, a \div 2, b \div 2)

Kind2(x, y) == IF x.k = "v" \/ y.k = "v" THEN "v" ELSE IF IsI(x) /\ IsI(y) THEN "i" ELSE "f"
Div4(n)     == IF n % 4 = 0 THEN Num("f", n \div 4) ELSE Err("unrep")

Apply1(op, x) ==
  CASE op = "neg"   -> Num(x.k, -x.q)
    [] op = "pos"   -> x
    [] op = "abs"   -> Num(x.k, AbsV(x.q))
    [] op = "sign"  -> Num("v", 4 * SignV(x.q))      \* Prolog systems differ on the result type for floats
    [] op = "truncate" -> Num("i", 4 * TruncQ(x.q))
    [] op = "round"    -> Num("i", 4 * RoundQ(x.q))
    [] op = "integer"  -> Num("i", 4 * RoundQ(x.q))
    [] op = "ceiling"  -> Num("i", 4 * CeilQ(x.q))
    [] op = "floor"    -> Num("i", 4 * FloorQ(x.q))
    [] op = "float"    -> Num("f", x.q)
    [] op = "float_integer_part"    -> Num("f", 4 * TruncQ(x.q))
    [] op = "float_fractional_part" -> Num("f", x.q - 4 * TruncQ(x.q))
    [] op = "bitnot" -> IF IsI(x) THEN Num("i", -x.q - 4) ELSE Err("type")
    [] OTHER -> Err("type")

Apply2(op, x, y) ==
  LET k == Kind2(x, y) IN
  CASE op = "+" -> Num(k, x.q + y.q)
    [] op = "-" -> Num(k, x.q - y.q)
    [] op = "*" -> IF (x.q * y.q) % 4 = 0 THEN Num(k, (x.q * y.q) \div 4) ELSE Err("unrep")
    [] op = "/" -> IF y.q = 0 THEN Err("zero")
                   ELSE IF (4 * AbsV(x.q)) % AbsV(y.q) = 0
                   THEN Num("v", SignV(x.q) * SignV(y.q) * ((4 * AbsV(x.q)) \div AbsV(y.q)))   \* kind "v": value only
                   ELSE Err("unrep")
    [] op = "//" -> IF ~(IsI(x) /\ IsI(y)) THEN Err("type") ELSE IF y.q = 0 THEN Err("zero")
                    ELSE Num("i", 4 * TruncDiv(x.q \div 4, y.q \div 4))
    [] op = "div" -> IF ~(IsI(x) /\ IsI(y)) THEN Err("type") ELSE IF y.q = 0 THEN Err("zero")
                     ELSE Num("i", 4 * FloorDiv(x.q \div 4, y.q \div 4))
    [] op = "mod" -> IF ~(IsI(x) /\ IsI(y)) THEN Err("type") ELSE IF y.q = 0 THEN Err("zero")
                     ELSE Num("i", 4 * FloorMod(x.q \div 4, y.q \div 4))
    [] op = "rem" -> \* documented deviation: rem behaves like mod
                     IF ~(IsI(x) /\ IsI(y)) THEN Err("type") ELSE IF y.q = 0 THEN Err("zero")
                     ELSE Num("i", 4 * FloorMod(x.q \div 4, y.q \div 4))
    [] op = "min" -> Num("v", IF x.q <= y.q THEN x.q ELSE y.q)
    [] op = "max" -> Num("v", IF x.q >= y.q THEN x.q ELSE y.q)
    [] op = ">>"  -> IF ~(IsI(x) /\ IsI(y)) THEN Err("type") ELSE IF y.q < 0 THEN Err("unrep")
                     ELSE Num("i", 4 * FloorDiv(x.q \div 4, PowI(2, y.q \div 4)))
    [] op = "<<"  -> IF ~(IsI(x) /\ IsI(y)) THEN Err("type") ELSE IF y.q < 0 THEN Err("unrep")
                     ELSE Num("i", x.q * PowI(2, y.q \div 4))
    [] op = "/\\" -> IF ~(IsI(x) /\ IsI(y)) THEN Err("type") ELSE IF x.q < 0 \/ y.q < 0 THEN Err("unrep")
                     ELSE Num("i", 4 * BitOp("and", x.q \div 4, y.q \div 4))
    [] op = "\\/" -> IF ~(IsI(x) /\ IsI(y)) THEN Err("type") ELSE IF x.q < 0 \/ y.q < 0 THEN Err("unrep")
                     ELSE Num("i", 4 * BitOp("or", x.q \div 4, y.q \div 4))
    [] op = "xor" -> IF ~(IsI(x) /\ IsI(y)) THEN Err("type") ELSE IF x.q < 0 \/ y.q < 0 THEN Err("unrep")
                     ELSE Num("i", 4 * BitOp("xor", x.q \div 4, y.q \div 4))
    [] op = "**"  -> IF ~(IsI(x) /\ IsI(y)) \/ y.q < 0 THEN Err("unrep")
                     ELSE Num("v", 4 * PowI(x.q \div 4, y.q \div 4))
    [] op = "^"   -> IF ~(IsI(x) /\ IsI(y)) \/ y.q < 0 THEN Err("unrep")
                     ELSE Num("v", 4 * PowI(x.q \div 4, y.q \div 4))
    [] OTHER -> Err("type")

\* special floats (the documented evaluables inf/0 and nan/0): kind "inf" with q = 1 / -1 (sign), kind "nan".
\* Only what both reference systems agree on is defined: the constants, unary minus, and + - * with a finite non-zero
\* operand or an operand that keeps the result infinite; everything else on them is "unrep" (not judged).
IsSpecial(x) == x.k = "inf" \/ x.k = "nan"
Inf(s) == Num("inf", s)
Apply1S(op, x) == IF op = "neg" /\ x.k = "inf" THEN Inf(-x.q) ELSE IF op = "neg" THEN x ELSE Err("unrep")
Apply2S(op, x, y) ==
  IF x.k = "nan" \/ y.k = "nan" THEN (IF op \in {"+", "-", "*"} THEN Num("nan", 0) ELSE Err("unrep"))
  ELSE CASE op = "+" -> IF x.k = "inf" /\ y.k = "inf" THEN (IF x.q = y.q THEN x ELSE Err("unrep"))
                        ELSE IF x.k = "inf" THEN x ELSE y
         [] op = "-" -> IF x.k = "inf" /\ y.k = "inf" THEN (IF x.q # y.q THEN x ELSE Err("unrep"))
                        ELSE IF x.k = "inf" THEN x ELSE Inf(-y.q)
         [] op = "*" -> LET sx == IF x.k = "inf" THEN x.q ELSE SignV(x.q)
                            sy == IF y.k = "inf" THEN y.q ELSE SignV(y.q)
                        IN  IF sx = 0 \/ sy = 0 THEN Err("unrep") ELSE Inf(sx * sy)
         [] OTHER -> Err("unrep")

RECURSIVE Eval(_)
Eval(e) ==
  IF e.op = "num" THEN Num(e.k, e.q)
  ELSE IF Len(e.a) = 1
  THEN LET x == Eval(e.a[1]) IN IF ~x.ok THEN x ELSE IF IsSpecial(x) THEN Apply1S(e.op, x) ELSE Apply1(e.op, x)
  ELSE LET x == Eval(e.a[1])
           y == Eval(e.a[2])
       IN  IF ~x.ok THEN x ELSE IF ~y.ok THEN y
           ELSE IF IsSpecial(x) \/ IsSpecial(y) THEN Apply2S(e.op, x, y) ELSE Apply2(e.op, x, y)

\* arithmetic comparison of two evaluated expressions
\* IEEE: every comparison with nan is false except =\=; inf is above, -inf below every finite number
Big == 1000000000
Ext(x) == IF x.k = "inf" THEN x.q * Big ELSE x.q
CompareFinite(op, x, y) ==
  CASE op = "=:="  -> x.q = y.q
    [] op = "=\\=" -> x.q # y.q
    [] op = "<"    -> x.q < y.q
    [] op = ">"    -> x.q > y.q
    [] op = "=<"   -> x.q <= y.q
    [] op = ">="   -> x.q >= y.q
Compare(op, x, y) ==
  IF x.k = "nan" \/ y.k = "nan" THEN op = "=\\="
  ELSE CompareFinite(op, [ q |-> Ext(x) ], [ q |-> Ext(y) ])

\* relations with several solutions: the solution SEQUENCE in Prolog order
RECURSIVE Range(_, _)
Range(l, h) == IF l > h THEN << >> ELSE <<l>> \o Range(l + 1, h)
Between(l, h, x, xbound) == IF xbound THEN (IF l <= x /\ x <= h THEN <<x>> ELSE << >>) ELSE Range(l, h)
=============================================================================

---------------------------- MODULE JudgeBuilderTrace ----------------------------
(***************************************************************************)
(* Flow F-B for the builder: a history RECORDED from the real              *)
(* problog.formula.LogicFormula (per call: operation, arguments, returned  *)
(* key, node table after the call) is validated against the Layer-B model  *)
(* FormulaBuilderOps: the model executes the same calls from the same      *)
(* state and must produce the same key and the same node table at every    *)
(* step.  A mismatch is DRIFT between model and code (reported with the    *)
(* first differing step), not a property violation: the verdict on the     *)
(* recorded data is JudgeBuilder's (Layer A).                              *)
(* Case: [id, opt |-> [ac, kd, ka, ma], calls |-> Seq(call)] with calls in *)
(* the harness format (vlib/pl_tasks.py builder_history).                  *)
(***************************************************************************)
EXTENDS FormulaBuilderOps, Json, IOUtils

Cases == JsonDeserialize(IOEnv.CASES_FILE)

KeyOfRec(calls, r) == IF r.k = "T" THEN 0 ELSE IF r.k = "F" THEN FKey
                      ELSE IF r.s = 1 THEN calls[r.i].ret ELSE NegKey(calls[r.i].ret)

\* one model step on call c (references are resolved through the RECORDED keys of earlier calls, which the
\* previous steps have already found equal to the model's)
StepOn(opt, st, calls, c) ==
  CASE c.op = "atom" -> AddAtom(opt, st, c.id, c.det)
    [] c.op = "and"  -> AddCompound(opt, st, "conj", [ j \in DOMAIN c.refs |-> KeyOfRec(calls, c.refs[j]) ], TRUE)
    [] c.op = "or"   -> AddCompound(opt, st, "disj", [ j \in DOMAIN c.refs |-> KeyOfRec(calls, c.refs[j]) ], c.mutable = 0)
    [] c.op = "not"  -> LET r == c.refs[1]
                            pos == IF r.k = "c" THEN [ r EXCEPT !.s = 1 - r.s ] ELSE IF r.k = "T" THEN [ r EXCEPT !.k = "F" ] ELSE [ r EXCEPT !.k = "T" ]
                        IN  Out(st, NegKey(KeyOfRec(calls, pos)))
    [] c.op = "disjunct" -> IF c.skipped = 1 THEN Out(st, NoRet)
                            ELSE Out(AddDisjunct(opt, st, calls[c.target].ret, KeyOfRec(calls, c.refs[1])), NoRet)
    [] OTHER -> Out(st, NoRet)            \* add_name: no structural effect (avoid_name_clash is not modelled)

SameNodes(m, r) ==
  /\ Len(m) = Len(r)
  /\ \A k \in DOMAIN m : m[k].t = r[k].t /\ m[k].ch = r[k].ch /\ (m[k].t = "atom" => (m[k].id = r[k].id /\ m[k].det = r[k].det))

RECURSIVE Run(_, _, _, _)
Run(C, st, n, matched) ==
  IF n > Len(C.calls) THEN [ id |-> C.id, ok |-> TRUE, step |-> 0, what |-> "", matched |-> matched ]
  ELSE LET c == C.calls[n]
           r == StepOn(C.opt, st, C.calls, c)
       IN  IF r.ret # c.ret THEN [ id |-> C.id, ok |-> FALSE, step |-> n, what |-> "key", matched |-> matched ]
           ELSE IF ~SameNodes(r.st.nodes, c.nodes) THEN [ id |-> C.id, ok |-> FALSE, step |-> n, what |-> "nodes", matched |-> matched ]
           ELSE Run(C, r.st, n + 1, matched + 1)

Empty == [ nodes |-> << >>, ia |-> << >>, ic |-> << >>, id |-> << >> ]
Results == [ c \in DOMAIN Cases |-> Run(Cases[c], Empty, 1, 0) ]
ASSUME ndJsonSerialize(IOEnv.OUT_FILE, Results)
=============================================================================

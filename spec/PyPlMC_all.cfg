SPECIFICATION Spec
INVARIANT AllRoundTrip

---------------------------- MODULE JudgeSem ----------------------------
(***************************************************************************)
(* Flow F-A.  Reads a batch of programs (structured form) recorded by the  *)
(* harness and writes, per program, the Layer-A facts of Semantics.tla:    *)
(* exact numerators/denominator of every query instance, the C02 class,    *)
(* annotation validity, undefined predicates.  One JVM judges a batch.     *)
(***************************************************************************)
EXTENDS Semantics, Json, IOUtils

Cases == JsonDeserialize(IOEnv.CASES_FILE)

JudgeCase(P) ==
  IF ~ValidAnnotation(P)
  THEN [ id |-> P.id, valid |-> FALSE, undefPreds |-> SetToSeq(UndefinedCalled(P)),
         den |-> 0, total |-> 0, expected |-> <<>>, mustAnswer |-> FALSE, mustReject |-> FALSE,
         worlds |-> 0, undefW |-> 0 ]
  ELSE
  LET ev == Eval(P)
      QI == QueryInstances(P)
  IN  [ id |-> P.id,
        valid |-> TRUE,
        undefPreds |-> SetToSeq(UndefinedCalled(P)),
        den |-> ev.den,                 \* weight of the evidence
        total |-> Den(P),               \* common denominator of weights
        expected |-> SetToSeq({ [ f |-> q.f, a |-> q.a, num |-> ev.num[q] ] : q \in QI }),
        mustAnswer |-> MustAnswer(P),
        mustReject |-> MustReject(P, ev),
        worlds |-> ev.posW,
        undefW |-> ev.undefW ]

Results == [ i \in DOMAIN Cases |-> JudgeCase(Cases[i]) ]

ASSUME ndJsonSerialize(IOEnv.OUT_FILE, Results)
=============================================================================

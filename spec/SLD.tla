---------------------------- MODULE SLD ----------------------------
(***************************************************************************)
(* Layer A: Prolog's answer SEQUENCE (SLD resolution, depth first, clauses *)
(* in program order, goals left to right) for pure programs over           *)
(* TermAlgebra terms with conjunction, disjunction, negation as failure,   *)
(* =/2 and findall/3.  Used as the reference for C13 / C19 / C33.          *)
(*                                                                         *)
(* program : Seq([h |-> term, b |-> Seq(goal)])                            *)
(* goal    : [k |-> "call", t |-> term]                                    *)
(*         | [k |-> "not",  g |-> Seq(goal)]                               *)
(*         | [k |-> "or",   l |-> Seq(goal), r |-> Seq(goal)]              *)
(*         | [k |-> "unify", x |-> term, y |-> term]                       *)
(*         | [k |-> "findall", tmpl |-> term, g |-> Seq(goal), res |-> term]*)
(*         | [k |-> "all", ...]   (findall that fails on no solutions)      *)
(* Clause variables are numbered 1..99; each resolution step renames the   *)
(* clause apart by adding a fresh offset (multiples of 100).               *)
(* A result is [ovf |-> BOOLEAN, sols |-> Seq(substitution)]; ovf = TRUE   *)
(* when the step budget ran out (no verdict for such a case).              *)
(***************************************************************************)
EXTENDS TermAlgebra

RECURSIVE RenT(_, _)
RenT(x, off) == IF x.t = "v" THEN [ x EXCEPT !.n = @ + off ]
                ELSE IF x.t = "c" THEN [ x EXCEPT !.a = [ i \in DOMAIN x.a |-> RenT(x.a[i], off) ] ]
                ELSE x
RECURSIVE RenG(_, _)
RenGs(gs, off) == [ i \in DOMAIN gs |-> RenG(gs[i], off) ]
RenG(g, off) ==
  CASE g.k = "call"  -> [ g EXCEPT !.t = RenT(g.t, off) ]
    [] g.k = "not"   -> [ g EXCEPT !.g = RenGs(g.g, off) ]
    [] g.k = "or"    -> [ g EXCEPT !.l = RenGs(g.l, off), !.r = RenGs(g.r, off) ]
    [] g.k = "unify" -> [ g EXCEPT !.x = RenT(g.x, off), !.y = RenT(g.y, off) ]
    [] g.k = "findall" -> [ g EXCEPT !.tmpl = RenT(g.tmpl, off), !.g = RenGs(g.g, off), !.res = RenT(g.res, off) ]
    [] g.k = "all"     -> [ g EXCEPT !.tmpl = RenT(g.tmpl, off), !.g = RenGs(g.g, off), !.res = RenT(g.res, off) ]

Res(ovf, sols, n) == [ ovf |-> ovf, sols |-> sols, n |-> n ]   \* n = resolution steps used so far

NilT == [ t |-> "a", c |-> <<91, 93>> ]                           \* '[]'
ConsT(h, tl) == [ t |-> "c", c |-> <<46>>, a |-> <<h, tl>> ]      \* '.'(H,T)
RECURSIVE MkList(_)
MkList(s) == IF s = << >> THEN NilT ELSE ConsT(Head(s), MkList(Tail(s)))

\* Solve(P, goals, s, n, budget): all solutions of the goal list under substitution s, in Prolog order
RECURSIVE Solve(_, _, _, _, _)
RECURSIVE TryClauses(_, _, _, _, _, _, _)
Solve(P, goals, s, n, budget) ==
  IF n > budget THEN Res(TRUE, << >>, n)
  ELSE IF goals = << >> THEN Res(FALSE, <<s>>, n)
  ELSE LET g == Head(goals)
           rest == Tail(goals)
       IN  CASE g.k = "call" -> TryClauses(P, 1, g.t, rest, s, n, budget)
             [] g.k = "unify" ->
                  LET u == Unify(g.x, g.y, s)
                  IN  IF u.ok THEN Solve(P, rest, u.s, n + 1, budget) ELSE Res(FALSE, << >>, n + 1)
             [] g.k = "not" ->
                  LET r == Solve(P, g.g, s, n + 1, budget)
                  IN  IF r.ovf THEN r
                      ELSE IF r.sols = << >> THEN Solve(P, rest, s, r.n, budget) ELSE Res(FALSE, << >>, r.n)
             [] g.k = "or" ->
                  LET r1 == Solve(P, g.l \o rest, s, n + 1, budget)
                  IN  IF r1.ovf THEN r1
                      ELSE LET r2 == Solve(P, g.r \o rest, s, r1.n, budget)
                           IN  Res(r2.ovf, r1.sols \o r2.sols, r2.n)
             [] g.k = "findall" ->
                  LET r == Solve(P, g.g, s, n + 1, budget)
                  IN  IF r.ovf THEN r
                      ELSE LET lst == MkList([ i \in DOMAIN r.sols |-> Apply(g.tmpl, r.sols[i]) ])
                               u == Unify(g.res, lst, s)
                           IN  IF u.ok THEN Solve(P, rest, u.s, r.n, budget) ELSE Res(FALSE, << >>, r.n)
             [] g.k = "all" ->      \* all/3: like findall/3 but fails when there is no solution
                  LET r == Solve(P, g.g, s, n + 1, budget)
                  IN  IF r.ovf THEN r
                      ELSE IF r.sols = << >> THEN Res(FALSE, << >>, r.n)
                      ELSE LET lst == MkList([ i \in DOMAIN r.sols |-> Apply(g.tmpl, r.sols[i]) ])
                               u == Unify(g.res, lst, s)
                           IN  IF u.ok THEN Solve(P, rest, u.s, r.n, budget) ELSE Res(FALSE, << >>, r.n)

\* resolve goal term t against clauses i..Len(P)
TryClauses(P, i, t, rest, s, n, budget) ==
  IF i > Len(P) THEN Res(FALSE, << >>, n)
  ELSE IF n > budget THEN Res(TRUE, << >>, n)
  ELSE LET off == 100 * (n + 1)
           h == RenT(P[i].h, off)
           u == Unify(t, h, s)
       IN  IF ~u.ok THEN TryClauses(P, i + 1, t, rest, s, n, budget)
           ELSE LET r1 == Solve(P, RenGs(P[i].b, off) \o rest, u.s, n + 1, budget)
                IN  IF r1.ovf THEN r1
                    ELSE LET r2 == TryClauses(P, i + 1, t, rest, s, r1.n, budget)
                         IN  Res(r2.ovf, r1.sols \o r2.sols, r2.n)

\* the answer sequence of a query term (instances of q, duplicates kept)
Answers(P, q, budget) ==
  LET r == Solve(P, << [ k |-> "call", t |-> q ] >>, << >>, 0, budget)
  IN  [ ovf |-> r.ovf, ans |-> [ i \in DOMAIN r.sols |-> Apply(q, r.sols[i]) ] ]
=============================================================================

SPECIFICATION MCSpec
CONSTANTS
  NV = 3
  MaxEv = 1
  MaxQ = 1
  WeightKind = 1
  ClearCacheOnSetWeight = TRUE
  EvidenceCheckOld = TRUE
CHECK_DEADLOCK FALSE
INVARIANT InitCorrect
INVARIANT ResultsCorrect
INVARIANT EvidenceCorrect
INVARIANT WeightsRestored
INVARIANT CacheSound

SPECIFICATION MCSpec
CONSTANTS
  NComp = 2
  RefKind = 1
  MaxQ = 2
  WithEvidence = TRUE
  WithEvv = TRUE
  ReuseChecksCB = TRUE
  ReuseChecksCN = TRUE
  SubtractBroken = TRUE
  EvvSigned = FALSE
CHECK_DEADLOCK FALSE
INVARIANT MeaningPreserved
INVARIANT TargetAcyclic
INVARIANT MemoSound
INVARIANT MemoShape

---------------------------- MODULE DefineCache ----------------------------
(***************************************************************************)
(* Layer B model of engine_stack.py: DefineCache - the table of completed  *)
(* and of active goals that lives on the target formula (target._cache)    *)
(* and is what makes a later query reuse what an earlier one grounded      *)
(* (C08).                                                                  *)
(*                                                                         *)
(* A goal is <<functor, args>>; an argument is a constant (positive        *)
(* integer) or a variable (negative integer, any name).  The concrete      *)
(* state is the three dictionaries of the class (__ground, __non_ground,   *)
(* __active; NestedDict is a plain map here), keyed the way the code keys  *)
(* them: ground goals by themselves, other goals by the goal with its      *)
(* variables renamed in order of first occurrence (VarReindex, `Canon`).   *)
(*                                                                         *)
(* The abstract meaning of a lookup is defined on the history of calls     *)
(* and uses the variant relation (a bijective renaming of variables)       *)
(* instead of the renaming: the entry of the LATEST call that speaks about *)
(* the goal (or, for a ground goal, about an all-ground answer set that    *)
(* contains it).  One step = one mutating public call; `Refines` compares  *)
(* concrete and abstract lookups for EVERY goal in every state.            *)
(***************************************************************************)
EXTENDS Integers, FiniteSets, Sequences, TLC, Json

CONSTANTS Consts,        \* constants (positive integers)
          Functors,      \* predicate ids
          DontCache,     \* predicates registered as dont_cache (subset of Functors)
          MaxOps,        \* length of the explored call histories
          CanonPerGoal   \* TRUE in engine_stack.py: one VarReindex per goal (FALSE: one per argument, seeded defects c01-2/c07-1/c08-1)

VARIABLES ground, nonground, active, hist
vars == <<ground, nonground, active, hist>>

Vars == {0 - 1, 0 - 3}            \* variable names (negative integers; not the canonical ones on purpose)
ArgVals == Consts \cup Vars
Args    == ArgVals \X ArgVals
Goals   == Functors \X Args
IsGround(a) == \A i \in 1..Len(a) : a[i] > 0
FalseN == 0 - 1                      \* NODE_FALSE
Get(f, k, d) == IF k \in DOMAIN f THEN f[k] ELSE d
Put(f, k, v) == IF k \in DOMAIN f THEN [ f EXCEPT ![k] = v ] ELSE (k :> v) @@ f
Drop(f, k)   == [ x \in DOMAIN f \ {k} |-> f[x] ]

\* _reindex_vars: VarReindex numbers the variables -1, -2, ... in order of first occurrence
RECURSIVE Ri(_, _, _)
Ri(a, i, map) ==
  IF i > Len(a) THEN << >>
  ELSE LET v == a[i] IN
       IF v > 0 THEN <<v>> \o Ri(a, i + 1, map)
       ELSE IF v \in DOMAIN map THEN <<map[v]>> \o Ri(a, i + 1, map)
       ELSE LET n == 0 - (Cardinality(DOMAIN map) + 1) IN <<n>> \o Ri(a, i + 1, IF CanonPerGoal THEN (v :> n) @@ map ELSE map)
Canon(a) == Ri(a, 1, << >>)

\* the variant relation, defined without any renaming
Variant(a, b) == /\ Len(a) = Len(b)
                 /\ \A i \in 1..Len(a) : (a[i] > 0 \/ b[i] > 0) => a[i] = b[i]
                 /\ \A i, j \in 1..Len(a) : (a[i] = a[j]) <=> (b[i] = b[j])
CanonIsVariantClass == \A a, b \in Args : Variant(a, b) <=> (Canon(a) = Canon(b))

\* answers of a goal: its variables bound to constants or left free, consistently
Instances(a) == { b \in Args : /\ \A i \in 1..2 : a[i] > 0 => b[i] = a[i]
                               /\ \A i, j \in 1..2 : a[i] = a[j] => b[i] = b[j]
                               /\ \A i \in 1..2 : b[i] < 0 => b[i] = a[i] }
\* result sets offered to __setitem__: at most two answers, in any order; the node of an answer is op number * 10 + position
ResultKeys(g) == IF IsGround(g[2]) THEN { << >>, <<g[2]>> }
                 ELSE { << >> } \cup { <<b>> : b \in Instances(g[2]) }
                      \cup { <<b, c>> : <<b, c>> \in { p \in Instances(g[2]) \X Instances(g[2]) : p[1] # p[2] } }
Res(keys, n) == [ i \in 1..Len(keys) |-> <<keys[i], 10 * n + i>> ]
AllGround(res) == \A i \in 1..Len(res) : IsGround(res[i][1])
RECURSIVE PutAll(_, _, _, _)
PutAll(f, fn, res, i) == IF i > Len(res) THEN f ELSE PutAll(Put(f, <<fn, res[i][1]>>, res[i][2]), fn, res, i + 1)

Ev(k, g, res) == [ k |-> k, g |-> g, res |-> res ]
N == Len(hist) + 1

SetItem(g, keys) ==
  LET res == Res(keys, N) IN
  /\ hist' = Append(hist, Ev("set", g, res))
  /\ active' = active
  /\ IF g[1] \in DontCache THEN UNCHANGED <<ground, nonground>>
     ELSE IF IsGround(g[2])
     THEN /\ nonground' = nonground
          /\ ground' = IF res # << >> THEN Put(ground, <<g[1], res[1][1]>>, res[1][2]) ELSE Put(ground, g, FalseN)
     ELSE /\ nonground' = Put(nonground, <<g[1], Canon(g[2])>>, res)
          /\ ground' = IF AllGround(res) THEN PutAll(ground, g[1], res, 1) ELSE ground

Key(g) == <<g[1], Canon(g[2])>>
DelItem(g) ==
  /\ hist' = Append(hist, Ev("del", g, << >>)) /\ active' = active
  /\ IF IsGround(g[2]) THEN g \in DOMAIN ground /\ ground' = Drop(ground, g) /\ nonground' = nonground
     ELSE Key(g) \in DOMAIN nonground /\ nonground' = Drop(nonground, Key(g)) /\ ground' = ground
Reset == /\ hist' = Append(hist, Ev("reset", <<0, <<0, 0>>>>, << >>)) /\ ground' = << >> /\ nonground' = << >> /\ active' = active
Activate(g) == /\ hist' = Append(hist, Ev("act", g, << <<g[2], 100 + N>> >>)) /\ active' = Put(active, Key(g), 100 + N)
               /\ UNCHANGED <<ground, nonground>>
Deactivate(g) == /\ Key(g) \in DOMAIN active /\ active' = Drop(active, Key(g))
                 /\ hist' = Append(hist, Ev("deact", g, << >>)) /\ UNCHANGED <<ground, nonground>>

Next == /\ Len(hist) < MaxOps
        /\ \/ \E g \in Goals : \/ \E keys \in ResultKeys(g) : SetItem(g, keys)
                               \/ DelItem(g) \/ Activate(g) \/ Deactivate(g)
           \/ Reset
Init == ground = << >> /\ nonground = << >> /\ active = << >> /\ hist = << >>
Spec == Init /\ [][Next]_vars

\* ---- concrete lookups (__contains__ / __getitem__ / getEvalNode) ----
Miss == [ hit |-> 0, items |-> << >> ]
Hit(items) == [ hit |-> 1, items |-> items ]
Lookup(g) == IF IsGround(g[2]) THEN (IF g \in DOMAIN ground THEN Hit(<< <<g[2], ground[g]>> >>) ELSE Miss)
             ELSE IF Key(g) \in DOMAIN nonground THEN Hit(nonground[Key(g)]) ELSE Miss
EvalNode(g) == Get(active, Key(g), 0)

\* ---- abstract meaning: the latest call that speaks about the goal ----
Touches(e, g) == IF IsGround(e.g[2]) THEN (IF e.res = << >> THEN e.g[2] = g[2] ELSE e.res[1][1] = g[2])
                 ELSE AllGround(e.res) /\ \E i \in 1..Len(e.res) : e.res[i][1] = g[2]
NodeFor(e, g) == IF IsGround(e.g[2]) THEN (IF e.res = << >> THEN FalseN ELSE e.res[1][2])
                 ELSE e.res[CHOOSE i \in 1..Len(e.res) : e.res[i][1] = g[2]][2]
RECURSIVE AbsG(_, _)
AbsG(g, i) == IF i = 0 THEN Miss ELSE LET e == hist[i] IN
  IF e.k = "reset" THEN Miss
  ELSE IF e.k = "del" /\ e.g = g THEN Miss
  ELSE IF e.k = "set" /\ e.g[1] = g[1] /\ e.g[1] \notin DontCache /\ Touches(e, g) THEN Hit(<< <<g[2], NodeFor(e, g)>> >>)
  ELSE AbsG(g, i - 1)
RECURSIVE AbsN(_, _)
AbsN(g, i) == IF i = 0 THEN Miss ELSE LET e == hist[i] IN
  IF e.k = "reset" THEN Miss
  ELSE IF e.k \in {"del", "set"} /\ e.g[1] = g[1] /\ ~IsGround(e.g[2]) /\ Variant(e.g[2], g[2]) /\ (e.k = "del" \/ e.g[1] \notin DontCache)
       THEN (IF e.k = "del" THEN Miss ELSE Hit(e.res))
  ELSE AbsN(g, i - 1)
AbsLookup(g) == IF IsGround(g[2]) THEN AbsG(g, Len(hist)) ELSE AbsN(g, Len(hist))
RECURSIVE AbsA(_, _)
AbsA(g, i) == IF i = 0 THEN 0 ELSE LET e == hist[i] IN
  IF e.k \in {"act", "deact"} /\ e.g[1] = g[1] /\ Variant(e.g[2], g[2]) THEN (IF e.k = "act" THEN e.res[1][2] ELSE 0)
  ELSE AbsA(g, i - 1)

Refines == \A g \in Goals : Lookup(g) = AbsLookup(g) /\ EvalNode(g) = AbsA(g, Len(hist))
\* a hit never returns an answer that is not an instance of the goal asked (what C08 needs from the table)
HitsAreInstances == \A g \in Goals : \A i \in 1..Len(Lookup(g).items) :
                       LET b == Lookup(g).items[i][1] IN \A j \in 1..2 : g[2][j] > 0 => b[j] = g[2][j]

Export == PrintT(<<"HIST", ToJson([ hist |-> hist, tab |-> { [ g |-> g, hit |-> Lookup(g).hit, items |-> Lookup(g).items, a |-> EvalNode(g) ] : g \in { x \in Goals : Lookup(x).hit = 1 \/ EvalNode(x) # 0 } } ])>>)
=============================================================================

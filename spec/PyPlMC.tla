---------------------------- MODULE PyPlMC ----------------------------
(* Bounded check of the encoding: every value of the universe that has no tuple in the last position of a tuple
   round-trips (EncodingInjectiveOnDomain); the unrestricted statement has a counterexample (AllRoundTrip). *)
EXTENDS PyPl
Leaf == { [ t |-> "int", v |-> 1 ], [ t |-> "int", v |-> -2 ], [ t |-> "flt", v |-> 6 ], [ t |-> "str", c |-> <<97>> ],
          [ t |-> "str", c |-> <<105, 116, 39, 115>> ], [ t |-> "str", c |-> << >> ] }
Seqs(S, n) == UNION { [ 1..k -> S ] : k \in 0..n }
L1 == Leaf \cup { [ t |-> "list", a |-> s ] : s \in Seqs(Leaf, 2) }
           \cup { [ t |-> "tup", a |-> s ] : s \in { q \in Seqs(Leaf, 3) : Len(q) # 1 } }
Small == { [ t |-> "list", a |-> << >> ], [ t |-> "tup", a |-> << >> ], [ t |-> "tup", a |-> << [ t |-> "int", v |-> 1 ], [ t |-> "int", v |-> -2 ] >> ],
           [ t |-> "list", a |-> << [ t |-> "str", c |-> <<97>> ] >> ], [ t |-> "int", v |-> 1 ], [ t |-> "str", c |-> <<97>> ] }
L2 == L1 \cup { [ t |-> "list", a |-> s ] : s \in Seqs(Small, 2) }
         \cup { [ t |-> "tup", a |-> s ] : s \in { q \in Seqs(Small, 2) : Len(q) # 1 } }
VARIABLE x
Init == x = 0
Next == x' = x
Spec == Init /\ [][Next]_x
EncodingInjectiveOnDomain == \A v \in L2 : ~LastIsTuple(v) => RoundTrips(v)
AllRoundTrip == \A v \in L2 : RoundTrips(v)
=============================================================================

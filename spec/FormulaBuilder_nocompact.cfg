SPECIFICATION Spec
CONSTANTS
  AtomSeq <- XY
  MaxCalls = 4
  MaxRefs = 2
  AutoCompact = FALSE
  KeepDuplicates = FALSE
  KeepAll = FALSE
  MaxArity = 0
INVARIANT TypeOK
INVARIANT KeysInRange
INVARIANT IndexesPointAtTheirContent
INVARIANT MeaningPreserved
CONSTRAINT ExportHist
CHECK_DEADLOCK FALSE

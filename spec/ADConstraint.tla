---------------------------- MODULE ADConstraint ----------------------------
(***************************************************************************)
(* Layer B model of constraint.py: ConstraintAD.add, the part of an        *)
(* annotated disjunction's constraint that runs while atoms are added to   *)
(* a formula that already carries propagated evidence values               *)
(* (propagate_evidence) and, optionally, a semiring (propagate_weights).   *)
(*                                                                         *)
(* An AD has heads 1..K with weights W[i] (tenths) that sum to at most 10; *)
(* in every possible world exactly one of the heads or "none" (weight      *)
(* 10 - sum) is chosen.  Some heads were added before evidence was         *)
(* propagated (Pre) and have propagated values (evv0, assumed sound); the  *)
(* other heads are added afterwards one by one, in any order.              *)
(*                                                                         *)
(* One step = one call add(node, formula).  Checked: Sound - every value   *)
(* in the evidence table, and every FALSE returned for a new head, holds   *)
(* in every choice of positive weight that agrees with the initial         *)
(* evidence values.                                                        *)
(***************************************************************************)
EXTENDS Naturals, FiniteSets, Sequences, TLC, Json

CONSTANTS K,            \* number of heads
          CompletionAll \* TRUE in constraint.py: the remaining head is TRUE only if ALL other heads are FALSE

VARIABLES W,        \* weights in tenths, 1..K -> 0..10
          pre,      \* heads in the constraint before evidence propagation
          evv,      \* evidence table: head -> "T" | "F"
          evv0,     \* its initial content (given, sound)
          sr,       \* propagate_weights on?
          nodes,    \* self.nodes
          todo,     \* heads still to be added
          ret,      \* head -> "F" for heads whose add() returned FALSE
          order     \* the heads added so far, in order (history)
vars == <<W, pre, evv, evv0, sr, nodes, todo, ret, order>>

Heads == 1..K
RECURSIVE SumW(_, _)
SumW(w, S) == IF S = {} THEN 0 ELSE LET x == CHOOSE y \in S : TRUE IN w[x] + SumW(w, S \ {x})
Get(f, k, d) == IF k \in DOMAIN f THEN f[k] ELSE d
Put(f, k, v) == IF k \in DOMAIN f THEN [ f EXCEPT ![k] = v ] ELSE (k :> v) @@ f

\* choices of positive weight ("none" = 0) that agree with a table of values
Choices(w) == { c \in Heads \cup {0} : IF c = 0 THEN SumW(w, Heads) < 10 ELSE w[c] > 0 }
Agrees(c, tab) == \A h \in DOMAIN tab : (tab[h] = "T") = (c = h)
Worlds == { c \in Choices(W) : Agrees(c, evv0) }

Add(x) ==
  /\ x \in todo /\ todo' = todo \ {x} /\ order' = Append(order, x)
  /\ IF \E n \in nodes : Get(evv, n, "") = "T"
     THEN /\ ret' = Put(ret, x, "F") /\ UNCHANGED <<nodes, evv>>            \* another head is TRUE: this one is FALSE
     ELSE /\ ret' = ret
          /\ nodes' = nodes \cup {x}
          /\ IF sr /\ SumW(W, nodes \cup {x}) = 10
             THEN LET open == { n \in nodes \cup {x} : Get(evv, n, "") # "F" }
                  IN  IF CompletionAll
                      THEN evv' = IF Cardinality(open) = 1 THEN Put(evv, CHOOSE n \in open : TRUE, "T") ELSE evv
                      \* the mutated rule: "any other head is FALSE" instead of "all other heads are FALSE"
                      ELSE evv' = IF open # {} /\ \E n \in nodes \cup {x} : Get(evv, n, "") = "F"
                                  THEN Put(evv, CHOOSE n \in open : \A m \in open : n >= m, "T") ELSE evv
             ELSE evv' = evv
  /\ UNCHANGED <<W, pre, evv0, sr>>

Next == \E x \in todo : Add(x)

Sound == \A c \in Worlds :
            /\ \A h \in DOMAIN evv : (evv[h] = "T") = (c = h)
            /\ \A h \in DOMAIN ret : c # h

Init == /\ W \in { w \in [ Heads -> 0..10 ] : SumW(w, Heads) <= 10 /\ \A h \in Heads : w[h] >= 1 }
        /\ pre \in SUBSET Heads
        /\ evv0 \in UNION { [ S -> {"T", "F"} ] : S \in SUBSET pre }
        /\ Worlds # {}                                 \* the given evidence values are satisfiable
        /\ \A c1 \in Worlds : TRUE
        /\ evv = evv0 /\ nodes = pre /\ todo = Heads \ pre /\ ret = << >> /\ order = << >>
        /\ sr \in BOOLEAN
Spec == Init /\ [][Next]_vars

Tab(f) == [ h \in Heads |-> IF h \in DOMAIN f THEN f[h] ELSE "" ]
Proj == [ w |-> W, pre |-> [ h \in Heads |-> IF h \in pre THEN 1 ELSE 0 ], evv0 |-> Tab(evv0), sr |-> IF sr THEN 1 ELSE 0, order |-> order,
          evv |-> Tab(evv), ret |-> Tab(ret) ]
Export == (todo = {}) => PrintT(<<"HIST", ToJson(Proj)>>)
=============================================================================

SPECIFICATION Spec
INVARIANT EncodingInjectiveOnDomain

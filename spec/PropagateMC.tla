---------------------------- MODULE PropagateMC ----------------------------
EXTENDS Propagate, Json
CONSTANTS NComp, RefKind, MaxEv, OnlyCyclic

AtomNode(a) == [ t |-> "atom", ch |-> << >>, id |-> a, det |-> 0 ]
CNode(t, ch) == [ t |-> t, ch |-> ch, id |-> "", det |-> 0 ]
Atoms2 == << AtomNode("a"), AtomNode("b") >>
CompIds == 3..(2 + NComp)
Refs == CASE RefKind = 1 -> {1, 2, -2} \cup CompIds
          [] RefKind = 2 -> {1, 2, -1, -2} \cup CompIds \cup { -k : k \in CompIds }
          [] RefKind = 3 -> {1, -2} \cup CompIds
ChildSeqs == { <<x>> : x \in Refs } \cup { <<x, y>> : x \in Refs, y \in Refs }
CompNodes == { CNode(t, ch) : t \in {"conj", "disj"}, ch \in ChildSeqs }
Graphs == { Atoms2 \o c : c \in [ 1..NComp -> CompNodes ] }

Reach1(gr, k) == { AbsK(gr[k].ch[i]) : i \in DOMAIN gr[k].ch } \ {0, FKey}
RECURSIVE ReachFrom(_, _, _)
ReachFrom(gr, S, seen) == IF S \subseteq seen THEN seen ELSE ReachFrom(gr, UNION { Reach1(gr, k) : k \in S \ seen }, seen \cup S)
Reaches(gr, a, b) == b \in ReachFrom(gr, Reach1(gr, a), {})
NoNegCycle(gr) == \A k \in DOMAIN gr : \A i \in DOMAIN gr[k].ch :
                    LET c == gr[k].ch[i] IN (c < 0) => ~(-c = k \/ Reaches(gr, -c, k))
Cyclic(gr) == \E k \in DOMAIN gr : Reaches(gr, k, k)

Lits == { k : k \in 1..(2 + NComp) } \cup { -k : k \in 1..(2 + NComp) }
EvSets == { S \in SUBSET Lits : Cardinality(S) >= 1 /\ Cardinality(S) <= MaxEv /\ \A l \in S : -l \notin S }

\* propagation only ever looks below the evidence nodes: graphs with a compound node that no evidence node reaches are covered
\* by the instance without that node
Below(gr, S) == LET E == { AbsK(l) : l \in S } IN E \cup ReachFrom(gr, UNION { Reach1(gr, k) : k \in E }, {})
MCInit == /\ g \in { gr \in Graphs : NoNegCycle(gr) /\ (OnlyCyclic => Cyclic(gr)) }
          /\ ev \in { S \in EvSets : CompIds \subseteq Below(g, S) }
          /\ InitRest
MCSpec == MCInit /\ [][Next]_vars

Proj == [ g |-> g, ev |-> ev, current |-> [ n \in 1..Len(g) |-> IF n \in DOMAIN current THEN current[n] ELSE -1 ], status |-> status ]
Export == (status # "run") => PrintT(<<"HIST", ToJson(Proj)>>)
=============================================================================

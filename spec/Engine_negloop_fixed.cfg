SPECIFICATION Spec
CONSTANTS
  Programs <- FamilyNegLoop
  QuerySeqs <- QS2
  Permute = TRUE
  CheckOnTableHit = TRUE
  RepairFalseResult = FALSE
VIEW view
INVARIANT NoDanglingMessages
INVARIANT NoError
INVARIANT NegCycleOnlyWhenCyclic
INVARIANT AnsweredOnlyWhenDefined
INVARIANT TableSound
CHECK_DEADLOCK FALSE

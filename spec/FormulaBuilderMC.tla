---------------------------- MODULE FormulaBuilderMC ----------------------------
(* Model-checking wrapper for FormulaBuilder.tla: constant definitions the cfg files substitute, and the history export   *)
(* used for the spec -> code replay (every behaviour TLC simulates prints its final call history as one JSON line).     *)
EXTENDS FormulaBuilder, Json
XY  == <<"x", "y">>
XYZ == <<"x", "y", "z">>
\* constraint used with -simulate: prints the history when the bound is reached (always TRUE)
ExportHist == (Len(hist) = MaxCalls) => PrintT(<<"HIST", ToJson([ hist |-> hist, nodes |-> nodes ])>>)
=============================================================================

CONSTANT N = 2
CONSTANT K = 3
SPECIFICATION Spec
INVARIANT LocalOptimum
INVARIANT ScoreIsOfResult
INVARIANT Bounded
PROPERTY Terminates
CHECK_DEADLOCK FALSE

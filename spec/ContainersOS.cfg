CONSTANT Keys = {1, 2, 3, 4}
SPECIFICATION Spec
INVARIANT Refines
INVARIANT WellFormed
INVARIANT IsSet
INVARIANT PopAgrees
CHECK_DEADLOCK FALSE

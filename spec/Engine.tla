---------------------------- MODULE Engine ----------------------------
(***************************************************************************)
(* Layer B, stage 1.  ProbLog's message-driven grounding engine            *)
(* (problog/engine_stack.py, problog/eval_nodes.py) on ACYCLIC             *)
(* PROPOSITIONAL programs (probabilistic facts, rules with one or two      *)
(* body literals, negation), default (buffered) mode, several queries on   *)
(* one target formula sharing the table.  One action per iteration of      *)
(* StackBasedEngine.execute's main loop (engine_stack.py:361): pop one     *)
(* message, dispatch on its kind, push the messages it produces            *)
(* (`actions += reversed(next_actions)`).  Transcribed:                    *)
(*   eval_define (table hit / new goal; an ACTIVE goal = cycle is outside  *)
(*   this stage and sets err), eval_clause, eval_fact, eval_call,          *)
(*   eval_default for conj / neg; EvalDefine.new_result / complete /       *)
(*   flushBuffer (buffered branch), EvalAnd.new_result / complete,         *)
(*   EvalNot.new_result / complete, results_to_actions, add_record /       *)
(*   cleanup (pointer discipline).  The target formula is the builder of   *)
(*   FormulaBuilderOps.tla (add_atom, add_and, add_or, negate).            *)
(* Schedules: a batch of >= 2 sibling 'e' messages may be pushed in any    *)
(* order (the documented init_message_stack extension point; property C03).*)
(*                                                                         *)
(* Layer A, checked by TLC in every terminal state of every program of the *)
(* family and every schedule:                                              *)
(*   ResultCorrect  - the key reported for a query means, in every world,  *)
(*                    the truth of the query atom (C01 on the design)      *)
(*   TableSound     - every table entry means its goal (C08)               *)
(*   StackEmpty, NoDanglingMessages - engine state invariants              *)
(* Schedule independence (C03) follows: ResultCorrect holds for all orders.*)
(***************************************************************************)
EXTENDS FormulaBuilderOps, SequencesExt

CONSTANTS Programs,     \* set of programs; a program is a sequence of clauses [h |-> pred, b |-> Seq([s, a]), f |-> BOOLEAN]
                        \* (f = TRUE: a probabilistic fact h; its body is empty)
          QuerySeqs,    \* set of query sequences (each query is a predicate)
          Permute       \* TRUE: sibling batches in any order; FALSE: the engine's own order

VARIABLES prog, queries, qi,          \* the program, the query sequence, index of the current query (0 = not started)
          stack, ptr,                 \* execution records, next free pointer (self.pointer)
          msgs,                       \* the message stack (top = last element)
          cache, active,              \* target._cache: pred -> key | NoRes ; currently active goals
          fb,                         \* the target formula (builder state of FormulaBuilderOps)
          results,                    \* per finished query: the key it was given (NoRes = no answer = false)
          err,                        \* "" | "cycle" (outside stage 1)
          log, sched                  \* history: popped messages / permutations used (hidden from the state by VIEW)

vars == <<prog, queries, qi, stack, ptr, msgs, cache, active, fb, results, err, log, sched>>
view == <<prog, queries, qi, stack, ptr, msgs, cache, active, fb, results, err>>

NoRes == -FKey - 1            \* "goal evaluated, no result"
Top   == -1                   \* parent of a top-level call (Python None)
Nil   == [ cls |-> "nil" ]
Opt   == [ ac |-> TRUE, kd |-> FALSE, ka |-> FALSE, ma |-> 0 ]      \* LogicFormula() defaults

\* ---------------------------------------------------------------- the compiled database
ClausesOf(P, p) == SelectSeq([ i \in DOMAIN P |-> i ], LAMBDA i : P[i].h = p)
Lit(l)          == [ k |-> IF l.s = 1 THEN "call" ELSE "neg", p |-> l.a ]
\* body node of clause i: a literal node, or a conjunction of two
BodyOf(P, i)    == IF Len(P[i].b) = 1 THEN Lit(P[i].b[1]) ELSE [ k |-> "conj", l |-> Lit(P[i].b[1]), r |-> Lit(P[i].b[2]) ]

\* ---------------------------------------------------------------- messages
E(node, par, ident)           == [ t |-> "e", node |-> node, par |-> par, ident |-> ident, obj |-> 0, key |-> 0, last |-> FALSE ]
R(obj, key, ident, last)      == [ t |-> "r", obj |-> obj, key |-> key, ident |-> ident, last |-> last, node |-> Nil, par |-> 0 ]
C(obj, ident)                 == [ t |-> "c", obj |-> obj, ident |-> ident, key |-> 0, last |-> FALSE, node |-> Nil, par |-> 0 ]
NoIdent == -FKey - 2          \* identifier None

\* engine state as a record, threaded through the pure transcription
ES(s, p, c, a, f, e) == [ stack |-> s, ptr |-> p, cache |-> c, active |-> a, fb |-> f, err |-> e ]
Ret(es, acts, cleanup) == [ es |-> es, acts |-> acts, cleanup |-> cleanup ]

AddRecord(es, rec) == [ es EXCEPT !.stack = (es.ptr :> rec) @@ @, !.ptr = @ + 1 ]
RECURSIVE Lower(_, _)
Lower(s, p) == IF p > 0 /\ s[p - 1] = Nil THEN Lower(s, p - 1) ELSE p
Cleanup(es, obj) == LET s == [ es.stack EXCEPT ![obj] = Nil ] IN [ es EXCEPT !.stack = s, !.ptr = Lower(s, es.ptr) ]

\* results_to_actions for a table entry
TableActions(v, par, ident) == IF v = NoRes \/ v = FKey THEN << C(par, ident) >> ELSE << R(par, v, ident, TRUE) >>

\* eval(node) : records pushed, messages produced (engine_stack.py eval_* functions)
RECURSIVE EvalN(_, _, _, _, _)
EvalN(P, es, node, par, ident) ==
  CASE node.k = "define" ->
         IF node.p \in DOMAIN es.cache THEN Ret(es, TableActions(es.cache[node.p], par, ident), FALSE)
         ELSE IF node.p \in es.active THEN Ret([ es EXCEPT !.err = "cycle" ], << >>, FALSE)
         ELSE LET ch == ClausesOf(P, node.p)
              IN  IF ch = << >> THEN Ret(es, << C(par, ident) >>, FALSE)
                  ELSE LET rec == [ cls |-> "def", p |-> node.p, par |-> par, ident |-> ident, tc |-> Len(ch), res |-> << >>,
                                    second |-> Nil, nodes |-> {} ]
                           es1 == AddRecord(es, rec)
                       IN  Ret([ es1 EXCEPT !.active = @ \cup {node.p} ],
                               [ j \in DOMAIN ch |-> E([ k |-> "clause", i |-> ch[j] ], es.ptr, ident) ], FALSE)
    [] node.k = "clause" ->
         IF P[node.i].f
         THEN \* eval_fact: target.add_atom(node_id, probability, name)
              LET a == AddAtom(Opt, es.fb, P[node.i].h, 0)
              IN  Ret([ es EXCEPT !.fb = a.st ], << R(par, a.ret, ident, TRUE) >>, FALSE)
         ELSE EvalN(P, es, BodyOf(P, node.i), par, ident)                   \* eval_clause evaluates the body node directly
    [] node.k = "call" -> EvalN(P, es, [ k |-> "define", p |-> node.p ], par, ident)
    [] node.k = "conj" ->
         LET rec == [ cls |-> "and", p |-> "", par |-> par, ident |-> ident, tc |-> 1, res |-> << >>, second |-> node.r, nodes |-> {} ]
         IN  Ret(AddRecord(es, rec), << E(node.l, es.ptr, NoIdent) >>, FALSE)
    [] node.k = "neg" ->
         LET rec == [ cls |-> "not", p |-> "", par |-> par, ident |-> ident, tc |-> 0, res |-> << >>, second |-> Nil, nodes |-> {} ]
         IN  Ret(AddRecord(es, rec), << E([ k |-> "call", p |-> node.p ], es.ptr, ident) >>, FALSE)

\* EvalDefine.complete (buffered, not on a cycle)
DefComplete(es, obj) ==
  LET rec == es.stack[obj]
      tc  == rec.tc - 1
  IN  IF tc > 0 THEN Ret([ es EXCEPT !.stack[obj].tc = tc ], << >>, FALSE)
      ELSE IF rec.res = << >>
           THEN Ret([ es EXCEPT !.stack[obj].tc = 0, !.cache = (rec.p :> NoRes) @@ @, !.active = @ \ {rec.p} ],
                    << C(rec.par, rec.ident) >>, TRUE)
           ELSE \* flushBuffer: node = target.add_or(nodes, readonly=True)
                LET o == AddCompound(Opt, es.fb, "disj", rec.res, TRUE)
                IN  Ret([ es EXCEPT !.stack[obj].tc = 0, !.fb = o.st, !.cache = (rec.p :> o.ret) @@ @, !.active = @ \ {rec.p} ],
                        TableActions(o.ret, rec.par, rec.ident), TRUE)

AndComplete(es, obj) ==
  LET tc == es.stack[obj].tc - 1
  IN  [ es |-> [ es EXCEPT !.stack[obj].tc = tc ], all |-> tc = 0 ]

NotComplete(es, obj) ==
  LET rec == es.stack[obj] IN
  IF rec.nodes = {}
  THEN Ret(es, << R(rec.par, 0, rec.ident, FALSE), C(rec.par, rec.ident) >>, TRUE)
  ELSE \* target.add_not(target.add_or(self.nodes)) ; self.nodes is a Python set of ints: iteration in increasing order
       \* for the small non-negative keys that occur here (negative keys sort first)
       LET o == AddCompound(Opt, es.fb, "disj", SetToSortSeq(rec.nodes, <), TRUE)
           n == NegKey(o.ret)
       IN  Ret([ es EXCEPT !.fb = o.st ],
               IF n = FKey THEN << C(rec.par, rec.ident) >> ELSE << R(rec.par, n, rec.ident, FALSE), C(rec.par, rec.ident) >>, TRUE)

\* a result message delivered to the record at obj
OnResult(es, m) ==
  LET rec == es.stack[m.obj] IN
  CASE rec.cls = "def" ->
         LET es1 == [ es EXCEPT !.stack[m.obj].res = Append(@, m.key) ]
         IN  IF m.last THEN DefComplete(es1, m.obj) ELSE Ret(es1, << >>, FALSE)
    [] rec.cls = "and" ->
         IF m.ident = NoIdent
         THEN \* result of the first conjunct: start the second one, carrying the first one's node as identifier
              LET es1 == [ es EXCEPT !.stack[m.obj].tc = @ + 1 ]
                  es2 == IF m.last THEN AndComplete(es1, m.obj).es ELSE es1
              IN  Ret(es2, << E(rec.second, m.obj, m.key) >>, FALSE)
         ELSE \* result of the second conjunct: target.add_and((source, node))
              LET a  == AddCompound(Opt, es.fb, "conj", << m.ident, m.key >>, TRUE)
                  e1 == [ es EXCEPT !.fb = a.st ]
                  ac == IF m.last THEN AndComplete(e1, m.obj) ELSE [ es |-> e1, all |-> FALSE ]
              IN  Ret(ac.es, << R(rec.par, a.ret, rec.ident, ac.all) >>, ac.all)
    [] rec.cls = "not" ->
         LET es1 == IF m.key # FKey THEN [ es EXCEPT !.stack[m.obj].nodes = @ \cup {m.key} ] ELSE es
         IN  IF m.last THEN NotComplete(es1, m.obj) ELSE Ret(es1, << >>, FALSE)

OnComplete(es, m) ==
  LET rec == es.stack[m.obj] IN
  CASE rec.cls = "def" -> DefComplete(es, m.obj)
    [] rec.cls = "and" -> LET ac == AndComplete(es, m.obj)
                          IN  Ret(ac.es, IF ac.all THEN << C(rec.par, rec.ident) >> ELSE << >>, ac.all)
    [] rec.cls = "not" -> NotComplete(es, m.obj)

\* ---------------------------------------------------------------- the state machine
Cur == ES(stack, ptr, cache, active, fb, err)
Perms(n) == { f \in [ 1..n -> 1..n ] : \A i, j \in 1..n : i # j => f[i] # f[j] }
\* the orders in which a batch of produced messages may be pushed: any order for a batch of >= 2 sibling 'e' messages
Orders(acts) == IF Permute /\ Len(acts) > 1 /\ \A i \in DOMAIN acts : acts[i].t = "e"
                THEN { [ i \in DOMAIN acts |-> acts[f[i]] ] : f \in Perms(Len(acts)) }
                ELSE { acts }

Install(r, obj, popped) ==
  \E ord \in Orders(r.acts) :
     LET es == IF r.cleanup THEN Cleanup(r.es, obj) ELSE r.es
     IN  /\ stack' = es.stack /\ ptr' = es.ptr /\ cache' = es.cache /\ active' = es.active /\ fb' = es.fb /\ err' = es.err
         /\ msgs' = popped \o Reverse(ord)
         /\ sched' = IF Len(ord) > 1 /\ \A i \in DOMAIN ord : ord[i].t = "e"
                     THEN Append(sched, [ i \in DOMAIN ord |-> CHOOSE j \in DOMAIN r.acts : r.acts[j] = ord[i] ]) ELSE sched

Init ==
  /\ prog \in Programs /\ queries \in QuerySeqs /\ qi = 0
  /\ stack = << >> /\ ptr = 0 /\ msgs = << >> /\ cache = << >> /\ active = {}
  /\ fb = [ nodes |-> << >>, ia |-> << >>, ic |-> << >>, id |-> << >> ]
  /\ results = << >> /\ err = "" /\ log = << >> /\ sched = << >>

\* engine.ground(db, query, target): execute() evaluates the query's define node directly (no message is popped for it)
StartQuery ==
  /\ msgs = << >> /\ err = "" /\ qi < Len(queries) /\ Len(results) = qi
  /\ qi' = qi + 1
  /\ LET r == EvalN(prog, Cur, [ k |-> "define", p |-> queries[qi + 1] ], Top, NoIdent)
     IN  Install(r, 0, << >>)
  /\ log' = Append(log, [ t |-> "q", p |-> queries[qi + 1] ])
  /\ UNCHANGED <<prog, queries, results>>

Step ==
  /\ msgs # << >> /\ err = ""
  /\ LET m == msgs[Len(msgs)]
         rest == SubSeq(msgs, 1, Len(msgs) - 1)
     IN  /\ log' = Append(log, m)
         /\ IF m.t = "e"
            THEN /\ Install(EvalN(prog, Cur, m.node, m.par, m.ident), 0, rest) /\ UNCHANGED results
            ELSE IF m.obj = Top
            THEN \* top level: 'r' records the solution (and ends the query when is_last), 'c' ends it without one
                 /\ results' = IF Len(results) = qi THEN results   \* already recorded (r not last, then c)
                               ELSE Append(results, IF m.t = "r" THEN m.key ELSE NoRes)
                 /\ msgs' = rest
                 /\ UNCHANGED <<stack, ptr, cache, active, fb, err, sched>>
            ELSE /\ Install(IF m.t = "r" THEN OnResult(Cur, m) ELSE OnComplete(Cur, m), m.obj, rest) /\ UNCHANGED results
  /\ UNCHANGED <<prog, queries, qi>>

Next == StartQuery \/ Step
Spec == Init /\ [][Next]_vars

Done == msgs = << >> /\ qi = Len(queries) /\ Len(results) = qi /\ err = ""

\* ---------------------------------------------------------------- Layer A
Facts(P) == { P[i].h : i \in { j \in DOMAIN P : P[j].f } }
\* least-model truth of an atom of an acyclic program in the world `asg` (the set of facts that are true)
RECURSIVE Truth(_, _, _)
Truth(P, asg, p) ==
  \E i \in DOMAIN P : P[i].h = p /\
     IF P[i].f THEN p \in asg
     ELSE \A j \in DOMAIN P[i].b : IF P[i].b[j].s = 1 THEN Truth(P, asg, P[i].b[j].a) ELSE ~Truth(P, asg, P[i].b[j].a)

KeyTruth(asg, k) == IF k = NoRes THEN "F" ELSE KeyValue("r", WFM(GraphRules("r", fb.nodes, asg)), k)
ResultCorrect ==
  Done => \A q \in DOMAIN results : \A asg \in SUBSET Facts(prog) :
            KeyTruth(asg, results[q]) = (IF Truth(prog, asg, queries[q]) THEN "T" ELSE "F")
TableSound ==
  \A p \in DOMAIN cache : \A asg \in SUBSET Facts(prog) :
     KeyTruth(asg, cache[p]) = (IF Truth(prog, asg, p) THEN "T" ELSE "F")
StackEmpty == Done => ptr = 0 /\ active = {}
NoDanglingMessages ==
  \A i \in DOMAIN msgs : msgs[i].t = "e" \/ msgs[i].obj = Top \/ (msgs[i].obj \in DOMAIN stack /\ stack[msgs[i].obj] # Nil)
NoCycleInFamily == err = ""
=============================================================================

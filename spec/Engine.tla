---------------------------- MODULE Engine ----------------------------
(***************************************************************************)
(* Layer B.  ProbLog's message-driven grounding engine                     *)
(* (problog/engine_stack.py, problog/eval_nodes.py) on PROPOSITIONAL       *)
(* programs (probabilistic facts, rules with one or two body literals,     *)
(* negation, recursion), default (buffered) mode, several queries on one   *)
(* target formula sharing the table.  One action per iteration of          *)
(* StackBasedEngine.execute's main loop (engine_stack.py:361): pop one     *)
(* message, dispatch on its kind, push the messages it produces            *)
(* (`actions += reversed(next_actions)`), close the cycle when its         *)
(* messages are exhausted.  Transcribed branch by branch:                  *)
(*   eval_define : table hit / ACTIVE goal (ground shortcut + checkCycle,  *)
(*                 or cycle child + cycleDetected) / new goal              *)
(*   eval_clause, eval_fact, eval_call, eval_default for conj / neg        *)
(*   EvalDefine  : new_result (cycle child / collapsed / buffered),        *)
(*                 complete, flushBuffer, cycleDetected, closeCycle,       *)
(*                 createCycle, siblings, cycle children, cycle_close      *)
(*   EvalAnd, EvalNot (createCycle => NegativeCycle), results_to_actions   *)
(*   engine      : find_cycle, notify_cycle, checkCycle, cycle_root,       *)
(*                 MessageFIFO.cycle_exhausted, add_record / cleanup       *)
(*   DefineCache : ground entries written while a goal is still active     *)
(* The target formula is the builder of FormulaBuilderOps.tla (add_atom,   *)
(* add_and, add_or readonly / mutable, add_disjunct, negate).              *)
(* Schedules: a batch of >= 2 sibling 'e' messages may be pushed in any    *)
(* order (the documented init_message_stack extension point; property C03).*)
(* Python errors the code can raise are terminal states with `err` set     *)
(* (AssertionError of ResultSet, NegativeCycle, IndirectCallCycleError,    *)
(* ValueError of add_disjunct, InvalidEngineState).                        *)
(*                                                                         *)
(* Layer A, evaluated by TLC in every terminal state of every program of   *)
(* the family and every schedule:                                          *)
(*   ResultCorrect  - the key reported for a query means, in every world,  *)
(*                    the truth of the query atom in the well-founded      *)
(*                    model (C01 on the design)                            *)
(*   TableSound     - at the end every table entry means its goal (C08)    *)
(*   NoError        - no exception on programs without a cycle through     *)
(*                    negation (C01/C02)                                   *)
(*   StackEmpty, NoDanglingMessages - engine state invariants              *)
(* Schedule independence (C03) follows: they hold for all orders.          *)
(***************************************************************************)
EXTENDS FormulaBuilderOps, SequencesExt

CONSTANTS Programs,     \* set of programs; a program is a sequence of clauses [h |-> pred, b |-> Seq([s, a]), f |-> BOOLEAN]
                        \* (f = TRUE: a probabilistic fact h; its body is empty)
          QuerySeqs,    \* set of query sequences (each query is a predicate)
          Permute,      \* TRUE: sibling batches in any order; FALSE: the engine's own order
          CheckOnTableHit,  \* FALSE: the pinned engine; TRUE: checkCycle also when an ACTIVE goal is answered from the table
          RepairFalseResult, \* FALSE: the pinned engine; TRUE: a collapsed result whose node is FALSE is replaced by the next proof
          LinkStopsAtNegation \* FALSE: the current engine (KF2); TRUE: linking a sub-cycle to the cycle root stops at a negation

VARIABLES prog, queries, qi,          \* the program, the query sequence, index of the current query (0 = not started)
          stack, ptr,                 \* execution records, next free pointer (self.pointer)
          msgs,                       \* the message stack (top = last element)
          cache, active,              \* target._cache: pred -> key | NoRes ; currently active goals
          croot,                      \* engine.cycle_root (pointer, -1 = None)
          fb,                         \* the target formula (builder state of FormulaBuilderOps)
          results,                    \* per finished query: the key it was given (NoRes = no answer = false)
          err,                        \* "" or the name of the exception raised
          log, sched                  \* history: popped messages / permutations used (hidden from the state by VIEW)

vars == <<prog, queries, qi, stack, ptr, msgs, cache, active, croot, fb, results, err, log, sched>>
view == <<prog, queries, qi, stack, ptr, msgs, cache, active, croot, fb, results, err>>

NoRes   == -FKey - 1          \* "goal evaluated, no result"
NoIdent == -FKey - 2          \* identifier None
Top     == -1                 \* parent of a top-level call (Python None)
Nil     == [ cls |-> "nil" ]
Opt     == [ ac |-> TRUE, kd |-> FALSE, ka |-> FALSE, ma |-> 0 ]      \* LogicFormula() defaults

\* ---------------------------------------------------------------- the compiled database
ClausesOf(P, p) == SelectSeq([ i \in DOMAIN P |-> i ], LAMBDA i : P[i].h = p)
Lit(l)          == [ k |-> IF l.s = 1 THEN "call" ELSE "neg", p |-> l.a ]
BodyOf(P, i)    == IF Len(P[i].b) = 1 THEN Lit(P[i].b[1]) ELSE [ k |-> "conj", l |-> Lit(P[i].b[1]), r |-> Lit(P[i].b[2]) ]

\* ---------------------------------------------------------------- messages and records
E(node, par, ident)      == [ t |-> "e", node |-> node, par |-> par, ident |-> ident, obj |-> 0, key |-> 0, last |-> FALSE ]
R(obj, key, ident, last) == [ t |-> "r", obj |-> obj, key |-> key, ident |-> ident, last |-> last, node |-> Nil, par |-> 0 ]
C(obj, ident)            == [ t |-> "c", obj |-> obj, ident |-> ident, key |-> 0, last |-> FALSE, node |-> Nil, par |-> 0 ]

Rec(cls, p, par, ident, tc, second) ==
  [ cls |-> cls, p |-> p, par |-> par, ident |-> ident, tc |-> tc, second |-> second,
    res |-> << >>, coll |-> FALSE,        \* ResultSet of the single (ground) result: the buffered nodes, or <<key>> once collapsed
    nodes |-> {},                         \* EvalNot
    oncyc |-> FALSE, root |-> FALSE, child |-> FALSE, cpar |-> FALSE, cch |-> << >>, ccl |-> {}, sib |-> << >> ]

ES(s, p, c, a, cr, f, e) == [ stack |-> s, ptr |-> p, cache |-> c, active |-> a, croot |-> cr, fb |-> f, err |-> e ]
Ret(es, acts, cleanup)   == [ es |-> es, acts |-> acts, cleanup |-> cleanup ]
Fail(es, what)           == Ret([ es EXCEPT !.err = IF @ = "" THEN what ELSE @ ], << >>, FALSE)

AddRecord(es, rec) == [ es EXCEPT !.stack = (es.ptr :> rec) @@ @, !.ptr = @ + 1 ]
RECURSIVE Lower(_, _)
Lower(s, p) == IF p > 0 /\ s[p - 1] = Nil THEN Lower(s, p - 1) ELSE p
Cleanup(es, obj) ==
  LET s == [ es.stack EXCEPT ![obj] = Nil ]
  IN  [ es EXCEPT !.stack = s, !.ptr = Lower(s, es.ptr), !.croot = IF @ = obj THEN -1 ELSE @ ]

Buffered(rec)      == ~rec.oncyc                        \* engine.unbuffered is False
IsCycleParent(rec) == rec.cch # << >> \/ rec.cpar
\* results_to_actions for a (ground) table entry
TableActions(v, par, ident) == IF v = NoRes \/ v = FKey THEN << C(par, ident) >> ELSE << R(par, v, ident, TRUE) >>

\* EvalDefine.flushBuffer(cycle): collapse the buffered nodes into one (readonly, or mutable when on a cycle) disjunction;
\* a ground goal's node is written to the table at once
FlushBuffer(es, obj, cycle) ==
  LET rec == es.stack[obj] IN
  IF rec.coll THEN es
  ELSE IF rec.res = << >> THEN [ es EXCEPT !.stack[obj].coll = TRUE ]
  ELSE IF rec.p \in DOMAIN es.cache
       THEN [ es EXCEPT !.stack[obj].coll = TRUE, !.stack[obj].res = << es.cache[rec.p] >> ]
       ELSE LET o == AddCompound(Opt, es.fb, "disj", rec.res, ~cycle)
            IN  [ es EXCEPT !.fb = o.st, !.stack[obj].coll = TRUE, !.stack[obj].res = << o.ret >>,
                            \* (repaired engine) a goal that is still active gets no FALSE table entry
                            !.cache = IF RepairFalseResult /\ o.ret = FKey THEN @ ELSE (rec.p :> o.ret) @@ @ ]

\* createCycle of the record at pointer x: [es, acts]
CreateCycle(es, x) ==
  LET rec == es.stack[x] IN
  CASE rec.cls = "not" -> [ es |-> [ es EXCEPT !.err = IF @ = "" THEN "NegativeCycle" ELSE @ ], acts |-> << >> ]
    [] rec.cls = "and" -> [ es |-> [ es EXCEPT !.stack[x].oncyc = TRUE ], acts |-> << >> ]
    [] rec.cls = "def" ->
         IF rec.oncyc \/ rec.root THEN [ es |-> es, acts |-> << >> ]
         ELSE LET e1 == FlushBuffer([ es EXCEPT !.stack[x].oncyc = TRUE ], x, TRUE)
                  r1 == e1.stack[x]
                  one(k) == << R(r1.par, k, r1.ident, FALSE) >> \o
                            \* `for s in self.siblings: actions += self.notifyResultSiblings(result, node)`
                            FlattenSeq([ i \in DOMAIN r1.sib |-> [ j \in DOMAIN r1.sib |-> R(r1.sib[j], k, r1.ident, FALSE) ] ])
              IN  [ es |-> e1, acts |-> IF r1.res = << >> \/ (RepairFalseResult /\ r1.res[1] = FKey) THEN << >> ELSE one(r1.res[1]) ]

\* engine.find_cycle(child, parent): [ok, c]
RECURSIVE FindCycle(_, _, _, _, _)
FindCycle(es, child, parent, acc, rootEnc) ==
  IF child = Top
  THEN IF rootEnc > 0 THEN [ ok |-> TRUE, c |-> SubSeq(acc, 1, rootEnc) ] ELSE [ ok |-> FALSE, c |-> << >> ]
  ELSE LET acc1 == Append(acc, child)
           node == es.stack[child]
           viaSib == IF node.cls = "def"
                     THEN SelectSeq([ i \in DOMAIN node.sib |-> FindCycle(es, node.sib[i], parent, << >>, 0) ],
                                    LAMBDA x : x.ok /\ x.c # << >>)
                     ELSE << >>
       IN  IF viaSib # << >> THEN [ ok |-> TRUE, c |-> acc1 \o viaSib[1].c ]
           ELSE IF node.par = parent THEN [ ok |-> TRUE, c |-> acc1 ]
           ELSE FindCycle(es, node.par, parent, acc1,
                          IF es.croot # -1 /\ node.par = es.croot THEN Len(acc1) ELSE rootEnc)

\* engine.notify_cycle(cycle): createCycle of cycle[1:], in order
RECURSIVE NotifyCycle(_, _, _, _)
NotifyCycle(es, cyc, i, acts) ==
  IF i > Len(cyc) THEN [ es |-> es, acts |-> acts ]
  ELSE LET r == CreateCycle(es, cyc[i]) IN NotifyCycle(r.es, cyc, i + 1, acts \o r.acts)

\* engine.checkCycle(child, parent): a negation between the caller and the active goal is a cycle through negation
RECURSIVE CheckCycle(_, _, _)
CheckCycle(es, cur, parent) ==
  IF cur <= parent THEN es
  ELSE LET n == es.stack[cur] IN
       IF n.oncyc THEN es
       ELSE IF n.cls = "not" THEN [ es EXCEPT !.err = IF @ = "" THEN "NegativeCycle" ELSE @ ]
       ELSE CheckCycle(es, n.par, parent)

\* (repaired engine, table hit of an active goal) a negation on the path from the caller UP TO the active goal - only if
\* the active goal is an ancestor of the caller; an active goal on a sibling branch of an open cycle is no cycle
RECURSIVE CheckPath(_, _, _, _)
CheckPath(es, cur, parent, neg) ==
  IF cur = Top \/ cur < parent THEN es
  ELSE IF cur = parent THEN (IF neg THEN [ es EXCEPT !.err = IF @ = "" THEN "NegativeCycle" ELSE @ ] ELSE es)
  ELSE LET n == es.stack[cur] IN
       IF n.oncyc THEN es ELSE CheckPath(es, n.par, parent, neg \/ n.cls = "not")

\* (repaired engine, table hit of an active goal G)  The goals G depends on through OPEN cycles: G itself, and every active
\* goal that has a cycle child or a sibling below a goal already in the set.  A negation on the call path from one of them
\* down to the caller closes a cycle through negation; an active goal on a sibling branch that does not depend on the
\* caller's ancestors (a cycle nested in a cycle) does not.
RECURSIVE IsBelow(_, _, _)
IsBelow(es, x, y) == IF x = Top THEN FALSE ELSE IF x = y THEN TRUE ELSE IsBelow(es, es.stack[x].par, y)
RECURSIVE DependsOn(_, _)
DependsOn(es, D) ==
  LET more == { a \in DOMAIN es.stack : es.stack[a] # Nil /\ es.stack[a].cls = "def" /\
                   \E c \in RangeOf(es.stack[a].cch) \cup RangeOf(es.stack[a].sib) : \E d \in D : IsBelow(es, c, d) }
  IN  IF more \subseteq D THEN D ELSE DependsOn(es, D \cup more)
RECURSIVE NegOnPath(_, _, _, _)
NegOnPath(es, cur, anc, neg) ==
  IF cur = Top THEN FALSE ELSE IF cur = anc THEN neg
  ELSE NegOnPath(es, es.stack[cur].par, anc, neg \/ es.stack[cur].cls = "not")
CheckTableHit(es, caller, g) ==
  IF \E d \in DependsOn(es, {g}) : NegOnPath(es, caller, d, FALSE)
  THEN [ es EXCEPT !.err = IF @ = "" THEN "NegativeCycle" ELSE @ ] ELSE es

\* EvalDefine.cycleDetected: c = the new (cycle child) record, a = the active record of the same goal
CycleDetected(es, c, a) ==
  LET cyc == FindCycle(es, c, a, << >>, 0)
      ra  == es.stack[a]
      rc  == es.stack[c]
  IN  IF ~cyc.ok \/ cyc.c = << >>
      THEN \* not a real cycle: the new caller becomes a sibling of the active node
           LET e1 == [ es EXCEPT !.stack[a].sib = Append(@, c), !.stack[c].child = TRUE ]
           IN  IF ra.res # << >> /\ ~ra.coll THEN Fail(e1, "IndirectCallCycleError")
               ELSE Ret(e1, IF ra.res = << >> THEN << >>
                            ELSE << R(c, ra.res[1], rc.ident, FALSE), R(c, ra.res[1], rc.ident, FALSE) >>, FALSE)
      ELSE LET e1 == FlushBuffer([ es EXCEPT !.stack[c].child = TRUE, !.stack[a].cch = Append(@, c) ], a, TRUE)
               q0 == IF e1.stack[a].res = << >> THEN << >> ELSE << R(c, e1.stack[a].res[1], rc.ident, FALSE) >>
               oldroot == e1.croot
               swap == oldroot # -1 /\ a < oldroot
               \* the new parent is earlier on the stack than the current cycle root: it becomes the root
               e2 == IF swap
                     THEN [ e1 EXCEPT !.stack[oldroot].root = FALSE, !.stack[a].ccl = e1.stack[oldroot].ccl,
                                      !.stack[oldroot].ccl = {}, !.croot = a ]
                     ELSE e1
               s1 == IF swap THEN CreateCycle(e2, oldroot) ELSE [ es |-> e2, acts |-> << >> ]
               s2 == IF swap THEN NotifyCycle(s1.es, cyc.c, 2, << >>) ELSE [ es |-> s1.es, acts |-> << >> ]
               q1 == q0 \o s1.acts \o s2.acts
               noRoot == swap \/ oldroot = -1
           IN  IF noRoot
               THEN LET e3 == [ s2.es EXCEPT !.croot = a, !.stack[a].root = TRUE, !.stack[a].ccl = @ \cup {c} ]
                        n  == NotifyCycle(e3, cyc.c, 2, << >>)
                    IN  Ret(n.es, q1 \o n.acts, FALSE)
               ELSE LET e3 == [ s2.es EXCEPT !.stack[oldroot].ccl = @ \cup {c} ]
                        n  == NotifyCycle(e3, cyc.c, 2, << >>)
                    IN  IF a = n.es.croot THEN Ret(n.es, q1 \o n.acts, FALSE)
                        ELSE LET tr == FindCycle(n.es, a, n.es.croot, << >>, 0)
                             IN  IF ~tr.ok THEN Fail(n.es, "IndirectCallCycleError")
                                 ELSE LET cc == CreateCycle(n.es, a)
                                          \* linking the sub-cycle to the open root.  (repaired engine) the link stops at a negation:
                                          \* a sub-cycle below it is independent of the root's cycle (if it were not, the dependent
                                          \* call itself closes a cycle through that negation and raises)
                                          firstNot == SelectSeq([ i \in 1..Len(tr.c) |-> i ], LAMBDA i : i >= 2 /\ n.es.stack[tr.c[i]].cls = "not")
                                          path == IF LinkStopsAtNegation /\ firstNot # << >> THEN SubSeq(tr.c, 1, firstNot[1] - 1) ELSE tr.c
                                          n2 == NotifyCycle(cc.es, path, 2, << >>)
                                      IN  Ret(n2.es, q1 \o n.acts \o cc.acts \o n2.acts, FALSE)

\* eval(node) : records pushed, messages produced (engine_stack.py eval_* functions)
RECURSIVE EvalN(_, _, _, _, _)
EvalN(P, es, node, par, ident) ==
  CASE node.k = "define" ->
         IF node.p \in DOMAIN es.cache
         THEN \* table hit.  The entry of a ground goal is written when its buffer is flushed, i.e. possibly while the goal is
              \* still active: the pinned code then hands the node out WITHOUT looking for a negation between the caller and
              \* the active goal (known finding KF4).  CheckOnTableHit = TRUE models the repaired engine.
              LET ap == IF node.p \in es.active
                        THEN CHOOSE x \in DOMAIN es.stack : es.stack[x] # Nil /\ es.stack[x].cls = "def" /\ es.stack[x].p = node.p /\ ~es.stack[x].child
                        ELSE -1
                  e1 == IF CheckOnTableHit /\ ap # -1 /\ par # Top THEN CheckTableHit(es, par, ap) ELSE es
              IN  Ret(e1, TableActions(es.cache[node.p], par, ident), FALSE)
         ELSE IF node.p \in es.active
         THEN LET ap == CHOOSE x \in DOMAIN es.stack : es.stack[x] # Nil /\ es.stack[x].cls = "def" /\ es.stack[x].p = node.p
                                                        /\ ~es.stack[x].child
              IN  IF es.stack[ap].res # << >> /\ (~RepairFalseResult \/ \E i \in DOMAIN es.stack[ap].res : es.stack[ap].res[i] # FKey)
                  THEN \* ground goal with results: flush its buffer, hand out the (mutable) node, look for a negation
                       LET e1 == FlushBuffer(es, ap, TRUE)
                           e2 == [ e1 EXCEPT !.stack[ap].cpar = TRUE ]
                           e3 == IF par = Top THEN e2 ELSE CheckCycle(e2, par, ap)
                       IN  Ret(e3, TableActions(e2.stack[ap].res[1], par, ident), FALSE)
                  ELSE LET rec == Rec("def", node.p, par, ident, 0, Nil)
                       IN  CycleDetected(AddRecord(es, rec), es.ptr, ap)
         ELSE LET ch == ClausesOf(P, node.p)
              IN  IF ch = << >> THEN Ret(es, << C(par, ident) >>, FALSE)
                  ELSE LET es1 == AddRecord(es, Rec("def", node.p, par, ident, Len(ch), Nil))
                       IN  Ret([ es1 EXCEPT !.active = @ \cup {node.p} ],
                               [ j \in DOMAIN ch |-> E([ k |-> "clause", i |-> ch[j] ], es.ptr, ident) ], FALSE)
    [] node.k = "clause" ->
         IF P[node.i].f
         THEN \* eval_fact: target.add_atom(node_id, probability, name); the fact named "t" is deterministic (no probability)
              LET a == AddAtom(Opt, es.fb, P[node.i].h, IF P[node.i].h = "t" THEN 1 ELSE 0)
              IN  Ret([ es EXCEPT !.fb = a.st ], << R(par, a.ret, ident, TRUE) >>, FALSE)
         ELSE EvalN(P, es, BodyOf(P, node.i), par, ident)              \* eval_clause evaluates the body node directly
    [] node.k = "call" -> EvalN(P, es, [ k |-> "define", p |-> node.p ], par, ident)
    [] node.k = "conj" -> Ret(AddRecord(es, Rec("and", "", par, ident, 1, node.r)), << E(node.l, es.ptr, NoIdent) >>, FALSE)
    [] node.k = "neg"  -> Ret(AddRecord(es, Rec("not", "", par, ident, 0, Nil)), << E([ k |-> "call", p |-> node.p ], es.ptr, ident) >>, FALSE)

\* EvalDefine.complete
DefComplete(es, obj) ==
  LET rec == es.stack[obj] IN
  IF rec.child THEN Ret(es, << C(rec.par, rec.ident) >>, TRUE)
  ELSE LET tc == rec.tc - 1 IN
       IF tc # 0 THEN Ret([ es EXCEPT !.stack[obj].tc = tc ], << >>, FALSE)
       ELSE LET e1  == FlushBuffer([ es EXCEPT !.stack[obj].tc = 0 ], obj, FALSE)
                r1  == e1.stack[obj]
                val == IF r1.res = << >> THEN NoRes ELSE r1.res[1]
                e2  == [ e1 EXCEPT !.cache = (rec.p :> val) @@ @, !.active = @ \ {rec.p} ]
                toSibs(last) == [ i \in DOMAIN r1.sib |-> IF val = NoRes \/ ~last THEN C(r1.sib[i], r1.ident)
                                                          ELSE R(r1.sib[i], val, r1.ident, TRUE) ]
            IN  IF Buffered(r1)
                THEN Ret(e2, TableActions(val, r1.par, r1.ident) \o toSibs(TRUE), TRUE)
                ELSE Ret(e2, << C(r1.par, r1.ident) >> \o toSibs(FALSE), TRUE)

\* EvalDefine.new_result
DefNewResult(es, obj, m) ==
  LET rec == es.stack[obj] IN
  IF rec.child THEN Ret(es, << R(rec.par, m.key, rec.ident, m.last) >>, m.last)
  ELSE IF ~Buffered(rec) \/ IsCycleParent(rec)
  THEN IF ~rec.coll THEN Fail(es, "AssertionError")                       \* assert self.results.collapsed
       ELSE IF rec.res # << >> /\ rec.res[1] # FKey
       THEN \* res_node = self.results.get(res) is not None: target.add_disjunct(res_node, node)
            LET k == rec.res[1]
                e1 == IF k = 0 THEN es ELSE [ es EXCEPT !.fb = AddDisjunct(Opt, es.fb, k, m.key) ]
            IN  IF m.last THEN DefComplete(e1, obj) ELSE Ret(e1, << >>, FALSE)
       ELSE IF rec.res # << >> /\ ~RepairFalseResult
       THEN \* the stored node is FALSE (Python None): results.get() cannot tell it from "no result yet", the code goes on to
            \* `self.results[res] = result_node` and ResultSet.__setitem__ asserts `not self.collapsed` (known finding KF1)
            Fail(es, "AssertionError")
       ELSE LET o  == IF rec.p \in DOMAIN es.cache /\ es.cache[rec.p] # FKey THEN [ st |-> es.fb, ret |-> es.cache[rec.p] ]
                      ELSE IF rec.p \in DOMAIN es.cache /\ ~RepairFalseResult THEN [ st |-> es.fb, ret |-> es.cache[rec.p] ]
                      ELSE AddCompound(Opt, es.fb, "disj", << m.key >>, FALSE)
                e1 == [ es EXCEPT !.fb = o.st, !.stack[obj].res = << o.ret >>,
                                  !.cache = IF RepairFalseResult /\ o.ret = FKey THEN @ ELSE (rec.p :> o.ret) @@ @ ]
                up == IF ~Buffered(rec) /\ o.ret # FKey THEN << R(rec.par, o.ret, rec.ident, FALSE) >> ELSE << >>
                dn == IF o.ret # FKey
                      THEN [ i \in DOMAIN rec.cch |-> R(rec.cch[i], o.ret, rec.ident, FALSE) ] \o
                           [ i \in DOMAIN rec.sib |-> R(rec.sib[i], o.ret, rec.ident, FALSE) ]
                      ELSE << >>
            IN  IF m.last THEN LET d == DefComplete(e1, obj) IN Ret(d.es, up \o dn \o d.acts, d.cleanup)
                ELSE Ret(e1, up \o dn, FALSE)
  ELSE IF rec.coll THEN Fail(es, "AssertionError")                        \* assert not self.results.collapsed
  ELSE LET e1 == [ es EXCEPT !.stack[obj].res = Append(@, m.key) ]
       IN  IF m.last THEN DefComplete(e1, obj) ELSE Ret(e1, << >>, FALSE)

AndComplete(es, obj) ==
  LET tc == es.stack[obj].tc - 1
  IN  [ es |-> [ es EXCEPT !.stack[obj].tc = tc ], all |-> tc = 0 ]

NotComplete(es, obj) ==
  LET rec == es.stack[obj] IN
  IF rec.nodes = {}
  THEN Ret(es, << R(rec.par, 0, rec.ident, FALSE), C(rec.par, rec.ident) >>, TRUE)
  ELSE \* target.add_not(target.add_or(self.nodes)): a ground goal has one result, so the set has one element
       LET o == AddCompound(Opt, es.fb, "disj", SetToSortSeq(rec.nodes, <), TRUE)
           n == NegKey(o.ret)
       IN  Ret([ es EXCEPT !.fb = o.st ],
               IF n = FKey THEN << C(rec.par, rec.ident) >> ELSE << R(rec.par, n, rec.ident, FALSE), C(rec.par, rec.ident) >>, TRUE)

OnResult(es, m) ==
  LET rec == es.stack[m.obj] IN
  CASE rec.cls = "def" -> DefNewResult(es, m.obj, m)
    [] rec.cls = "and" ->
         IF m.ident = NoIdent /\ RepairFalseResult /\ m.key = FKey
         THEN \* (repaired engine) a FALSE first conjunct is no result
              IF m.last THEN LET ac == AndComplete(es, m.obj)
                             IN  Ret(ac.es, IF ac.all THEN << C(rec.par, rec.ident) >> ELSE << >>, ac.all)
              ELSE Ret(es, << >>, FALSE)
         ELSE IF m.ident = NoIdent
         THEN \* result of the first conjunct: start the second one, carrying the first one's node as identifier
              LET es1 == [ es EXCEPT !.stack[m.obj].tc = @ + 1 ]
                  es2 == IF m.last THEN AndComplete(es1, m.obj).es ELSE es1
                  \* identifier=node: a FALSE node is Python None, i.e. the same as "no identifier" - the results of the
                  \* second conjunct are then taken for results of the first one again
              IN  Ret(es2, << E(rec.second, m.obj, IF m.key = FKey THEN NoIdent ELSE m.key) >>, FALSE)
         ELSE \* result of the second conjunct: target.add_and((source, node))
              LET a  == AddCompound(Opt, es.fb, "conj", << m.ident, m.key >>, TRUE)
                  e1 == [ es EXCEPT !.fb = a.st ]
                  ac == IF m.last THEN AndComplete(e1, m.obj) ELSE [ es |-> e1, all |-> FALSE ]
              IN  Ret(ac.es, << R(rec.par, a.ret, rec.ident, ac.all) >>, ac.all)
    [] rec.cls = "not" ->
         LET es1 == IF m.key # FKey THEN [ es EXCEPT !.stack[m.obj].nodes = @ \cup {m.key} ] ELSE es
         IN  IF m.last THEN NotComplete(es1, m.obj) ELSE Ret(es1, << >>, FALSE)

OnComplete(es, m) ==
  LET rec == es.stack[m.obj] IN
  CASE rec.cls = "def" -> DefComplete(es, m.obj)
    [] rec.cls = "and" -> LET ac == AndComplete(es, m.obj)
                          IN  Ret(ac.es, IF ac.all THEN << C(rec.par, rec.ident) >> ELSE << >>, ac.all)
    [] rec.cls = "not" -> NotComplete(es, m.obj)

Perms(n) == { f \in [ 1..n -> 1..n ] : \A i, j \in 1..n : i # j => f[i] # f[j] }
\* cycle_root.closeCycle(True)
CloseCycle(es) ==
  LET a == es.croot
      rec == es.stack[a]
  IN  IF rec.root THEN [ es |-> [ es EXCEPT !.croot = -1 ],
                         acts |-> LET cc == SetToSortSeq(rec.ccl, <) IN [ i \in DOMAIN cc |-> C(cc[i], rec.ident) ] ]
      ELSE [ es |-> es, acts |-> << >> ]
\* `for cc in self.cycle_close` iterates a Python set: the order is an artefact of the hash table, so the model allows any
ClosingOrders(acts) == { [ i \in DOMAIN acts |-> acts[f[i]] ] : f \in Perms(Len(acts)) }

\* ---------------------------------------------------------------- the state machine
Cur == ES(stack, ptr, cache, active, croot, fb, err)
Orders(acts) == IF Permute /\ Len(acts) > 1 /\ \A i \in DOMAIN acts : acts[i].t = "e"
                THEN { [ i \in DOMAIN acts |-> acts[f[i]] ] : f \in Perms(Len(acts)) }
                ELSE { acts }

\* install the outcome r of processing a message: push its messages (any sibling order), close an exhausted cycle, clean up
Install(r, obj, popped) ==
  LET closing == popped = << >> /\ r.acts = << >> /\ r.es.croot # -1 /\ r.es.err = ""
      cl == IF closing THEN CloseCycle(r.es) ELSE [ es |-> r.es, acts |-> r.acts ]
      es == IF r.cleanup THEN Cleanup(cl.es, obj) ELSE cl.es
  IN  \E ord \in (IF closing THEN ClosingOrders(cl.acts) ELSE Orders(cl.acts)) :
         /\ stack' = es.stack /\ ptr' = es.ptr /\ cache' = es.cache /\ active' = es.active /\ croot' = es.croot
         /\ fb' = es.fb /\ err' = es.err
         /\ msgs' = popped \o Reverse(ord)
         /\ sched' = IF Len(ord) > 1 /\ \A i \in DOMAIN ord : ord[i].t = "e"
                     THEN Append(sched, [ i \in DOMAIN ord |-> CHOOSE j \in DOMAIN cl.acts : cl.acts[j] = ord[i] ]) ELSE sched

Init ==
  /\ prog \in Programs /\ queries \in QuerySeqs /\ qi = 0
  /\ stack = << >> /\ ptr = 0 /\ msgs = << >> /\ cache = << >> /\ active = {} /\ croot = -1
  /\ fb = [ nodes |-> << >>, ia |-> << >>, ic |-> << >>, id |-> << >> ]
  /\ results = << >> /\ err = "" /\ log = << >> /\ sched = << >>

\* engine.ground(db, query, target): execute() evaluates the query's define node directly (no message is popped for it)
StartQuery ==
  /\ msgs = << >> /\ err = "" /\ qi < Len(queries) /\ Len(results) = qi
  /\ qi' = qi + 1
  /\ Install(EvalN(prog, Cur, [ k |-> "define", p |-> queries[qi + 1] ], Top, NoIdent), 0, << >>)
  /\ log' = Append(log, [ t |-> "q", p |-> queries[qi + 1] ])
  /\ UNCHANGED <<prog, queries, results>>

\* MessageFIFO.cycle_exhausted(): the next message would evaluate a node outside the active cycle
CycleExhausted ==
  /\ croot # -1 /\ msgs # << >>
  /\ LET m == msgs[Len(msgs)] IN m.t = "e" /\ m.par < croot

Step ==
  /\ msgs # << >> /\ err = ""
  /\ IF CycleExhausted
     THEN LET cl == CloseCycle(Cur)
          IN  /\ \E ord \in ClosingOrders(cl.acts) : msgs' = msgs \o Reverse(ord)
              /\ croot' = cl.es.croot
              /\ UNCHANGED <<stack, ptr, cache, active, fb, err, results, log, sched>>
     ELSE LET m == msgs[Len(msgs)]
              rest == SubSeq(msgs, 1, Len(msgs) - 1)
          IN  /\ log' = Append(log, m)
              /\ IF m.t = "e"
                 THEN /\ Install(EvalN(prog, Cur, m.node, m.par, m.ident), 0, rest) /\ UNCHANGED results
                 ELSE IF m.obj = Top
                 THEN \* top level: every 'r' names the query's node; is_last (or 'c') ends the execution
                      /\ results' = IF m.t = "r" THEN (IF Len(results) = qi THEN [ results EXCEPT ![qi] = m.key ] ELSE Append(results, m.key))
                                    ELSE IF Len(results) = qi THEN results ELSE Append(results, NoRes)
                      /\ IF m.t = "r" /\ ~m.last
                         THEN msgs' = rest /\ err' = err
                         ELSE /\ msgs' = << >>
                              /\ err' = IF m.t = "r" /\ ptr # 0 THEN "InvalidEngineState" ELSE err
                      /\ UNCHANGED <<stack, ptr, cache, active, croot, fb, sched>>
                 ELSE IF m.obj \notin DOMAIN stack \/ stack[m.obj] = Nil
                 THEN /\ err' = "InvalidEngineState" /\ msgs' = rest
                      /\ UNCHANGED <<stack, ptr, cache, active, croot, fb, sched, results>>
                 ELSE /\ Install(IF m.t = "r" THEN OnResult(Cur, m) ELSE OnComplete(Cur, m), m.obj, rest) /\ UNCHANGED results
  /\ UNCHANGED <<prog, queries, qi>>

Next == StartQuery \/ Step
Spec == Init /\ [][Next]_vars

Done   == msgs = << >> /\ qi = Len(queries) /\ Len(results) = qi /\ err = ""
Failed == err # ""
\* execute() ran out of messages without a top-level result: "Engine did not complete correctly!"
Stuck  == msgs = << >> /\ err = "" /\ qi > 0 /\ Len(results) < qi

\* ---------------------------------------------------------------- Layer A
Facts(P) == { P[i].h : i \in { j \in DOMAIN P : P[j].f /\ P[j].h # "t" } }
Preds(P) == { P[i].h : i \in DOMAIN P }
RulesIn(P, asg) == { [ h |-> P[i].h, pos |-> { P[i].b[j].a : j \in { x \in DOMAIN P[i].b : P[i].b[x].s = 1 } },
                       neg |-> { P[i].b[j].a : j \in { x \in DOMAIN P[i].b : P[i].b[x].s = 0 } } ]
                     : i \in { j \in DOMAIN P : ~P[j].f \/ P[j].h \in asg \/ P[j].h = "t" } }
\* three-valued truth of atom p in the well-founded model of the world `asg`
Truth3(P, asg, p) == LET wf == WFM(RulesIn(P, asg)) IN IF p \in wf[1] THEN "T" ELSE IF p \in wf[2] THEN "U" ELSE "F"
\* the ground dependency graph has a cycle through a negation
DepEdges(P) == { <<P[i].h, P[i].b[j].a, P[i].b[j].s>> : <<i, j>> \in { <<a, b>> \in (DOMAIN P) \X (1..2) : b \in DOMAIN P[a].b } }
RECURSIVE ReachD(_, _)
ReachD(Ed, S) == LET T == S \cup { <<e[2], IF e[3] = 0 THEN 1 ELSE x[2]>> : <<e, x>> \in { <<a, b>> \in Ed \X S : a[1] = b[1] } }
                 IN  IF T = S THEN S ELSE ReachD(Ed, T)
NegCyclic(P) == \E p \in Preds(P) : <<p, 1>> \in ReachD(DepEdges(P), { <<p, 0>> })

KeyTruth(asg, k) == IF k = NoRes THEN "F" ELSE KeyValue("r", WFM(GraphRules("r", fb.nodes, asg)), k)
ResultCorrect ==
  Done /\ ~NegCyclic(prog) => \A q \in DOMAIN results : \A asg \in SUBSET Facts(prog) :
                                  KeyTruth(asg, results[q]) = Truth3(prog, asg, queries[q])
TableSound ==
  Done /\ ~NegCyclic(prog) => \A p \in DOMAIN cache : \A asg \in SUBSET Facts(prog) :
                                  KeyTruth(asg, cache[p]) = Truth3(prog, asg, p)
NoError    == ~NegCyclic(prog) => err = "" /\ ~Stuck
NegCycleOnlyWhenCyclic == err = "NegativeCycle" => NegCyclic(prog)
\* C02: an answer is only given when every query atom is two-valued in every world - and is then the right one
AnsweredOnlyWhenDefined ==
  Done => \A q \in DOMAIN results : \A asg \in SUBSET Facts(prog) :
             Truth3(prog, asg, queries[q]) # "U" /\ KeyTruth(asg, results[q]) = Truth3(prog, asg, queries[q])
StackEmpty == Done => ptr = 0 /\ active = {} /\ croot = -1
NoDanglingMessages ==
  \A i \in DOMAIN msgs : msgs[i].t = "e" \/ msgs[i].obj = Top \/ (msgs[i].obj \in DOMAIN stack /\ stack[msgs[i].obj] # Nil)
=============================================================================

---------------------------- MODULE SemiringA ----------------------------
(***************************************************************************)
(* C12, Layer A.  The probability semiring over exact rationals <<n, d>>   *)
(* (d > 0) and the laws a commutative semiring obeys; the log semiring is  *)
(* its image under log (checked by the harness through exp), the symbolic  *)
(* semiring yields expressions that must evaluate to the same rationals.   *)
(* JudgeCase computes the exact result of one recorded operation;          *)
(* LawsHoldOn checks the laws on a grid at the specification level.        *)
(***************************************************************************)
EXTENDS Naturals, Integers, Sequences, TLC, Json, IOUtils

Q(n, d)     == <<n, d>>
Plus(a, b)  == Q(a[1] * b[2] + b[1] * a[2], a[2] * b[2])
Times(a, b) == Q(a[1] * b[1], a[2] * b[2])
Neg(a)      == Q(a[2] - a[1], a[2])
Eq(a, b)    == a[1] * b[2] = b[1] * a[2]
Zero        == Q(0, 1)
One         == Q(1, 1)
RECURSIVE SumSeq(_)
SumSeq(s)   == IF s = << >> THEN Zero ELSE Plus(Head(s), SumSeq(Tail(s)))

LawsHoldOn(G) ==
  /\ \A a, b \in G : Eq(Plus(a, b), Plus(b, a)) /\ Eq(Times(a, b), Times(b, a))
  /\ \A a, b, c \in G : /\ Eq(Plus(Plus(a, b), c), Plus(a, Plus(b, c)))
                         /\ Eq(Times(Times(a, b), c), Times(a, Times(b, c)))
                         /\ Eq(Times(a, Plus(b, c)), Plus(Times(a, b), Times(a, c)))
  /\ \A a \in G : Eq(Plus(a, Zero), a) /\ Eq(Times(a, One), a) /\ Eq(Times(a, Zero), Zero) /\ Eq(Neg(Neg(a)), a)
Grid(n) == { Q(k, n) : k \in 0..n }
ASSUME LawsHoldOn(Grid(6))

\* ---- compound expressions: [op |-> "leaf", q |-> <<n, d>>] | [op |-> "plus" | "times" | "negate" | "normalize", a |-> Seq(expr)]
RECURSIVE Gcd(_, _)
Gcd(a, b) == IF b = 0 THEN a ELSE Gcd(b, a % b)
Red(q) == IF q[1] = 0 THEN Q(0, 1) ELSE LET g == Gcd(q[1], q[2]) IN Q(q[1] \div g, q[2] \div g)
RECURSIVE EvalX(_)
EvalX(e) ==
  CASE e.op = "leaf"   -> Red(e.q)
    [] e.op = "plus"   -> Red(Plus(EvalX(e.a[1]), EvalX(e.a[2])))
    [] e.op = "times"  -> Red(Times(EvalX(e.a[1]), EvalX(e.a[2])))
    [] e.op = "negate" -> Red(Neg(EvalX(e.a[1])))
    [] e.op = "normalize" -> LET x == EvalX(e.a[1])
                                 z == EvalX(e.a[2])
                             IN  Red(Q(x[1] * z[2], x[2] * z[1]))        \* the harness never divides by zero

\* ---- operands of very different magnitude: <<n, d, e>> stands for (n / d) * 10^(-e), with 1/10 <= n/d <= 1
\* plus: the exact sum lies in [m, m * (1 + 10^(-gap+1))] where m is the larger operand; the judge returns m and gap
Larger(a, b) == IF a[3] < b[3] THEN a ELSE IF b[3] < a[3] THEN b ELSE IF a[1] * b[2] >= b[1] * a[2] THEN a ELSE b
AbsI(x) == IF x < 0 THEN -x ELSE x

Cases == JsonDeserialize(IOEnv.CASES_FILE)
\* expected exact result of one operation: [def |-> BOOLEAN, n, d, e]   (value = n / d * 10^-e)
Expected(C) ==
  LET R(q) == [ def |-> TRUE, n |-> q[1], d |-> q[2], e |-> 0, gap |-> 0 ]
      U == [ def |-> FALSE, n |-> 0, d |-> 1, e |-> 0, gap |-> 0 ]
  IN  CASE C.op = "plus"   -> R(Plus(C.a, C.b))
        [] C.op = "times"  -> R(Times(C.a, C.b))
        [] C.op = "negate" -> R(Neg(C.a))
        [] C.op = "value"  -> R(C.a)
        [] C.op = "normalize" -> IF C.b[1] = 0 THEN U ELSE R(Q(C.a[1] * C.b[2], C.a[2] * C.b[1]))
        [] C.op = "ad_complement" -> R(Neg(SumSeq(C.ws)))
        [] C.op = "one"  -> R(One)
        [] C.op = "zero" -> R(Zero)
        [] C.op = "expr" -> R(EvalX(C.x))
        [] C.op = "wide_plus"  -> LET m == Larger(C.wa, C.wb)
                                  IN  [ def |-> TRUE, n |-> m[1], d |-> m[2], e |-> m[3], gap |-> AbsI(C.wa[3] - C.wb[3]) ]
        [] C.op = "wide_times" -> [ def |-> TRUE, n |-> C.wa[1] * C.wb[1], d |-> C.wa[2] * C.wb[2], e |-> C.wa[3] + C.wb[3], gap |-> 0 ]
Results == [ c \in DOMAIN Cases |-> [ id |-> Cases[c].id ] @@ Expected(Cases[c]) ]
ASSUME ndJsonSerialize(IOEnv.OUT_FILE, Results)
=============================================================================

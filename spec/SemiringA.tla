---------------------------- MODULE SemiringA ----------------------------
(***************************************************************************)
(* C12, Layer A.  The probability semiring over exact rationals <<n, d>>   *)
(* (d > 0) and the laws a commutative semiring obeys; the log semiring is  *)
(* its image under log (checked by the harness through exp), the symbolic  *)
(* semiring yields expressions that must evaluate to the same rationals.   *)
(* JudgeCase computes the exact result of one recorded operation;          *)
(* LawsHoldOn checks the laws on a grid at the specification level.        *)
(***************************************************************************)
EXTENDS Naturals, Integers, Sequences, TLC, Json, IOUtils

Q(n, d)     == <<n, d>>
Plus(a, b)  == Q(a[1] * b[2] + b[1] * a[2], a[2] * b[2])
Times(a, b) == Q(a[1] * b[1], a[2] * b[2])
Neg(a)      == Q(a[2] - a[1], a[2])
Eq(a, b)    == a[1] * b[2] = b[1] * a[2]
Zero        == Q(0, 1)
One         == Q(1, 1)
RECURSIVE SumSeq(_)
SumSeq(s)   == IF s = << >> THEN Zero ELSE Plus(Head(s), SumSeq(Tail(s)))

LawsHoldOn(G) ==
  /\ \A a, b \in G : Eq(Plus(a, b), Plus(b, a)) /\ Eq(Times(a, b), Times(b, a))
  /\ \A a, b, c \in G : /\ Eq(Plus(Plus(a, b), c), Plus(a, Plus(b, c)))
                         /\ Eq(Times(Times(a, b), c), Times(a, Times(b, c)))
                         /\ Eq(Times(a, Plus(b, c)), Plus(Times(a, b), Times(a, c)))
  /\ \A a \in G : Eq(Plus(a, Zero), a) /\ Eq(Times(a, One), a) /\ Eq(Times(a, Zero), Zero) /\ Eq(Neg(Neg(a)), a)
Grid(n) == { Q(k, n) : k \in 0..n }
ASSUME LawsHoldOn(Grid(6))

Cases == JsonDeserialize(IOEnv.CASES_FILE)
\* expected exact result of one operation: [def |-> BOOLEAN, n, d]
Expected(C) ==
  LET R(q) == [ def |-> TRUE, n |-> q[1], d |-> q[2] ]
      U == [ def |-> FALSE, n |-> 0, d |-> 1 ]
  IN  CASE C.op = "plus"   -> R(Plus(C.a, C.b))
        [] C.op = "times"  -> R(Times(C.a, C.b))
        [] C.op = "negate" -> R(Neg(C.a))
        [] C.op = "value"  -> R(C.a)
        [] C.op = "normalize" -> IF C.b[1] = 0 THEN U ELSE R(Q(C.a[1] * C.b[2], C.a[2] * C.b[1]))
        [] C.op = "ad_complement" -> R(Neg(SumSeq(C.ws)))
        [] C.op = "one"  -> R(One)
        [] C.op = "zero" -> R(Zero)
Results == [ c \in DOMAIN Cases |-> [ id |-> Cases[c].id ] @@ Expected(Cases[c]) ]
ASSUME ndJsonSerialize(IOEnv.OUT_FILE, Results)
=============================================================================

"""Per-property registration used to generate MANIFEST.json (tools/mkmanifest.py)."""

SEM_NOTE = ("Trusted: TLC + spec/Semantics.tla as reference (function-free fragment, exact integer weights, <=2^31 "
            "denominator), the structured-program->text renderer, the float-vs-rational comparison (1e-9). "
            "Bounded: programs over 2-3 constants, arity <=2, <= ~10 choices / 600 worlds.")

CHECKS = {
    "C01": dict(
        category="exploration",
        text="Every generated program (stratified, cyclic, ADs, evidence, non-ground queries; plus the propositional "
             "family of all three C02 classes) is run through the real default pipeline and the recorded answers / "
             "error are judged by TLC against the distribution semantics defined in spec/Semantics.tla (exact "
             "possible-world enumeration with well-founded models). A VIOLATION is a Layer-A fact about recorded "
             "output: wrong probability, missing instance, answered inconsistent evidence, crash, wrong error.",
        design_ref="DESIGN.md §4 C01",
        note=SEM_NOTE,
        technique="TLA+ spec (Semantics.tla) evaluated by TLC as reference enumerator on recorded implementation runs",
    ),
}

def _sem(text, ref, technique=None, note=SEM_NOTE, category="exploration"):
    return dict(category=category, text=text, design_ref=ref, note=note,
                technique=technique or "TLA+ spec (Semantics.tla) evaluated by TLC as reference on recorded implementation runs")

CHECKS.update({
    "C02": _sem("Programs with predicate-level negative loops (plus propositional family) are classified by TLC from "
                "spec/Semantics.tla into must-answer (no cycle through negation in the full ground dependency graph), "
                "must-reject (a query/evidence atom undefined in the well-founded model of every positive-weight world) "
                "and either; the real system's accept/reject decision and, for must-answer programs, its numbers are "
                "judged against that class.", "DESIGN.md §4 C02"),
    "C03": _sem("Layer B: Engine.tla (stage 1) models the main loop of StackBasedEngine message by message on acyclic "
                "propositional programs (eval_define / clause / fact / call / conj / neg, EvalDefine / EvalAnd / EvalNot, table, "
                "pointer discipline, the builder of FormulaBuilderOps as target); TLC checks ResultCorrect and TableSound for "
                "every program of the family, every query sequence and every order of every sibling batch. Every terminal "
                "behaviour is replayed on the real engine with the same schedule and compared message by message. Beyond that "
                "fragment: every batch of sibling 'e' messages pushed by the default engine is permuted (seeded) through the "
                "documented init_message_stack extension point on generated programs (cycles, ADs, non-ground, evidence); each "
                "permuted run is judged by Semantics.tla and compared with the unpermuted run.", "DESIGN.md §4 C03",
                category="model_checking",
                technique="TLC model checking of an implementation-shaped TLA+ model of the engine loop over all sibling schedules, "
                          "spec->code replay of every explored behaviour, schedule permutation of the real engine + TLA+ Semantics oracle"),
    "C04": _sem("Unbuffered depth-first, rc_first and the documented random-order engine are run on every generated "
                "program, judged by Semantics.tla and compared with the default engine.", "DESIGN.md §4 C04",
                technique="engine-mode matrix on the real engine + TLA+ Semantics oracle (TLC)"),
    "C05": _sem("Every available exact evaluatable (here: d-DNNF via dsharp; SDD family needs PySDD which is absent) x "
                "{probability, log-probability, user-defined, NSP variant, symbolic} semiring is judged against the "
                "exact rational computed by TLC, and cells are compared with the default.", "DESIGN.md §4 C05",
                note=SEM_NOTE + " SDD/BDD back ends cannot run here (PySDD not installed): not decided."),
    "C06": _sem("Option vectors over propagate_evidence, propagate_weights, label_all, avoid_name_clash, keep_order, "
                "keep_all, keep_duplicates, hide_builtins, log/normal space and the evidence spellings; each run is "
                "judged by Semantics.tla and compared with the default run.", "DESIGN.md §4 C06"),
    "C07": _sem("Seeded permutations of statements, clauses and body literals (negated literals kept after their "
                "binders); Layer A is order-free, so one TLC judgement serves all permutations; each permuted text is "
                "run and judged.", "DESIGN.md §4 C07"),
    "C08": _sem("Histories of engine.ground/engine.query calls on one shared target formula and one prepared ClauseDB "
                "(all orders of queries and evidence up to a cap, with interleaved throw-away queries), and fresh "
                "single-query groundings, judged by Semantics.tla and compared with the default pipeline. The engine's goal table "
                "(DefineCache) is model checked against its variant-class meaning (DefineCache.tla) and every explored call "
                "history is replayed on the real class.",
                "DESIGN.md §4 C08", technique="API-call histories replayed on the real engine + TLA+ Semantics oracle (TLC); TLC refinement model of the goal table (DefineCache.tla) replayed on the real class"),
})

CHECKS["C34"] = dict(
    category="model_checking",
    text="TLC proves, for every history in bounds, that the concrete representations transcribed from util.py "
         "(doubly linked list + map, array heap + index with _swim_up/_sink_down, bit blocks) refine the abstract "
         "models (sequence without duplicates in first-insertion order, map item->key with pop = a minimum, set of "
         "naturals) - spec/Containers*.tla. The real classes are bound to the spec by trace validation: thousands of "
         "recorded call histories (bounded-exhaustive + random) are replayed by TLC against the abstract model "
         "(ContainersTrace.tla, REJECT = violation) and against the concrete model (drift only).",
    design_ref="DESIGN.md §4 C34",
    note="Bounds: OrderedSet 4 keys x 2 sets; UHeap 4 items x 4 keys x <=7 ops; BitVector block size 2 in the model "
         "(32 in the trace spec). Trusted: recording wrapper, JSON transport, TLC.",
    technique="TLA+ refinement model checking (TLC) + trace validation of recorded executions of the real classes",
)

CHECKS["C30"] = _sem("Programs with annotations inside, on and outside [0,1] (literal and arithmetic-expression "
                     "annotations, AD sums 0.9/1.0/1.1+) where the offending atom is queried directly; validity is "
                     "decided by Semantics!ValidAnnotation in TLC; invalid => InvalidValue expected under both the "
                     "probability and log-probability semiring, valid (incl. boundary) => C01 numbers.",
                     "DESIGN.md §4 C30")

CHECKS["C11"] = dict(
    category="model_checking",
    text="Layer B: FormulaBuilder.tla is a state machine transcribed branch by branch from LogicFormula (add_atom, "
         "_add_compound's compaction cascade, the three hash-consing indexes, add_disjunct with max_arity splitting, "
         "negate); TLC checks MeaningPreserved (every key ever returned keeps the well-founded meaning of its call, also "
         "after later add_disjunct calls) in every state of every call history within the bound, for five option vectors. "
         "Every explored history is exported and replayed on the real class (keys and node tables must be the model's); "
         "random and scenario histories recorded from the real class are validated step by step against the model "
         "(JudgeBuilderTrace.tla) and judged by Layer A (JudgeBuilder.tla over AOG.tla). Only Layer A says VIOLATION; a "
         "model/code mismatch is drift and triggers the Layer-A judgement of the real data.",
    design_ref="DESIGN.md §4 C11",
    note="Trusted: TLC + AOG.tla well-founded valuation, the recording wrapper. Exhaustive part: 2 atoms + 2 (thorough: 3) "
         "further calls with <= 2 children; random histories <= 9 calls over 3 atoms; no cycles through negation; node names "
         "are not modelled; add_disjunct's own return value is not treated as a key.",
    technique="TLC model checking of an implementation-shaped TLA+ builder model, spec->code replay of all explored histories, "
              "code->spec trace validation, Layer-A judge on recorded histories",
)

_TV_NOTE = ("Trusted: TLC + spec/AOG.tla, Circuit.tla, the artefact dumper (public iteration over formulas, "
            "CNF.to_dimacs text re-parsed by the harness). Exhaustive per instance up to 8 atoms / 12 CNF variables; "
            "larger instances are skipped and counted. Atom weights compared for equality in the harness.")
CHECKS["C09"] = dict(
    category="translation_validation",
    text="Each LogicFormula the engine produces from generated programs (incl. cyclic ones) is pushed through the real "
         "break_cycles and clarks_completion; TLC (JudgeCircuit.tla) decides for every instance, exhaustively over atom "
         "assignments: DAG acyclic and every query/evidence node has the well-founded value of the cyclic source; the CNF "
         "has exactly one model extending each constraint-allowed atom assignment and it agrees with the DAG on every "
         "node; AD constraints appear as exactly-one clauses; weights unchanged.",
    design_ref="DESIGN.md §4 C09", note=_TV_NOTE,
    technique="translation validation of every transformation instance by TLC against TLA+ definitions (AOG.tla, Circuit.tla)")
CHECKS["C10"] = dict(
    category="translation_validation",
    text="Each (CNF, DDNNF) pair produced by the real dsharp compilation path (to_dimacs, _load_nnf, trivial-CNF path) is "
         "judged by TLC: decomposable, deterministic (no assignment makes two OR children true), smooth, same models as "
         "the CNF over all 2^n assignments, labels point to the same literals (or FALSE only if the literal is false in "
         "every model), weights carried over.",
    design_ref="DESIGN.md §4 C10", note=_TV_NOTE + " dsharp itself is outside the repository.",
    technique="translation validation of every compiled circuit by TLC against TLA+ d-DNNF definitions (Circuit.tla)")

_TERM_NOTE = ("Trusted: TLC + spec/TermAlgebra.tla (Robinson mgu with occurs check, variants, standard order), the term "
              "renderer / result converter (vlib/terms.py). Bounded universe: depth <= 2 over atoms, quoted atoms, ints, "
              "dyadic floats, strings, f/1, g/2, lists, 3 variables; sampled pairs. No SWI-Prolog in the sandbox: the TLA+ "
              "module is the reference.")
CHECKS["C14"] = dict(
    category="exploration",
    text="Term pairs (universe pairs, mutated copies, occurs-check shapes) are run on the real engine four ways - X = Y, "
         "X \\= Y, call against a fact head, call against a rule head - and TLC judges every outcome with TermAlgebra!Mgu: "
         "success iff unifiable, bindings a variant of the mgu, \\= the complement of =, an error only where some "
         "unification order needs an occurs-check violation.",
    design_ref="DESIGN.md §4 C14", note=_TERM_NOTE,
    technique="TLA+ reference unifier (TermAlgebra.tla) evaluated by TLC on recorded outcomes of the real engine")
CHECKS["C15"] = dict(
    category="exploration",
    text="compare/3, @<, @=<, @>, @>=, ==, \\== on a full number grid (multi-digit, negative, float/int ties) and sampled "
         "pairs of ground terms and variable-vs-term pairs, and sort/2 on random lists, are judged by TLC against "
         "TermAlgebra!StdCmp / SortUnique.",
    design_ref="DESIGN.md §4 C15", note=_TERM_NOTE + " Strings and the order among distinct variables are not judged.",
    technique="TLA+ standard-order definition (TermAlgebra.tla) evaluated by TLC on recorded outcomes of the real builtins")

CHECKS["C18"] = dict(
    category="exploration",
    text="All pairs and sampled triples of objects built with the public constructors and the parser (Term, "
         "Constant(int|float|str), Var, Not with both spellings, list2term, Term.from_string; atoms vs quoted atoms, 1 vs '1' "
         "vs 1.0, nested compounds): the recorded ==/hash matrices and ProbLog's own unify_value verdicts are judged by TLC "
         "(JudgeTerms!JudgeEq): reflexive, symmetric, transitive, equal => equal hash, ground equal <=> unification-identical.",
    design_ref="DESIGN.md §4 C18", note=_TERM_NOTE,
    technique="TLA+ equivalence/hash-consistency laws evaluated by TLC on recorded equality and hash matrices")
CHECKS["C16"] = dict(
    category="exploration",
    text="Every documented non-transcendental evaluable functor on a grid of integers and half-valued floats (all argument "
         "pairs), random expression trees, the six arithmetic comparisons and between/3 in both modes are run on the real "
         "engine; TLC judges value and result type against Arith.tla (truncating //, floor div/mod, rem = mod as documented, "
         "round/integer half away from zero, float parts, shifts and bitwise ops, powers); division by zero must be a "
         "ProbLog error; no internal exception may escape.",
    design_ref="DESIGN.md §4 C16",
    note="Trusted: TLC + spec/Arith.tla (exact arithmetic in quarters), expression renderer. Transcendental functions and "
         "values off the quarter grid are not decided; '/', min, max, sign, **, ^ compared by value only (Yap/SWI differ on "
         "type); Prolog type errors (float operand of //, mod, bitwise ops) are not required to be errors. The term-inspection "
         "builtins (functor/3, arg/3, =../2, length/2, succ/2, plus/3, atom_number/2, type tests) are not yet covered.",
    technique="TLA+ arithmetic semantics (Arith.tla) evaluated by TLC on recorded results of is/2 and comparisons")

CHECKS["C25"] = dict(
    category="translation_validation",
    text="The ProbLog text written by the ground task (to_prolog, with and without cycle breaking) is re-parsed and "
         "re-evaluated by the real system; its answers are judged against the exact probabilities TLC computes for the "
         "ORIGINAL program (Semantics.tla) and compared with the direct run. The exported DIMACS is re-read and TLC checks "
         "it has exactly the models of the internal CNF (JudgeDimacs.tla).",
    design_ref="DESIGN.md §4 C25", note=SEM_NOTE + " --compact ('may remove some predicates') is not part of the property.",
    technique="translation validation: exported artefacts re-evaluated and judged by TLC against the TLA+ semantics of the source")
CHECKS["C26"] = _sem("Every query of a generated program becomes a deterministic wrapper rule calling subquery/2, and "
                     "subquery/3 with the program's evidence as evidence list; the bound probability of every answer is "
                     "judged against the exact (conditional) probability computed by TLC.", "DESIGN.md §4 C26")

CHECKS["C29"] = _sem("Layer B: ClauseDB.tla models the node table, offsets, head tables, redirects and the copy-on-extend of "
                     "clausedb.py over propositional predicates; TLC checks that every database shows exactly the clauses of "
                     "itself and its ancestors (through find / get_node, as the engine navigates) and that calls compiled in an "
                     "ancestor reach the extension's definition - and finds the nested-extension counterexample in the pre-fix "
                     "get_node. Every explored history and deeper random ones are executed on real ClauseDB objects and each "
                     "database's view is judged after every operation (JudgeClauseDB.tla). Semantic histories: extend() (also "
                     "nested), additions of facts / rules / ADs (also as first statements of nested extensions), interleaved "
                     "queries on the extension and on its ancestors, every result judged by TLC (Semantics.tla) on the program "
                     "that database denotes, which implies equality with preparing the union from scratch.",
                     "DESIGN.md §4 C29", category="model_checking",
                     technique="TLC model checking of an implementation-shaped TLA+ model of ClauseDB, spec->code replay of all explored "
                               "histories, Layer-A judges (structure and distribution semantics) on recorded histories")

CHECKS["C13"] = dict(
    category="exploration",
    text="(a) Generated non-recursive Prolog programs (facts with constants, integers, compounds and variables; rules with "
         "conjunction, disjunction, negation, =/2; findall/3 wrappers): the answers of the real engine are judged by TLC "
         "against the SLD interpreter of spec/SLD.tla - answer set for top-level queries, order and duplicates for findall "
         "lists. (b) Probability-free recursive programs (tabling) are judged by Semantics.tla: reported with probability 1 "
         "iff in the least model.",
    design_ref="DESIGN.md §4 C13", note=_TERM_NOTE + " " + SEM_NOTE,
    technique="TLA+ SLD interpreter (SLD.tla) and least-model semantics (Semantics.tla) evaluated by TLC on recorded answers")

CHECKS["C22"] = dict(
    category="exploration",
    text="The real sampler's random source is scripted so that every branch of coin outcomes is executed exactly once, with "
         "random() values placed just below / above / exactly at the threshold the code is about to use (fact: r < p; AD "
         "member: r <= p_i / remaining mass). Per branch the printed probability must equal the product of the choices "
         "made; per program the branch masses sum to 1, the accepted mass equals P(evidence) and the accepted mass where a "
         "query is true equals its conditional probability, the exact numbers coming from TLC (Semantics.tla). This decides "
         "the distribution claim exactly, without statistics.",
    design_ref="DESIGN.md §4 C22", note=SEM_NOTE + " One iteration of tasks.sample.sample is mirrored; continuous "
    "distributions and sample/value/previous builtins are not covered.",
    technique="exhaustive enumeration of the real sampler's coin branches (scripted randomness) judged by the TLA+ Semantics oracle (TLC)")

CHECKS["C33"] = dict(
    category="exploration",
    text="Indexed rule sets r(I, ...) with indices from 1..15 in shuffled file order and applicability conditions; the answers "
         "of cut/2 on the real library are judged by TLC against CutAnswers (JudgeSLD.tla over SLD.tla): the answers of the "
         "applicable rule with the smallest index in standard order, and that index.",
    design_ref="DESIGN.md §4 C33", note=_TERM_NOTE, technique="TLA+ definition of the soft cut over the SLD interpreter, evaluated by TLC on recorded answers")
CHECKS["C28"] = dict(
    category="exploration",
    text="PyPl.tla transcribes py2pl/pl2py; TLC checks on a bounded value universe that the encoding round-trips for every "
         "value without a tuple in the last position of a tuple, and finds the counterexample otherwise (design level). The "
         "real pl2py(py2pl(v)) and problog_export'ed functions returning v are executed on a bounded-exhaustive + random "
         "universe (ints, floats, strings with quotes, nested lists / tuples) and judged by TLC (JudgePyPl.tla).",
    design_ref="DESIGN.md §4 C28", note="Trusted: TLC, the value (de)serialiser of the harness. Depth <= 3; floats on the quarter grid.",
    technique="TLA+ model of the value encoding checked by TLC + recorded round trips of the real functions judged by TLC")

CHECKS["C12"] = dict(
    category="exploration",
    text="SemiringA.tla defines the probability semiring over exact rationals and TLC checks the commutative-semiring laws on "
         "a grid at the specification level; every operation (plus, times, negate, normalize, value, ad_complement, one, zero) "
         "on all pairs of a rational grid plus near-boundary values is executed on the real SemiringProbability, "
         "SemiringLogProbability (through log/exp) and SemiringSymbolic (expression evaluated) and compared with TLC's exact "
         "result; base-class defaults is_one(one()), is_zero(zero()), normalize(a, one()) = a are checked on a minimal subclass.",
    design_ref="DESIGN.md §4 C12", note="Trusted: TLC exact rational arithmetic (32-bit), float comparison 1e-9 (1e-8 for log). Float "
    "accuracy off the grid (log1p/exp) is not decided.",
    technique="TLA+ exact semiring model (laws checked by TLC) used as pointwise oracle for the real semirings")

CHECKS["C32"] = dict(
    category="exploration",
    text="select_weighted/5, select_weighted/4, select_uniform/4 on lists of length 1-6 with integer weights (equal elements "
         "included), plus pairs of calls with the same identifier (must make the same choice) and different identifiers "
         "(independent): the probability of every (Value, Rest) answer reported by the real library is compared with the "
         "documented distribution computed exactly by TLC (SelectA.tla).",
    design_ref="DESIGN.md §4 C32", note="Trusted: TLC integer arithmetic, answer-name rendering.",
    technique="TLA+ definition of the documented distribution evaluated by TLC, compared with the real library's answers")

CHECKS["C19"] = dict(
    category="exploration",
    text="Programs with ground probabilistic facts (duplicates allowed), a ground AD, deterministic facts and non-recursive "
         "rules, and a wrapper built by findall/3 or all/3: JudgeFindall.tla enumerates every possible world, runs the world's "
         "program through the SLD interpreter (SLD.tla) and sums exact world weights per ordered result list; the real "
         "system's list probabilities are compared with it (strictly; deviations that keep the distribution over solution "
         "multisets / sets are classified as the known tabling deviations).",
    design_ref="DESIGN.md §4 C19", note=_TERM_NOTE, technique="TLA+ per-world SLD semantics with exact weights evaluated by TLC on recorded answers")

CHECKS["C20"] = dict(
    category="exploration",
    text="Propositional programs (facts, body-free ADs, rules with negation, positive/negative evidence on derived and choice "
         "atoms, every choice atom queried) are run through both MPE modes; JudgeMPE.tla (over Semantics.tla) computes exactly "
         "P(evidence), the weight of the most probable evidence-satisfying world, the best such world consistent with the "
         "returned assignment and that assignment's marginal; verdict clauses: unsatisfiable reported iff P(evidence) = 0, the "
         "assignment is extendable to a most probable world, the reported probability is that world's or the assignment's.",
    design_ref="DESIGN.md §4 C20", note=SEM_NOTE + " MaxSAT quantisation: worlds within 0.1% of the optimum accepted.",
    technique="TLA+ possible-world semantics (max over worlds) evaluated by TLC on recorded MPE answers")

CHECKS["C21"] = dict(
    category="model_checking",
    text="LocalSearch.tla transcribes search_local (one step per evaluate call); TLC explores every score table over the "
         "strategies of N decisions and every start: the search terminates and ends in a strategy no single flip improves. The "
         "real search_local is replayed on scripted score tables and judged (JudgeDT.tla): local optimum (verdict), same end "
         "state and number of evaluations as the transcription (drift). Generated decision-theoretic programs: JudgeDT.tla "
         "computes the exact expected utility of every strategy from Semantics.tla; exhaustive search must return a maximiser "
         "with its EU as score, local search a strategy whose single flips do not improve it.",
    design_ref="DESIGN.md §4 C21", note=SEM_NOTE + " MAP (tasks/map.py) is not decided. LocalSearch bounds: N<=3 decisions, scores 0..3.",
    technique="TLA+ model of the local search checked exhaustively by TLC + replay of the real search on scripted scores + TLA+ EU oracle")

CHECKS["C31"] = dict(
    category="translation_validation",
    text="For evidence-free generated programs the network built by the bn task (formula_to_bn on the LogicDAG, OrCPTs expanded "
         "by the tool's own to_factor) is recorded; JudgeBN.tla checks that every CPT row is a distribution, that the network is "
         "well formed and acyclic, multiplies the CPTs out exactly and compares the marginal of every exported query variable "
         "with the exact probability from Semantics.tla.",
    design_ref="DESIGN.md §4 C31", note=SEM_NOTE + " CPT entries must be multiples of 0.1; <= 8 non-deterministic CPTs.",
    technique="translation validation of the exported network by TLC against the TLA+ distribution semantics")

CHECKS["C27"] = dict(
    category="exploration",
    text="Every builtin the engine registers (list read at run time; I/O and file-system builtins excluded) is called with "
         "argument shape vectors drawn from the term algebra of TermAlgebra.tla (variable, atom, integers, float, string, proper / "
         "partial list, compound, conjunction, callable and undefined goals); generated programs are mutated token-wise (delete, "
         "duplicate, swap, insert, replace) and parsed and run; targeted user errors (undefined predicates, non-ground "
         "probabilistic clauses, invalid probabilities). Verdict: result or ProbLogError subclass; any other exception class is a "
         "violation identified by exception class and raise site.",
    design_ref="DESIGN.md §4 C27", note="Exploration over a structured, bounded input set (not all strings). The spec contributes the "
    "shape classes; the verdict (exception class is a ProbLogError) is evaluated by the harness.",
    technique="spec-guided generation (term shape classes of the TLA+ term algebra) with an exception-class oracle")

CHECKS["C17"] = dict(
    category="exploration",
    text="ASTs over the operator table (33 binary and 3 prefix operators, compounds, lists, quoted atoms, strings, numbers, "
         "variables, clauses) are written as fully parenthesised text, parsed, printed with str() and parsed again; TLC "
         "(TermAlgebra!Variant via JudgeTerms) decides (a) parsed term = AST, (b) re-parsed term = parsed term. Totality: "
         "token-level mutations (delete, duplicate, swap, insert, replace, truncate) of generated programs and of printed terms "
         "must parse or raise a ProbLogError subclass.",
    design_ref="DESIGN.md §4 C17", note=_TERM_NOTE + " Totality over all strings is approximated by structured token mutations.",
    technique="TLA+ term equality up to renaming (TermAlgebra.tla) evaluated by TLC on recorded parse/print/parse round trips")

NOT_YET = "check not built yet in this round (planned in DESIGN.md §5); not claimed"
NOT_APPLICABLE = {}

CHECKS["C23"] = dict(
    category="exploration",
    text="Evidence-free generated programs (C01 generator, AD family, cyclic family). The k-best evaluator is run to "
         "completion and with convergence thresholds 0.5 / 0.1; every reported value or interval is compared with the exact "
         "probability computed by TLC from Semantics.tla: lower <= P <= upper, a single value equals P, complete runs are "
         "tight. With explain=[] the proof blocks are read back: per query the proof probabilities sum to P, and the block "
         "is printed under the query's own name.",
    design_ref="DESIGN.md §4 C23", note=SEM_NOTE + " The search schedule inside Border.update (which proof MaxSAT returns "
    "next) is not modelled; its soundness is judged on the reported bounds.",
    technique="differential check of the k-best bounds / explanation sums against the TLA+ Semantics oracle (TLC)")

CHECKS["C24"] = dict(
    category="exploration",
    text="Generated programs with 1-3 tunable facts (explicit or random initial value), fixed probabilistic facts, an optional "
         "tunable annotated disjunction (with / without body, optionally with a fixed head) and derived atoms with negation; "
         "3-10 examples sampled from a reference distribution, completely or partially observed. LFIProblem is stepped six "
         "times under three option sets (CLI defaults, API defaults, log space); the recorded history (log-likelihood and all "
         "parameters after every iteration) is judged by TLC (JudgeLFI.tla): no decrease, every parameter in [0,1], AD sums, "
         "complete-data relative frequencies. For AD-free programs the first update is additionally compared with the exact "
         "EM update computed from Semantics.tla posteriors.",
    design_ref="DESIGN.md §4 C24", note="Histories are passed to TLC in micro-units (tolerance 2e-6). Runs that abort with an "
    "error report no history and are counted, not judged. Non-ground tunable facts and t(_,X) parameters are not generated.",
    technique="recorded learning histories judged by a TLA+ judge (TLC) plus an exact first-step EM oracle from the TLA+ Semantics spec")

# --- extensions of the checks after round 1 (appended to the texts above) -------------------------------------------
CHECKS["C03"]["text"] = (
    "Layer B: Engine.tla models the main loop of StackBasedEngine message by message on propositional programs with "
    "positive cycles, cycles under negation, negative loops and nested cycles (eval_define / clause / fact / call / conj / "
    "neg; EvalDefine / EvalAnd / EvalNot records; the message stack with e/r/c messages; the define table incl. entries of "
    "active goals; cycle_root, cycle children, cycle_close, checkCycle on table hits; the builder of FormulaBuilderOps as "
    "target). TLC checks ResultCorrect (every reported node has the well-founded meaning of its query), TableSound, NoError, "
    "NegCycleOnlyWhenCyclic, AnsweredOnlyWhenDefined, StackEmpty and NoDanglingMessages for every program of each family, "
    "every query sequence, every order of every sibling batch and every closing order of a cycle. The pre-repair engine "
    "variants are kept as configurations that must yield a counterexample (vacuity guard). Every terminal behaviour is "
    "exported and replayed on the real engine with the same schedule and compared message by message (drift => Layer-A "
    "judgement by JudgeEngine.tla). Beyond that fragment: every batch of sibling 'e' messages pushed by the default engine "
    "is permuted (seeded) through the documented init_message_stack extension point on generated programs (cycles, ADs, "
    "non-ground, evidence); each permuted run is judged by Semantics.tla and compared with the unpermuted run.")
CHECKS["C03"]["note"] = (SEM_NOTE + " Engine.tla bounds: <= 3 (thorough: 4) propositional predicates, <= 2 clauses per predicate, "
                         "<= 2 body literals, <= 3 queries; ADs, non-ground goals and the unbuffered modes are not modelled.")
for _k in ("C01", "C07", "C08"):
    CHECKS[_k]["text"] += (" Additional family: calls and heads with repeated variables and partially instantiated arguments "
                           "(p(X,X), p(X,a), chains through repeated-variable heads).")
CHECKS["C12"]["text"] += (" Random expression trees over plus/times/negate and n-ary sums/products are evaluated on the real "
                          "semirings and compared with SemiringA!EvalX.")
CHECKS["C17"]["text"] += (" Literal forms (signed numbers, exponents, quoted atoms that look like numbers or operators, control "
                          "operators nested as arguments) are a separate family; every mismatch is reduced to its culprit "
                          "parent/child operator edge, which is the identity used for known findings.")
CHECKS["C18"]["text"] += " The == matrix is recorded before and after all hashes are taken; the two must be the same."
CHECKS["C20"]["text"] += (" Case signatures carry the program's structure (AD present, conjunctions over disjoint choices, negation, "
                          "all choices relevant); a read-once family isolates the evaluator from the MaxSAT encoding; "
                          "a contradictory-evidence family (both signs on one choice atom) must be reported unsatisfiable.")
CHECKS["C25"]["text"] += " Programs with duplicated probabilistic statements are included."
CHECKS["C26"]["text"] += (" Both kinds of wrapper are also put in ONE program, in either query order: a subquery must not see the "
                          "evidence or queries of another.")
CHECKS["C27"]["text"] += " Literal forms of numbers / strings / quoted atoms and extra junk tokens are part of the mutation alphabet."
CHECKS["C28"]["text"] += (" Exported functions with several outputs are called under every binding mode of the outputs: ProbLog must "
                          "report exactly the Python results that agree with the bound arguments.")
CHECKS["C31"]["text"] += " Families with AD heads inside conjunctions and ADs whose heads collapse to one atom are included."
CHECKS["C33"]["text"] += (" Probabilistic rule sets: the probability of every cut/2 answer is compared with the exact value TLC "
                          "computes per possible world (JudgeCutProb.tla over Cut.tla).")
CHECKS["C09"]["text"] += (" Layer B: BreakCycles.tla transcribes cycles.py (_break_cycles with its ancestors / cycles_broken / content "
                          "bookkeeping and the memo-reuse condition) onto the builder model of FormulaBuilderOps.tla; TLC checks MeaningPreserved, "
                          "TargetAcyclic and MemoSound for every cyclic source graph of the family without a cycle through negation, every "
                          "sequence of labelled nodes (queries, then evidence with a fresh memo table) and every atom assignment; the variant "
                          "without the cycles_broken half of the reuse test must yield a counterexample. Every explored behaviour is replayed on the "
                          "real break_cycles (registered keys and target node table must be the model's) and random larger graphs run on the real "
                          "code are validated against the model and judged by Layer A (JudgeBreakCycles.tla); only Layer A says VIOLATION.")
CHECKS["C09"]["technique"] += "; TLC model checking of an implementation-shaped TLA+ model of break_cycles with spec->code replay and code->spec validation"
CHECKS["C05"]["text"] += (" Layer B: DDNNFEval.tla models one SimpleDDNNFEvaluator object (weights, cache_intermediate, set_evidence, "
                          "_set_value / _reset_value, normalisation rule) with one action per public call; TLC checks InitCorrect, ResultsCorrect "
                          "(value = ratio of weighted model counts), EvidenceCorrect, WeightsRestored and CacheSound over the smooth decision-DNNF "
                          "of every boolean function of 2-3 atoms, weight vectors incl. 0/1/neutral, evidence lists, query sequences, probability "
                          "and NSP; two mutated variants must fail. All explored behaviours are replayed on the real evaluator and random larger "
                          "instances are validated by JudgeDDNNFEval.tla (Layer-A fractions = verdict, model values = drift).")
CHECKS["C05"]["technique"] += "; TLC model checking of a TLA+ model of the d-DNNF evaluator with spec->code replay and code->spec validation"
CHECKS["C06"]["text"] += (" Layer B: Propagate.tla models LogicFormula.propagate (the code behind propagate_evidence) with its set-valued work "
                          "queue as nondeterminism; TLC checks Sound (every propagated value is entailed by the evidence under the well-founded "
                          "valuation) over all graphs with 2 atoms + 2 compound nodes, cyclic ones included; the real call must end in one of the "
                          "model's terminal states on every explored input and random larger graphs are judged by JudgePropagate.tla. A family of "
                          "programs built around evidence propagation (several evidence literals of both signs on facts, AD heads and derived "
                          "atoms, every atom queried, exactly-one ADs with negative evidence) is run under every option vector.")
CHECKS["C06"]["technique"] += "; TLC model checking of a TLA+ model of evidence propagation with spec->code replay"
CHECKS["C04"]["text"] += (" A fixed corpus of 290 cyclic programs (generated cyclic programs, a family of mutual recursion entered from both "
                          "sides, the cyclic family) is run under unbuffered, rc_first and five fixed random orders independently of the run's seed: the "
                          "(program, mode) pairs on which the pinned tree's unbuffered modes already fail are listed one by one "
                          "(tools/c04_corpus_known.json, known finding KF38), every other failing pair is a violation.")
for _k, _what in (("C25", "340 programs x {export, export with cycle breaking}"), ("C31", "300 programs")):
    CHECKS[_k]["text"] += (" A fixed corpus (" + _what + ", independent of the run's seed) is judged in the same way; the cases on which "
                           "the pinned tree already fails are listed one by one (tools/" + _k.lower() + "_corpus_known.json), so that the broad "
                           "signatures of the known findings of this property cannot hide a new failure there.")
CHECKS["C09"]["text"] += (" The model carries the table of propagated evidence values (lookup_evidence) and is checked for every sound table; random "
                          "graphs are also run with the real propagate filling that table, as the default pipeline does.")
CHECKS["C06"]["text"] += (" ADConstraint.tla models ConstraintAD.add under propagated evidence values / weights (TLC: Sound over all 3-head weight "
                          "vectors, orders and sound initial values; the 'any instead of all' completion rule must fail); all explored behaviours are "
                          "replayed on a real LogicFormula and random larger disjunctions are judged by JudgeADConstraint.tla.")

"""Per-property registration used to generate MANIFEST.json (tools/mkmanifest.py)."""

SEM_NOTE = ("Trusted: TLC + spec/Semantics.tla as reference (function-free fragment, exact integer weights, <=2^31 "
            "denominator), the structured-program->text renderer, the float-vs-rational comparison (1e-9). "
            "Bounded: programs over 2-3 constants, arity <=2, <= ~10 choices / 600 worlds.")

CHECKS = {
    "C01": dict(
        category="model_checking",
        text="Every generated program (stratified, cyclic, ADs, evidence, non-ground queries; plus the propositional "
             "family of all three C02 classes) is run through the real default pipeline and the recorded answers / "
             "error are judged by TLC against the distribution semantics defined in spec/Semantics.tla (exact "
             "possible-world enumeration with well-founded models). A VIOLATION is a Layer-A fact about recorded "
             "output: wrong probability, missing instance, answered inconsistent evidence, crash, wrong error.",
        design_ref="DESIGN.md §5 C01",
        note=SEM_NOTE,
        technique="TLA+ spec (Semantics.tla) evaluated by TLC as reference enumerator on recorded implementation runs",
    ),
}

NOT_YET = "check not built yet in this round (planned in DESIGN.md §5); not claimed"
NOT_APPLICABLE = {}

"""Term universe for the TermAlgebra family (C13-C18, C28, C33): JSON terms <-> ProbLog text / objects."""
import itertools
import re


def codes(txt):
    return [ord(ch) for ch in txt]


def V(n):
    return {"t": "v", "n": n}


def I(v):
    return {"t": "i", "v": v}


def F(q):          # float q/4
    return {"t": "f", "v": q}


def A(txt):
    return {"t": "a", "c": codes(txt)}


def S(txt):
    return {"t": "s", "c": codes(txt)}


def Cm(f, *args):
    return {"t": "c", "c": codes(f), "a": list(args)}


NIL = A("[]")


def L(items, tail=None):
    t = tail if tail is not None else NIL
    for x in reversed(items):
        t = Cm(".", x, t)
    return t


def txt(c):
    return "".join(chr(x) for x in c)


ATOM_RE = re.compile(r"^[a-z][a-zA-Z0-9_]*$")


def r_atom_text(t):
    s = txt(t)
    if ATOM_RE.match(s) or s == "[]":
        return s
    return "'" + s.replace("'", "''") + "'"


def is_list(t):
    while t["t"] == "c" and txt(t["c"]) == "." and len(t["a"]) == 2:
        t = t["a"][1]
    return t["t"] == "a" and txt(t["c"]) == "[]" or t["t"] == "v"


def render(t, vp="V"):
    k = t["t"]
    if k == "v":
        return "%s%d" % (vp, t["n"])
    if k == "i":
        return str(t["v"])
    if k == "f":
        return repr(t["v"] / 4.0)
    if k == "a":
        if t.get("fq"):          # the same atom written with (needless) quotes
            return "'" + txt(t["c"]).replace("'", "''") + "'"
        return r_atom_text(t["c"])
    if k == "s":
        return '"%s"' % txt(t["c"])
    f = txt(t["c"])
    if f == "." and len(t["a"]) == 2:
        items = []
        while t["t"] == "c" and txt(t["c"]) == "." and len(t["a"]) == 2:
            items.append(render(t["a"][0], vp))
            t = t["a"][1]
        if t["t"] == "a" and txt(t["c"]) == "[]":
            return "[" + ",".join(items) + "]"
        return "[" + ",".join(items) + "|" + render(t, vp) + "]"
    return "%s(%s)" % (r_atom_text(t["c"]), ",".join(render(x, vp) for x in t["a"]))


def unquote(t):
    """copy without the presentation flag 'fq' (for the judge: a quoted atom IS the atom)"""
    if t["t"] == "a":
        return {"t": "a", "c": t["c"]}
    if t["t"] == "c":
        return dict(t, a=[unquote(x) for x in t["a"]])
    return t


def has_forced_quote(t):
    return bool(t.get("fq")) or (t["t"] == "c" and any(has_forced_quote(x) for x in t["a"]))


def vars_of(t, acc=None):
    acc = [] if acc is None else acc
    if t["t"] == "v":
        if t["n"] not in acc:
            acc.append(t["n"])
    elif t["t"] == "c":
        for x in t["a"]:
            vars_of(x, acc)
    return acc


def rename(t, off):
    if t["t"] == "v":
        return V(t["n"] + off)
    if t["t"] == "c":
        return {"t": "c", "c": t["c"], "a": [rename(x, off) for x in t["a"]]}
    return t


def ground(t):
    return not vars_of(t)


def size(t):
    return 1 + (sum(size(x) for x in t["a"]) if t["t"] == "c" else 0)


EXACT_NUMBERS = False      # set by the C17 task: numbers TLC cannot hold are passed as marked strings


class TooLarge(Exception):
    """the answer is outside the size the judges handle: the case is skipped (counted), never a verdict"""


def from_problog(x, vmap=None, _depth=0):
    """Convert a ProbLog term object (engine result) into a JSON term; variables get ids via vmap."""
    if _depth > 60:
        raise TooLarge("term nested deeper than 60 levels")
    from problog.logic import Term, Constant, Var
    if vmap is None:
        vmap = {}

    def var(key):
        if key not in vmap:
            vmap[key] = 1000 + len(vmap)
        return V(vmap[key])
    if x is None:
        return var(("anon", len(vmap)))
    if isinstance(x, int) and not isinstance(x, bool):
        return var(x)
    if isinstance(x, Var):
        return var(x.name)
    if isinstance(x, Constant):
        v = x.functor
        if isinstance(v, bool):
            return A(str(v))
        if isinstance(v, int):
            if abs(v) >= 2 ** 30 and EXACT_NUMBERS:
                return S("#int:%d" % v)            # beyond TLC's 32-bit integers: compared as text
            return I(v)
        if isinstance(v, float):
            q = v * 4
            if v == v and abs(v) < 2.0 ** 28 and q == int(q):
                return F(int(q))
            if EXACT_NUMBERS:
                return S("#float:%r" % v)          # off the quarter grid: compared as text (repr is exact)
            return {"t": "f", "v": 0, "raw": repr(v)}
        s = str(v)
        if len(s) >= 2 and s[0] == '"' and s[-1] == '"':
            return S(s[1:-1])
        return A(s)
    if isinstance(x, Term):
        f = str(x.functor)
        if len(f) >= 2 and f[0] == "'" and f[-1] == "'":
            f = f[1:-1].replace("''", "'")
        if x.arity == 0:
            if len(f) >= 2 and f[0] == '"' and f[-1] == '"':
                return S(f[1:-1])
            return A(f)
        if f == "." and x.arity == 2:
            # a list: walk the spine iteratively (long findall results must not hit the depth guard)
            elems, cur = [], x
            while isinstance(cur, Term) and not isinstance(cur, Constant) and str(cur.functor) == "." and cur.arity == 2:
                elems.append(from_problog(cur.args[0], vmap, _depth + 1))
                cur = cur.args[1]
                if len(elems) > 40:
                    raise TooLarge("list longer than 40 elements")
            out = from_problog(cur, vmap, _depth + 1)
            for e in reversed(elems):
                out = {"t": "c", "c": codes("."), "a": [e, out]}
            return out
        return {"t": "c", "c": codes(f), "a": [from_problog(a, vmap, _depth + 1) for a in x.args]}
    raise TypeError("cannot convert %r" % (x,))


# ------------------------------------------------------------------ universes

def leaves(with_vars=True, rich=True):
    out = [A("a"), A("b"), I(0), I(1), I(-1), I(10), F(4), F(2), A("A b"), S("s"), NIL]
    if rich:
        out += [I(2), I(9), F(40), A("aa"), A("B"), S("a")]
    if with_vars:
        out += [V(1), V(2), V(3)]
    return out


def universe(depth=1, with_vars=True, cap=None, rng=None, rich=False):
    base = leaves(with_vars, rich)
    terms = list(base)
    cur = list(base)
    for _ in range(depth):
        small = cur if len(cur) <= 14 else (rng.sample(cur, 14) if rng else cur[:14])
        new = []
        for x in small:
            new.append(Cm("f", x))
        for x, y in itertools.product(small, repeat=2):
            new.append(Cm("g", x, y))
            new.append(Cm(".", x, y))
        for x in small[:6]:
            new.append(L([x, A("b")]))
            new.append(L([x], V(3)) if with_vars else L([x, x]))
        terms += new
        cur = new
    # dedupe
    seen = set()
    out = []
    import json
    for t in terms:
        k = json.dumps(t, sort_keys=True)
        if k not in seen:
            seen.add(k)
            out.append(t)
    if cap and len(out) > cap and rng:
        out = base + rng.sample(out[len(base):], cap - len(base))
    return out

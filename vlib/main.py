"""./check <ID> [--tier quick|thorough] [--replay path] [--seed N]

exit 0: property held on everything explored (KNOWN-FINDING lines possible)
exit 1: at least one unlisted violation (VIOLATION property=<ID> replay=<path>)
exit 2: machinery failure (never a property verdict)"""
import argparse
import importlib
import os
import sys
import traceback

from .core import Ctx
from .tlc import MachineryError


def main(argv=None):
    ap = argparse.ArgumentParser()
    ap.add_argument("pid")
    ap.add_argument("--tier", default=os.environ.get("VERIF_TIER", "quick"))
    ap.add_argument("--replay", default=None)
    ap.add_argument("--seed", type=int, default=None)
    ap.add_argument("--nproc", type=int, default=int(os.environ.get("VERIF_NPROC", "16")))
    a = ap.parse_args(argv)
    seed = a.seed
    if seed is None:
        try:
            seed = int(os.environ.get("VERIF_SEED", "0"))
        except ValueError:
            seed = 0
    tier = a.tier if a.tier in ("quick", "thorough") else "quick"
    pid = a.pid.upper()
    try:
        mod = importlib.import_module("vlib.checks.%s" % pid.lower())
    except ImportError:
        traceback.print_exc()
        print("no check for %s" % pid)
        return 2
    ctx = Ctx(pid, tier, seed, a.nproc, a.replay)
    # ProbLog's d-DNNF compilation leaves its temporary .cnf files behind (thousands per run): give this run and its worker
    # processes a private temporary directory under /verif/out and remove it at the end
    import shutil
    import tempfile
    from .core import OUT
    os.makedirs(os.path.join(OUT, "tmp"), exist_ok=True)
    tmpdir = tempfile.mkdtemp(prefix="run_%s_" % pid, dir=os.path.join(OUT, "tmp"))
    os.environ["TMPDIR"] = tmpdir
    tempfile.tempdir = tmpdir
    try:
        return _run(mod, ctx, a, pid, tier, seed)
    finally:
        shutil.rmtree(tmpdir, ignore_errors=True)


def _run(mod, ctx, a, pid, tier, seed):
    try:
        if a.replay:
            mod.replay(ctx, a.replay)
        else:
            mod.run(ctx)
    except MachineryError as e:
        print("MACHINERY-FAILURE: %s" % e)
        return 2
    except Exception:
        traceback.print_exc()
        print("MACHINERY-FAILURE: unexpected exception in harness")
        return 2
    rc = ctx.exit_code()
    print("%s tier=%s seed=%d: evaluations=%d violations=%d known=%s inconclusive=%d wall=%.1fs" % (
        pid, tier, seed, ctx.evaluations, len(ctx.violations), dict(ctx.known_hits), ctx.inconclusive,
        __import__("time").time() - ctx.t0))
    return rc


if __name__ == "__main__":
    sys.exit(main())

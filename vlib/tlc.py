"""Running TLC: batch judges (flow F-A), model checking of Layer-B modules, simulation export."""
import json
import os
import re
import shutil
import subprocess
import tempfile
import time
from concurrent.futures import ThreadPoolExecutor

VERIF = os.path.dirname(os.path.dirname(os.path.abspath(__file__)))
SPEC = os.path.join(VERIF, "spec")
OUT = os.path.join(VERIF, "out")
JAR = "/opt/veriftools/tla/tla2tools.jar:/opt/veriftools/tla/CommunityModules-deps.jar"


class MachineryError(Exception):
    """TLC / harness failure: exit 2, never a property verdict."""


def workdir(name):
    d = os.path.join(OUT, name)
    os.makedirs(d, exist_ok=True)
    return d


def _java_cmd(module, cfg=None, workers=1, extra=(), metadir=None, props=(), heap=None):
    # TLC evaluates the recursive operators of the specs (BC, WFM, EvalX, ...) on the Java stack; how many Java frames one TLA+
    # level costs depends on the JIT state, so a run close to the default 1 MB limit can overflow on one machine and pass on
    # another (check request 4: JudgeBreakCycles).  A large thread stack removes that dependence.
    cmd = ["java", "-XX:+UseParallelGC", "-Xss%s" % os.environ.get("VERIF_TLC_STACK", "256m")]
    if heap:
        cmd.append("-Xmx%s" % heap)
    for p in props:
        cmd.append("-D" + p)
    cmd += ["-cp", JAR, "tlc2.TLC", "-workers", str(workers), "-noGenerateSpecTE"]
    if metadir:
        cmd += ["-metadir", metadir]
    if cfg:
        cmd += ["-config", cfg]
    cmd += list(extra)
    cmd.append(module)
    return cmd


STATS_RE = re.compile(r"(\d+) states generated, (\d+) distinct states found, (\d+) states left on queue")
DEPTH_RE = re.compile(r"The depth of the complete state graph search is (\d+)")


def parse_stats(out):
    st = {"generated": 0, "distinct": 0, "queue": 0, "depth": 0}
    for m in STATS_RE.finditer(out):
        st["generated"], st["distinct"], st["queue"] = int(m.group(1)), int(m.group(2)), int(m.group(3))
    m = DEPTH_RE.search(out)
    if m:
        st["depth"] = int(m.group(1))
    return st


def run_tlc(module, cfg=None, env=None, workers=1, extra=(), timeout=3600, tag=None, props=(),
            heap=None, cwd=None):
    """Run TLC on spec/<module>.tla. Returns (returncode, stdout, stats)."""
    tag = tag or module
    md = tempfile.mkdtemp(prefix="md_%s_" % tag, dir=workdir("tlc"))
    e = dict(os.environ)
    e.update(env or {})
    cmd = _java_cmd(module, cfg, workers, extra, md, props, heap)
    try:
        p = subprocess.run(cmd, cwd=cwd or SPEC, env=e, stdout=subprocess.PIPE, stderr=subprocess.STDOUT,
                           timeout=timeout, text=True)
        out, rc = p.stdout, p.returncode
    except subprocess.TimeoutExpired as ex:
        out = (ex.stdout or b"").decode() if isinstance(ex.stdout, bytes) else (ex.stdout or "")
        rc = -9
    finally:
        shutil.rmtree(md, ignore_errors=True)
    return rc, out, parse_stats(out)


def coverage_counts(out):
    """Parse -coverage 1 output: {action name: (distinct, total)}."""
    res = {}
    for m in re.finditer(r"<(\w+) line \d+, col \d+ to line \d+, col \d+ of module (\w+)>: (\d+):(\d+)", out):
        name, mod, d, t = m.group(1), m.group(2), int(m.group(3)), int(m.group(4))
        a = res.get(name, (0, 0))
        res[name] = (a[0] + d, a[1] + t)
    return res


def judge_batch(module, cases, nproc=16, timeout=3000, tag=None, chunk=None, extra_env=None):
    """Flow F-A: give `cases` (list of JSON-able dicts, each with integer 'id') to the judge module.

    The module reads IOEnv.CASES_FILE and writes one ndjson line per case to IOEnv.OUT_FILE.
    Returns {id: result dict}.  Cases are split over parallel single-worker TLC processes."""
    if not cases:
        return {}
    tag = tag or module
    d = tempfile.mkdtemp(prefix="judge_%s_" % tag, dir=workdir("judge"))
    n = len(cases)
    if chunk is None:
        chunk = max(1, (n + nproc - 1) // nproc)
    parts = [cases[i:i + chunk] for i in range(0, n, chunk)]

    def one(ix):
        cf = os.path.join(d, "cases_%d.json" % ix)
        of = os.path.join(d, "out_%d.ndjson" % ix)
        with open(cf, "w") as f:
            json.dump(parts[ix], f)
        env = {"CASES_FILE": cf, "OUT_FILE": of}
        env.update(extra_env or {})
        rc, out, _ = run_tlc(module, env=env, workers=1, timeout=timeout, tag="%s_%d" % (tag, ix))
        if rc != 0 or not os.path.exists(of):
            # one retry: a transient JVM / file-system hiccup must not turn into a (machinery) failure
            rc, out, _ = run_tlc(module, env=env, workers=1, timeout=timeout, tag="%s_%d_r" % (tag, ix))
        if rc != 0 or not os.path.exists(of):
            raise MachineryError("TLC judge %s failed (rc=%s):\n%s" % (module, rc, out[-3000:]))
        res = []
        with open(of) as f:
            for line in f:
                line = line.strip()
                if line:
                    res.append(json.loads(line))
        if len(res) != len(parts[ix]):
            raise MachineryError("TLC judge %s returned %d results for %d cases" % (module, len(res), len(parts[ix])))
        return res

    try:
        with ThreadPoolExecutor(max_workers=nproc) as ex:
            allres = list(ex.map(one, range(len(parts))))
    finally:
        shutil.rmtree(d, ignore_errors=True)
    byid = {}
    for rs in allres:
        for r in rs:
            byid[r["id"]] = r
    return byid


def sany_ok(module):
    p = subprocess.run(["java", "-cp", JAR, "tla2sany.SANY", module + ".tla"], cwd=SPEC,
                       stdout=subprocess.PIPE, stderr=subprocess.STDOUT, text=True)
    return p.returncode == 0 and "Semantic errors" not in p.stdout and "*** Errors" not in p.stdout, p.stdout

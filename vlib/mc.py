"""Model checking of Layer-B modules and export of TLC-explored behaviours for replay into the real code (flow F-R)."""
import json
import re
from concurrent.futures import ThreadPoolExecutor

from . import tlc
from .tlc import MachineryError

OK_LINE = "Model checking completed. No error has been found."


def check_cfgs(runs, nproc=16, timeout=3000, parallel=4, coverage=False):
    """runs: list of (module, cfg, expect_ok).  Returns dict cfg -> {'states', 'transitions', 'depth', 'out'}.
    A failed invariant in a configuration that is expected to pass is a spec-level alarm (MachineryError): the models
    are transcriptions of the pinned code and were checked when they were written."""
    res = {}
    w = max(1, nproc // max(1, min(parallel, len(runs))))

    def one(run):
        mod, cfg, expect_ok = run
        extra = ["-coverage", "1"] if coverage else []
        rc, out, st = tlc.run_tlc(mod, cfg=cfg, workers=w, extra=extra, timeout=timeout, tag=cfg.replace(".cfg", ""))
        viol = "is violated" in out
        if expect_ok:
            if viol:
                raise MachineryError("%s/%s: invariant violated in the model:\n%s" % (mod, cfg, tail_without(out, "HIST")))
            if OK_LINE not in out:
                raise MachineryError("%s/%s: TLC failed:\n%s" % (mod, cfg, tail_without(out, "HIST")))
        elif not viol:
            raise MachineryError("%s/%s: expected counterexample not found (vacuity guard)" % (mod, cfg))
        return cfg, {"states": st["distinct"], "transitions": st["generated"], "depth": st["depth"], "out": out}

    with ThreadPoolExecutor(max_workers=min(parallel, len(runs))) as ex:
        for cfg, r in ex.map(one, runs):
            res[cfg] = r
    return res


def tail_without(out, marker, n=3000):
    return "\n".join(l for l in out.splitlines() if marker not in l)[-n:]


_EXPORT = re.compile(r'^<<"(\w+)", "(.*)">>$')


def exported(out, marker="HIST"):
    """JSON values printed by PrintT(<<marker, ToJson(v)>>) lines of a TLC run."""
    vals = []
    for line in out.splitlines():
        m = _EXPORT.match(line)
        if m and m.group(1) == marker:
            s = m.group(2).replace('\\"', '"').replace("\\\\", "\\")
            try:
                vals.append(json.loads(s))
            except ValueError:
                raise MachineryError("unparsable exported value: " + line[:300])
    return vals

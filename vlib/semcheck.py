"""Shared machinery for the properties whose verdict is a Layer-A fact of spec/Semantics.tla.

judge()    : TLC (JudgeSem.tla) computes, per structured program, exact numerators/denominator for
             every query instance, the C02 class, annotation validity, undefined predicates.
verdict()  : compares one recorded run of the real system with those facts; names the failing clause."""
import hashlib
import json
import os
import random

from . import progs, tlc
from .core import close, OUT

_CACHE = None
_CACHE_FILE = None


def _spec_hash():
    h = hashlib.sha256()
    for m in ("Semantics.tla", "JudgeSem.tla"):
        with open(os.path.join(tlc.SPEC, m), "rb") as f:
            h.update(f.read())
    return h.hexdigest()[:16]


def _load_cache():
    global _CACHE, _CACHE_FILE
    if _CACHE is not None:
        return
    d = os.path.join(OUT, "cache")
    os.makedirs(d, exist_ok=True)
    _CACHE_FILE = os.path.join(d, "sem_%s.jsonl" % _spec_hash())
    _CACHE = {}
    if os.path.exists(_CACHE_FILE):
        with open(_CACHE_FILE) as f:
            for line in f:
                try:
                    k, v = json.loads(line)
                    _CACHE[k] = v
                except Exception:
                    pass


def judge(programs, nproc=16, use_cache=True):
    """programs: list of structured programs. Returns list of TLC results (same order)."""
    _load_cache()
    def sem_key(p):
        return json.dumps({k: p[k] for k in ("consts", "facts", "ads", "rules", "queries", "evidence")}, sort_keys=True)
    keys = [hashlib.sha256(sem_key(p).encode()).hexdigest() for p in programs]
    todo = []
    seen = set()
    for i, (p, k) in enumerate(zip(programs, keys)):
        if (not use_cache or k not in _CACHE) and k not in seen:
            seen.add(k)
            q = {kk: p[kk] for kk in ("consts", "facts", "ads", "rules", "queries", "evidence")}
            q = json.loads(json.dumps(q))
            for r in q["rules"]:
                r.pop("x", None)
            q["id"] = len(todo) + 1
            todo.append((k, q))
    if todo:
        # order by cost so that chunks are balanced: interleave
        todo.sort(key=lambda kq: progs.n_worlds(kq[1]))
        cases = [q for _, q in todo]
        for j, q in enumerate(cases):
            q["id"] = j + 1
        # round-robin distribution over chunks
        nchunks = min(nproc, len(cases))
        chunks = [cases[i::nchunks] for i in range(nchunks)]
        flat = [c for ch in chunks for c in ch]
        res = tlc.judge_batch("JudgeSem", flat, nproc=nproc, chunk=max(len(ch) for ch in chunks), tag="sem")
        with open(_CACHE_FILE, "a") as f:
            for j, (k, _) in enumerate(todo):
                r = res[j + 1]
                _CACHE[k] = r
                f.write(json.dumps([k, r]) + "\n")
    return [_CACHE[k] for k in keys]


GROUNDING_CYCLE_ERRORS = ("NegativeCycle",)


def expected_table(J):
    return {progs.r_ground(e["f"], e["a"]): e["num"] for e in J["expected"]}


def verdict(P, J, run, strict_instances=True, tol=1e-9):
    """Return list of (clause, detail) violations of the C01/C02/C30 statement for one run.

    P: structured program, J: TLC facts, run: {'answers': {...}} or {'error': cls, ...}."""
    v = []
    if run.get("inconclusive"):
        return None
    err = run.get("error")
    if not J["valid"]:
        if err == "InvalidValue" or (err and "InvalidValue" in run.get("mro", [])):
            return v
        if err is None:
            v.append(("invalid-annotation-accepted", "program with invalid probability annotation was answered: %s"
                      % run.get("answers")))
        elif not run.get("problog_error"):
            v.append(("crash", "%s: %s" % (err, run.get("msg"))))
        # another ProbLogError for an invalid program is tolerated (C30 asks for InvalidValue; see C30 check)
        return v
    if err is not None:
        mro = run.get("mro", [])
        if err in GROUNDING_CYCLE_ERRORS or "NegativeCycle" in mro:
            if J["mustAnswer"]:
                v.append(("negative-cycle-on-stratified", "raised %s but the full ground dependency graph has no "
                          "cycle through negation" % err))
        elif err == "InconsistentEvidenceError" or "InconsistentEvidenceError" in mro:
            if J["den"] != 0:
                v.append(("spurious-inconsistent-evidence", "raised InconsistentEvidenceError but P(evidence) = %d/%d"
                          % (J["den"], J["total"])))
        elif err == "UnknownClause" or "UnknownClause" in mro:
            if not J["undefPreds"]:
                v.append(("wrong-error", "UnknownClause but every called predicate is defined: %s" % run.get("msg")))
        elif not run.get("problog_error"):
            v.append(("crash", "%s: %s" % (err, run.get("msg"))))
        elif "GroundingError" in mro and not J["mustAnswer"]:
            pass  # C02: 'NegativeCycle or another GroundingError' is an acceptable rejection
        else:
            v.append(("wrong-error", "%s: %s" % (err, run.get("msg"))))
        return v
    ans = run["answers"]
    if J["mustReject"]:
        v.append(("answered-negative-cycle", "answered %s although in some possible world a query/evidence atom "
                  "is undefined in the well-founded model" % ans))
        return v
    if not J["mustAnswer"]:
        # 'either' class of C02: the full ground dependency graph has a cycle through negation, the program is
        # outside the C01 fragment; answering is acceptable and no property fixes the numbers.
        return v
    if J["den"] == 0:
        v.append(("answered-inconsistent-evidence", "answered %s although P(evidence) = 0" % ans))
        return v
    exp = expected_table(J)
    for name, num in exp.items():
        if name in ans:
            if not close(ans[name], num, J["den"], tol):
                v.append(("prob", "%s: reported %r expected %d/%d = %.12g" % (name, ans[name], num, J["den"],
                                                                            num / J["den"])))
        elif num != 0 and strict_instances:
            v.append(("missing-instance", "%s has probability %d/%d but is not reported" % (name, num, J["den"])))
    for name, p in ans.items():
        if name not in exp:
            if abs(p) > tol:
                v.append(("spurious-answer", "%s: %r reported but is not a ground instance of a query" % (name, p)))
    return v


def gen_programs(seed, n, profile="strat", **kw):
    rng = random.Random(seed)
    g = progs.Gen(rng, profile=profile, **kw)
    out = []
    seen = set()
    tries = 0
    while len(out) < n and tries < n * 20:
        tries += 1
        p = g.gen()
        c = progs.canon(p)
        if c in seen:
            continue
        seen.add(c)
        p["id"] = len(out) + 1
        out.append(p)
    return out


def triggers(p):
    """Structural trigger predicates used in violation signatures (known-finding matching)."""
    t = {}
    for q in p["queries"]:
        vs = progs.atom_vars(q)
        if len(vs) != len(set(vs)):
            t["repeated_var_query"] = True
    edges = progs.pred_graph(p)
    pe = {(a, b, 1) for a, b, s in edges if s == 1}
    preds = {a for a, _, _ in edges} | {b for _, b, _ in edges}
    reach = {x: progs._reach(edges, x) for x in preds}
    # predicates on a cycle that uses only positive edges
    pure_pos = {a for a, b, _ in pe if a in progs._reach(pe, b)}
    # predicates on a cycle through at least one negative edge
    neg_cyc = set()
    for a, b, s in edges:
        if s == 0 and a in reach[b]:
            neg_cyc |= {x for x in preds if x in reach[b] and a in reach[x]}
    if pure_pos & neg_cyc:
        t["mixed_cycle"] = True
    # a cycle through negation that is "wide": three or more predicates on it, or one of its predicates has three or more
    # clauses (KF42: below that size the engine's negative-cycle detection is checked exhaustively and without exception)
    ncl = {}
    for r in p["rules"]:
        ncl[r["head"]["f"]] = ncl.get(r["head"]["f"], 0) + 1
    for f in p["facts"]:
        ncl[f["atom"]["f"]] = ncl.get(f["atom"]["f"], 0) + 1
    for ad in p["ads"]:
        for h in ad["heads"]:
            ncl[h["atom"]["f"]] = ncl.get(h["atom"]["f"], 0) + 1
    if len(neg_cyc) >= 3 or any(ncl.get(x, 0) >= 3 for x in neg_cyc):
        t["negscc_wide"] = True
    if any(a in reach[b] for a, b, _ in edges):
        t["cyclic"] = True
    return t

"""C16 - arithmetic builtins match Prolog semantics on integers and dyadic floats (judged by Arith.tla in TLC)."""
import itertools
import json
import random

from .. import pl, tlc

UN = ["neg", "abs", "sign", "truncate", "round", "integer", "ceiling", "floor", "float", "float_integer_part",
      "float_fractional_part", "bitnot"]
BIN = ["+", "-", "*", "/", "//", "div", "mod", "rem", "min", "max", ">>", "<<", "/\\", "\\/", "xor", "**", "^"]
CMP = ["=:=", "=\\=", "<", ">", "=<", ">="]


def num(k, q):
    return {"op": "num", "k": k, "q": q, "a": []}


def r_num(e):
    if e["k"] == "nan":
        return "nan"
    if e["k"] == "inf":
        return "inf" if e["q"] > 0 else "(-inf)"
    if e["k"] == "i":
        v = e["q"] // 4
        return str(v) if v >= 0 else "(%d)" % v
    v = e["q"] / 4.0
    return repr(v) if v >= 0 else "(%r)" % v


def render(e):
    if e["op"] == "num":
        return r_num(e)
    if len(e["a"]) == 1:
        a = render(e["a"][0])
        if e["op"] == "neg":
            return "(-(%s))" % a
        if e["op"] == "bitnot":
            return "(\\(%s))" % a
        return "%s(%s)" % (e["op"], a)
    a, b = render(e["a"][0]), render(e["a"][1])
    if e["op"] in ("min", "max"):
        return "%s(%s,%s)" % (e["op"], a, b)
    return "(%s %s %s)" % (a, e["op"], b)


def run(ctx):
    rng = random.Random(ctx.seed + 1616)
    ints = [num("i", 4 * v) for v in (-7, -4, -3, -2, -1, 0, 1, 2, 3, 4, 7, 10)]
    flts = [num("f", q) for q in (-10, -6, -4, -2, 0, 2, 4, 6, 10, 14)]     # -2.5 .. 3.5 in halves
    nums = ints + flts
    exprs = []
    for op in UN:
        for x in nums:
            exprs.append({"op": op, "a": [x]})
    for op in BIN:
        for x, y in itertools.product(nums, repeat=2):
            if op in ("**", "^", "<<") and (y["q"] > 5 * 4 or abs(x["q"]) > 10 * 4):
                continue
            exprs.append({"op": op, "a": [x, y]})
    # random expression trees
    def tree(d):
        if d == 0 or rng.random() < 0.3:
            return rng.choice(nums)
        if rng.random() < 0.3:
            return {"op": rng.choice(UN[:11]), "a": [tree(d - 1)]}
        return {"op": rng.choice(BIN[:10]), "a": [tree(d - 1), tree(d - 1)]}
    for _ in range(ctx.pick(1500, 15000)):
        exprs.append(tree(3))
    if ctx.quick:
        keep = exprs[:len(UN) * len(nums)] + rng.sample(exprs[len(UN) * len(nums):], 4500)
        exprs = keep
    cases = [{"id": i, "kind": "is", "text": render(e)} for i, e in enumerate(exprs)]
    off = len(cases)
    cmps = []
    for op in CMP:
        for x, y in itertools.product(nums[::2] + [{"op": "+", "a": [nums[3], nums[15]]}], repeat=2):
            cmps.append((op, x, y))
    # the documented special floats inf/0 and nan/0 as operands of the comparisons (IEEE: nan is unordered)
    sp = [num("inf", 1), num("inf", -1), num("nan", 0)]
    sp += [{"op": "neg", "a": [sp[0]]}, {"op": "neg", "a": [sp[2]]}, {"op": "+", "a": [sp[0], nums[8]]}, {"op": "+", "a": [sp[2], nums[8]]},
           {"op": "*", "a": [sp[0], nums[1]]}, {"op": "-", "a": [nums[14], sp[0]]}, {"op": "*", "a": [flts[7], sp[2]]}]
    fin = [nums[0], nums[5], nums[8], flts[2], flts[8]]
    for op in CMP:
        for x, y in itertools.product(sp + fin, repeat=2):
            if x in sp or y in sp:
                cmps.append((op, x, y))
    cases += [{"id": off + i, "kind": "cmp", "op": op, "xt": render(x), "yt": render(y)} for i, (op, x, y) in enumerate(cmps)]
    # is/2 with a bound left-hand side: N is Expr, N the value of Expr in its own type (must succeed) and in the other numeric
    # type (must fail: is/2 unifies, 2 and 2.0 are different terms); N given directly or through a variable bound before
    offb = len(cases)
    isb = []
    for op, fn in (("+", lambda a, b: a + b), ("-", lambda a, b: a - b), ("*", lambda a, b: a * b // 4 if (a * b) % 4 == 0 else None)):
        for x, y in rng.sample(list(itertools.product(nums, repeat=2)), ctx.pick(120, 400)):
            q = fn(x["q"], y["q"])
            if q is None:
                continue
            kind = "i" if x["k"] == "i" and y["k"] == "i" else "f"
            if q == 0 and kind == "f":
                continue                      # 0.0 vs -0.0 are different terms; the quarter grid of Arith.tla has one zero
            e = {"op": op, "a": [x, y]}
            isb.append((num(kind, q), e))
            if q % 4 == 0:
                isb.append((num("f" if kind == "i" else "i", q), e))
            isb.append((num(kind, q + 4), e))
    for x in nums:
        isb.append((x, x))
        if x["q"] % 4 == 0:
            isb.append((num("f" if x["k"] == "i" else "i", x["q"]), x))
    cases += [{"id": offb + i, "kind": "isb", "text": render(e), "nt": render(n), "via_var": bool(i % 2)} for i, (n, e) in enumerate(isb)]
    off2 = len(cases)
    bets = []
    for l in (-2, 0, 1, 3):
        for h in (-3, 0, 2, 4):
            bets.append((l, h, 0, 0))
            for x in (-3, 0, 1, 4, 5):
                bets.append((l, h, x, 1))
    cases += [{"id": off2 + i, "kind": "between", "l": l, "h": h, "x": x, "xbound": xb} for i, (l, h, x, xb) in enumerate(bets)]
    chunk = 80
    res = pl.run_jobs([("arith_cases", {"cases": cases[i:i + chunk]}) for i in range(0, len(cases), chunk)],
                      nproc=ctx.nproc, timeout=300, chunksize=1)
    outs = {}
    for r in res:
        if r.get("error"):
            raise tlc.MachineryError("arith_cases failed: %s" % r)
        for o in r["results"]:
            outs[o["id"]] = o
    send = []
    text = {}
    for c in cases:
        o = outs[c["id"]]
        ctx.evaluations += 1
        if c["kind"] == "is":
            text[c["id"]] = "X is %s" % c["text"]
        elif c["kind"] == "cmp":
            text[c["id"]] = "%s %s %s" % (c["xt"], c["op"], c["yt"])
        elif c["kind"] == "isb":
            text[c["id"]] = ("X = %s, X is %s" if c["via_var"] else "%s is %s") % (c["nt"], c["text"])
        else:
            text[c["id"]] = "between(%d,%d,%s)" % (c["l"], c["h"], c["x"] if c["xbound"] else "X")
        if o.get("skip"):
            continue
        if o.get("crash"):
            ctx.violation({"clause": "crash", "error": o.get("error", ""), "site": o.get("site", ""),
                           "functor": functor_of(c, exprs, cmps, off)},
                          "%s : %s" % (text[c["id"]], o["crash"]), {"case": c})
            continue
        if c["kind"] == "is":
            send.append({"id": c["id"], "kind": "is", "expr": exprs[c["id"]], "out": {k: o["out"][k] for k in ("ok", "k", "q", "rep")}})
        elif c["kind"] == "cmp":
            op, x, y = cmps[c["id"] - off]
            send.append({"id": c["id"], "kind": "cmp", "op": op, "x": x, "y": y, "out": o["out"]})
        elif c["kind"] == "isb":
            n, e = isb[c["id"] - offb]
            send.append({"id": c["id"], "kind": "isb", "n": n, "expr": e, "out": o["out"]})
        else:
            send.append({"id": c["id"], "kind": "between", "l": c["l"], "h": c["h"], "x": c["x"], "xbound": c["xbound"],
                         "ok": o["ok"], "sols": o["sols"]})
    J = tlc.judge_batch("JudgeArith", send, nproc=ctx.nproc, tag="c16")
    skipped = 0
    for c in send:
        j = J[c["id"]]
        if j["skipped"]:
            skipped += 1
        if not j["ok"]:
            o = outs[c["id"]]
            ctx.violation({"clause": j["why"], "functor": functor_of(cases[c["id"]], exprs, cmps, off)},
                          "%s : %s (implementation: %s)" % (text[c["id"]], j["why"], o.get("out", o.get("sols"))),
                          {"case": cases[c["id"]], "expr": exprs[c["id"]] if c["kind"] == "is" else c.get("expr"), "n": c.get("n")})
    n_insp, n_judged = run_inspect(ctx)
    ctx.sample({"case": text[10], "impl": outs[10].get("out")})
    ctx.sample({"case": text[len(exprs) - 1], "impl": outs[len(exprs) - 1].get("out")})
    ctx.write_evidence("exploration", {
        "evaluations": ctx.evaluations, "distinct_nontrivial": len({text[i] for i in text}) - skipped,
        "rule": "every documented non-transcendental functor on a grid of integers (-7..10) and half-valued floats "
                "(-2.5..3.5), all argument pairs; random expression trees of depth <= 3; the six comparisons; between/3 in "
                "both modes; non-trivial = distinct case whose exact value is representable in quarters (judged)",
        "not_judged_unrepresentable": skipped, "functors": UN + BIN + CMP + ["between/3"],
        "inspection_goals": n_insp, "inspection_goals_in_supported_modes": n_judged,
        "inspection_builtins": ["functor/3", "arg/3", "=../2", "length/2", "succ/2", "plus/3", "var/1", "nonvar/1", "atom/1",
                                "atomic/1", "number/1", "integer/1", "float/1", "compound/1", "callable/1", "is_list/1", "ground/1"],
    }, assumptions=["reference: spec/Arith.tla (ISO/SWI semantics; rem = mod as documented; '/', min, max, sign, ** and ^ "
                    "compared by value only because Yap and SWI differ on the result type)",
                    "transcendental functions are not decided (TLA+ has no reals)"])


def inspect_goals(ctx, rng):
    from .. import terms as T
    X, Y, Z = T.V(1), T.V(2), T.V(3)
    terms = [T.A("a"), T.A("foo"), T.I(0), T.I(3), T.I(-2), T.F(6), T.Cm("f", T.A("a")), T.Cm("f", T.A("a"), T.A("b")),
             T.Cm("g", T.V(4), T.I(1), T.Cm("f", T.A("c"))), T.L([T.A("a"), T.A("b"), T.A("c")]), T.L([]), T.L([T.I(1)]),
             T.L([T.A("a")], T.V(5)), X]
    ints = [T.I(v) for v in (-1, 0, 1, 2, 3, 4)]
    G = []
    for t in terms:
        for nm in ("var", "nonvar", "atom", "atomic", "number", "integer", "float", "compound", "callable", "is_list", "ground"):
            G.append(T.Cm(nm, t))
        G.append(T.Cm("functor", t, Y, Z))
        G.append(T.Cm("functor", t, T.A("f"), Z))
        G.append(T.Cm("functor", t, Y, T.I(2)))
        G.append(T.Cm("=..", t, Y))
        G.append(T.Cm("length", t, Y))
        for n in ints + [Y]:
            G.append(T.Cm("arg", n, t, Z))
        G.append(T.Cm("arg", T.I(1), t, T.A("a")))
    # partial lists with a given length (the tail must be closed / extended accordingly)
    for pl_ in (T.L([T.A("a")], T.V(5)), T.L([T.A("a"), T.A("b")], T.V(5)), T.L([], T.V(5)) if False else T.V(5)):
        for n in ints:
            G.append(T.Cm("length", pl_, n))
    for nm in (T.A("f"), T.A("foo"), T.I(3)):
        for a in ints:
            G.append(T.Cm("functor", X, nm, a))
    for l in (T.L([T.A("f"), T.A("a"), T.A("b")]), T.L([T.A("a")]), T.L([T.I(3)]), T.L([T.A("g"), T.V(4)])):
        G.append(T.Cm("=..", X, l))
    for n in ints:
        G.append(T.Cm("length", X, n))
        G.append(T.Cm("succ", n, Y))
        G.append(T.Cm("succ", X, n))
        for m in ints[1:4]:
            G.append(T.Cm("plus", n, m, Z))
            G.append(T.Cm("plus", n, Y, m))
            G.append(T.Cm("plus", X, n, m))
            G.append(T.Cm("succ", n, m))
    return G


def run_inspect(ctx):
    """term-inspection builtins and integer relations, judged by spec/Inspect.tla (via JudgeSLD, mode 'builtin')"""
    from .. import terms as T
    rng = random.Random(ctx.seed + 1617)
    G = inspect_goals(ctx, rng)
    cases = [{"id": i, "text": "", "query": T.render(g)} for i, g in enumerate(G)]
    chunk = 60
    res = pl.run_jobs([("det_queries", {"cases": cases[i:i + chunk]}) for i in range(0, len(cases), chunk)],
                      nproc=ctx.nproc, timeout=300, chunksize=1)
    outs = {}
    for r in res:
        if r.get("error"):
            raise tlc.MachineryError("det_queries failed: %s" % r)
        for o in r["results"]:
            outs[o["id"]] = o
    send = []
    for i, g in enumerate(G):
        o = outs[i]
        ctx.evaluations += 1
        name = T.txt(g["c"]) + "/%d" % len(g["a"])
        if o.get("skip"):
            continue
        if o.get("crash"):
            ctx.violation({"clause": "crash", "error": o.get("error", ""), "site": o.get("site", ""), "functor": name},
                          "?- %s : %s" % (T.render(g), o["crash"]), {"goal": g})
            continue
        if o["ok"] == 2 and o.get("err") == "CallModeError":
            continue          # the implementation declares this call mode unsupported ('for their supported modes')
        send.append({"id": i, "prog": [], "q": g, "mode": "builtin", "impl": {"ok": o["ok"], "ans": o["ans"]}})
    J = tlc.judge_batch("JudgeSLD", send, nproc=ctx.nproc, tag="c16b")
    judged = 0
    for c in send:
        j = J[c["id"]]
        g = G[c["id"]]
        name = T.txt(g["c"]) + "/%d" % len(g["a"])
        if j["skipped"]:
            continue
        judged += 1
        if not j["ok"]:
            ctx.violation({"clause": "builtin-" + j["why"], "functor": name},
                          "?- %s : %s\nimplementation: %s %s\nexpected (Inspect.tla): %s" % (
                              T.render(g), j["why"], c["impl"]["ok"], [T.render(a) for a in c["impl"]["ans"]],
                              [T.render(a) for a in j["exp"]]), {"goal": g})
    return len(G), judged


def functor_of(c, exprs, cmps, off):
    if c["kind"] == "is":
        return exprs[c["id"]]["op"]
    if c["kind"] == "cmp":
        return cmps[c["id"] - off][0]
    if c["kind"] == "isb":
        return "is/bound"
    return "between"


def replay(ctx, path):
    with open(path) as f:
        d = json.load(f)
    if "goal" in d["case"]:
        from .. import terms as T
        g = d["case"]["goal"]
        o = pl.run_local("det_queries", cases=[{"id": 0, "text": "", "query": T.render(g)}])["results"][0]
        print(T.render(g), o)
        ctx.evaluations = 1
        if o.get("crash"):
            ctx.violation({"clause": "crash"}, o["crash"], d["case"])
        else:
            j = tlc.judge_batch("JudgeSLD", [{"id": 0, "prog": [], "q": g, "mode": "builtin",
                                              "impl": {"ok": o["ok"], "ans": o["ans"]}}], nproc=1)[0]
            print(j)
            if not j["ok"]:
                ctx.violation({"clause": "builtin-" + j["why"]}, j["why"], d["case"])
        ctx.write_evidence("exploration", {"evaluations": 1, "distinct_nontrivial": 0, "rule": "replay", "samples": [d["case"]]})
        return
    c = dict(d["case"]["case"])
    c["id"] = 0
    o = pl.run_local("arith_cases", cases=[c])["results"][0]
    print(c, o)
    ctx.evaluations = 1
    if o.get("crash"):
        ctx.violation({"clause": "crash", "error": o.get("error", "")}, o["crash"], d["case"])
    elif c["kind"] == "is":
        j = tlc.judge_batch("JudgeArith", [{"id": 0, "kind": "is", "expr": d["case"]["expr"],
                                            "out": {k: o["out"][k] for k in ("ok", "k", "q", "rep")}}], nproc=1)[0]
        print(j)
        if not j["ok"]:
            ctx.violation({"clause": j["why"], "functor": d["case"]["expr"]["op"]}, j["why"], d["case"])
    elif c["kind"] == "isb":
        j = tlc.judge_batch("JudgeArith", [{"id": 0, "kind": "isb", "n": d["case"]["n"], "expr": d["case"]["expr"], "out": o["out"]}], nproc=1)[0]
        print(j)
        if not j["ok"]:
            ctx.violation({"clause": j["why"], "functor": "is/bound"}, j["why"], d["case"])
    ctx.write_evidence("exploration", {"evaluations": 1, "distinct_nontrivial": 0, "rule": "replay", "samples": [d["case"]]})

"""C22 - sampling draws from the program's distribution (controlled randomness, exact; no statistics).

The real sampler's coin is scripted so that EVERY branch of coin outcomes is executed once, with random() values placed
just below / above / exactly at the threshold the code is about to use.  Per branch: the printed probability must equal
the product of the branch's coin probabilities.  Per program: the branch probabilities sum to 1, the mass of the accepted
branches equals P(evidence) and the accepted mass in which a query is true equals its conditional probability - the
exact numbers come from TLC (spec/Semantics.tla).  Hence the sampler draws exactly from the program's distribution."""
import json

from .. import pl, progs, semcheck
from ..core import close
from . import common


def run(ctx):
    P = semcheck.gen_programs(ctx.seed * 7919 + 221, ctx.pick(140, 1500), "strat", max_worlds=150, p_edge=False)
    P += common.family_small(ctx.pick(80, 800), ctx.seed + 22000)
    J = semcheck.judge(P, nproc=ctx.nproc)
    jobs, idx = [], []
    for i, (p, j) in enumerate(zip(P, J)):
        if not j["valid"] or not j["mustAnswer"] or j["undefPreds"]:
            continue
        for pe in (False, True):
            jobs.append(("sample_tree", {"text": progs.render(p), "propagate_evidence": pe}))
            idx.append((i, pe))
    res = pl.run_jobs(jobs, nproc=ctx.nproc, timeout=120)
    nbranches = 0
    nontriv = set()
    uncontrolled = 0
    for (i, pe), r in zip(idx, res):
        p, j = P[i], J[i]
        ctx.evaluations += 1
        t = progs.render(p)
        case = {"kind": "tree", "program": p, "text": t, "propagate_evidence": pe}
        sig0 = {"variant": "propagate_evidence" if pe else "default"}
        sig0.update(semcheck.triggers(p))
        if r.get("error"):
            if r.get("inconclusive"):
                ctx.inconclusive += 1
            elif "NegativeCycle" in r.get("mro", []):
                ctx.violation(dict(sig0, clause="negative-cycle-on-stratified", error=r["error"], site=r.get("site", ""),
                                   chain=r.get("chain", "")), "%s\n%s" % (r.get("msg"), t), case)
            elif not r.get("problog_error"):
                ctx.violation(dict(sig0, clause="crash", error=r["error"], site=r.get("site", ""), chain=r.get("chain", "")),
                              "%s: %s\n%s" % (r["error"], r.get("msg"), t), case)
            continue
        if r.get("too_many"):
            continue
        if r.get("uncontrolled"):
            uncontrolled += 1
            continue          # the sampler drew randomness we cannot steer: not controllable, no verdict
        B = r["branches"]
        nbranches += len(B)
        if len(B) > 2:
            nontriv.add(progs.canon(p))
        total = 0.0
        acc = 0.0
        qmass = {}
        for b in B:
            bp = 1.0
            for thr, out in b["decisions"]:
                bp *= thr if out else (1.0 - thr)
            if bp == 0.0:
                continue          # an outcome random() cannot produce (threshold 0 or 1)
            total += bp
            if b["printed"] is None or abs(b["exact_printed"] - bp) > 1e-9 + 1e-9 * bp:
                ctx.violation(dict(sig0, clause="printed-probability"),
                              "branch %s: printed probability %r, product of the choices made %r\n%s" % (
                                  b["decisions"], b["exact_printed"], bp, t), case)
            if b["accepted"]:
                acc += bp
                for name, v in b["values"].items():
                    if v:
                        qmass[name] = qmass.get(name, 0.0) + bp
        if abs(total - 1.0) > 1e-9:
            ctx.violation(dict(sig0, clause="branch-mass"), "branch probabilities sum to %r\n%s" % (total, t), case)
            continue
        if not pe and not close(acc, j["den"], j["total"], 1e-9):
            # rejection sampling: the accepted mass is P(evidence)
            ctx.violation(dict(sig0, clause="evidence-mass"),
                          "mass of accepted samples %r, P(evidence) = %d/%d\n%s" % (acc, j["den"], j["total"], t), case)
            continue
        if j["den"] == 0:
            if acc > 1e-12:
                ctx.violation(dict(sig0, clause="accepts-impossible-evidence"), "accepted mass %r but P(evidence) = 0\n%s" % (acc, t), case)
            continue
        if acc <= 1e-12:
            ctx.violation(dict(sig0, clause="all-samples-rejected"),
                          "every sample is rejected although P(evidence) = %d/%d\n%s" % (j["den"], j["total"], t), case)
            continue
        exp = semcheck.expected_table(j)
        for name, num in exp.items():
            got = qmass.get(name, 0.0) / acc
            if not close(got, num, j["den"], 1e-9):
                ctx.violation(dict(sig0, clause="sample-distribution"),
                              "%s: conditional frequency over all branches %r, exact %d/%d\n%s" % (name, got, num, j["den"], t), case)
        for name in qmass:
            if name not in exp and qmass[name] > 1e-9:
                ctx.violation(dict(sig0, clause="sample-spurious-instance"), "%s sampled true\n%s" % (name, t), case)
        if len(ctx.samples) < 2:
            ctx.sample({"program": t, "propagate_evidence": pe, "branches": B[:6], "tlc": {"den": j["den"], "total": j["total"],
                                                                                        "expected": j["expected"]}})
    ctx.write_evidence("exploration", {
        "evaluations": ctx.evaluations, "distinct_nontrivial": len(nontriv),
        "rule": "generated programs (facts, ADs with and without bodies, rules, evidence); every coin-outcome branch of the "
                "real sampler executed with boundary random values, with and without propagate_evidence; non-trivial = "
                "program with > 2 branches",
        "branches_executed": nbranches, "not_controllable": uncontrolled,
    }, assumptions=["the scripted random source reads the threshold from the sampler's add_atom frame; if the sampler draws "
                    "randomness elsewhere the program is reported 'not controllable' and not judged",
                    "one iteration of tasks.sample.sample is mirrored (init_engine, init_db, ground, verify_evidence)"])


def replay(ctx, path):
    with open(path) as f:
        d = json.load(f)
    c = d["case"]
    r = pl.run_local("sample_tree", text=c["text"], propagate_evidence=c["propagate_evidence"])
    print(c["text"])
    for b in r.get("branches", []):
        print(b)
    j = semcheck.judge([c["program"]], nproc=1, use_cache=False)[0]
    print(j)
    ctx.evaluations = 1
    ctx.write_evidence("exploration", {"evaluations": 1, "distinct_nontrivial": 0, "rule": "replay (prints the branch tree)",
                                       "samples": [c["text"]]})

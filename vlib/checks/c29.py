"""C29 - extending a prepared database is equivalent to preparing the union; the parent is unchanged.

Layer B: spec/ClauseDB.tla models the node table / offset / redirect / copy-on-extend mechanism of clausedb.py; TLC checks
that every database shows exactly the clauses of itself and its ancestors and that calls compiled in an ancestor reach the
extension's definition (and finds the nested-extension counterexample in the pre-fix get_node).  Every history TLC explores
(and deeper seeded random ones) is executed on real ClauseDB objects; what each real database shows is judged by Layer A
(JudgeClauseDB.tla) and compared with what the model shows.

Histories: prepare a base program, extend() (also nested), add facts / rules / ADs for new and existing predicates
to the extension, interleave queries on the extension and on its ancestors.  Every query result is judged by
Semantics.tla on the program that the queried database denotes at that moment (base + additions visible at that level)."""
import copy
import json
import random

from .. import mc, pl, progs, semcheck, tlc
from ..tlc import MachineryError
from . import common


def split(p, rng):
    """(base program, list of additions [(kind, stmt)]) keeping the deterministic domain d/1 in the base"""
    base = copy.deepcopy(p)
    base["queries"], base["evidence"] = [], []
    base.pop("order", None)
    adds = []
    for kind in ("facts", "ads", "rules"):
        keep = []
        for st in base[kind]:
            is_d = kind == "rules" and st["head"]["f"] == "d"
            if not is_d and rng.random() < 0.4:
                adds.append((kind, st))
            else:
                keep.append(st)
        base[kind] = keep
    rng.shuffle(adds)
    return base, adds


def stmt_text(kind, st):
    q = progs.empty_program()
    q[kind] = [st]
    return progs.render(q)



def structural(ctx, cov):
    runs = [("ClauseDBMC", "ClauseDB_small.cfg", True), ("ClauseDBMC", "ClauseDB_export.cfg", True),
            ("ClauseDBMC", "ClauseDB_oldresolve.cfg", False)]
    if ctx.tier == "thorough":
        runs.append(("ClauseDBMC", "ClauseDB_big.cfg", True))
    R = mc.check_cfgs(runs, nproc=ctx.nproc, timeout=ctx.pick(900, 7200), parallel=2)
    ok_runs = [cfg for _, cfg, e in runs if e]
    cov["states"] = sum(R[c]["states"] for c in ok_runs)
    cov["transitions"] = sum(R[c]["transitions"] for c in ok_runs)
    cov["model_configs"] = {c: {"states": r["states"], "depth": r["depth"]} for c, r in R.items()}
    cov["expected_counterexample_found"] = "ClauseDB_oldresolve.cfg (pre-fix get_node: own redirect table only)"
    H = mc.exported(R["ClauseDB_export.cfg"]["out"])
    if not H:
        raise MachineryError("no histories exported by ClauseDB_export.cfg")
    cases = [{"id": i, "hist": h["hist"], "every": True} for i, h in enumerate(H)]
    # deeper seeded random histories over the same alphabet (3 predicates, up to 4 databases)
    rng = random.Random(ctx.seed + 292929)
    preds = ["p", "q", "r"]
    for _ in range(ctx.pick(2500, 40000)):
        hist, parents = [], [0]
        for k in range(rng.randint(5, 9)):
            leaves = [d for d in range(1, len(parents) + 1) if d not in parents]
            x = rng.random()
            if x < 0.25 and len(parents) < 4:
                d = rng.randint(1, len(parents))
                hist.append({"op": "extend", "d": d, "s": "", "body": [], "cid": k + 1})
                parents.append(d)
            elif x < 0.55:
                hist.append({"op": "fact", "d": rng.choice(leaves), "s": rng.choice(preds), "body": [], "cid": k + 1})
            else:
                hist.append({"op": "rule", "d": rng.choice(leaves), "s": rng.choice(preds),
                             "body": [rng.choice(preds) for _ in range(rng.randint(1, 2))], "cid": k + 1})
        cases.append({"id": len(cases), "hist": hist, "every": True})
    chunk = 400
    res = pl.run_jobs([("clausedb_history", {"cases": cases[i:i + chunk]}) for i in range(0, len(cases), chunk)],
                      nproc=ctx.nproc, timeout=600, chunksize=1)
    send = []
    drift = 0
    for r in res:
        if r.get("error"):
            raise MachineryError("clausedb_history failed: %s" % r)
        for o in r["results"]:
            ctx.evaluations += 1
            c = cases[o["id"]]
            if o.get("crash"):
                ctx.violation({"clause": "crash", "error": o["error"], "site": o.get("site", ""), "level": "structural"},
                              "history %s raised %s" % (json.dumps(c["hist"]), o["crash"]), {"hist": c["hist"]})
                continue
            send.append({"id": o["id"], "hist": c["hist"], "snaps": o["snaps"]})
            if o["id"] < len(H):
                mv = H[o["id"]]["views"]
                rv = [{v["s"]: v["cids"] for v in db} for db in o["snaps"][-1]["views"]]
                if any(rv[d].get(s, []) != mv[d][s] for d in range(len(mv)) for s in mv[d]):
                    drift += 1
    J = tlc.judge_batch("JudgeClauseDB", send, nproc=ctx.nproc, tag="c29s")
    for c in send:
        j = J[c["id"]]
        if not j["ok"]:
            ctx.violation({"clause": "database-shows-wrong-clauses" if j["why"] == "view" else "call-reaches-wrong-definition",
                           "level": "structural"},
                          "after operation %d database %d shows clauses %s for %s (%s), the clauses added to it and its ancestors are %s\nhistory=%s" % (
                              j["n"], j["d"], j["got"], j["s"], "through a call node" if j["why"] == "call" else "through find()",
                              j["want"], json.dumps(c["hist"])), {"hist": c["hist"]})
    cov["spec_histories_replayed_on_impl"] = len(H)
    cov["random_histories"] = len(cases) - len(H)
    cov["traces_validated_against_impl"] = len(send)
    cov["spec_histories_where_impl_differs_from_model"] = drift
    ctx.sample({"history": cases[len(H) // 2]["hist"], "real_views_after_last_op": send[len(H) // 2]["snaps"][-1]["views"] if len(send) > len(H) // 2 else None})


def run(ctx):
    cov = {}
    structural(ctx, cov)
    rng = random.Random(ctx.seed + 2929)
    G = semcheck.gen_programs(ctx.seed * 7919 + 291, ctx.pick(130, 1600), "strat", evidence=False)
    jobs, meta = [], []
    for g in G:
        if not g["queries"]:
            continue
        base, adds = split(g, rng)
        if not adds:
            continue
        levels = [copy.deepcopy(base)]       # program denoted by each database level
        steps = [["extend"]]
        levels.append(copy.deepcopy(base))
        expect = []                          # (step index, program snapshot)
        for (kind, st) in adds:
            if rng.random() < 0.2 and len(levels) < 4:
                steps.append(["extend"])
                levels.append(copy.deepcopy(levels[-1]))
            steps.append(["add", stmt_text(kind, st)])
            levels[-1][kind].append(copy.deepcopy(st))
            if rng.random() < 0.6:
                lv = rng.randrange(len(levels)) if rng.random() < 0.5 else len(levels) - 1
                q = rng.choice(g["queries"])
                steps.append(["q", lv, progs.r_atom(q)])
                snap = copy.deepcopy(levels[lv])
                snap["queries"] = [q]
                expect.append((len(steps) - 1, snap, lv, len(levels) - 1))
        # final: every query on the deepest extension and on the base
        for q in g["queries"][:2]:
            for lv in (len(levels) - 1, 0):
                steps.append(["q", lv, progs.r_atom(q)])
                snap = copy.deepcopy(levels[lv])
                snap["queries"] = [q]
                expect.append((len(steps) - 1, snap, lv, len(levels) - 1))
        jobs.append(("extend_history", {"base_text": progs.render(base), "steps": steps}))
        meta.append((g, base, steps, expect))
    # annotated disjunctions as the FIRST statements of nested extensions (their group identifiers are derived from the
    # size of the database at that moment), queried together with ADs of the ancestors
    for k in range(ctx.pick(60, 600)):
        base = progs.empty_program(consts=("c1",))
        nb = rng.randint(0, 2)
        for i in range(nb):
            base["facts"].append({"p": [rng.randint(1, 9), 10], "atom": progs.atom("f%d" % i)})
        if rng.random() < 0.5:
            base["ads"].append({"heads": [{"p": [rng.randint(1, 4), 10], "atom": progs.atom("b1")},
                                          {"p": [rng.randint(1, 4), 10], "atom": progs.atom("b2")}], "body": []})
        levels = [copy.deepcopy(base)]
        steps, expect, heads = [], [], (["b1", "b2"] if base["ads"] else [])
        for lv in range(1, rng.randint(2, 3) + 1):
            steps.append(["extend"])
            levels.append(copy.deepcopy(levels[-1]))
            for j in range(rng.randint(1, 2)):
                hs = ["a%d_%d_%d" % (lv, j, m) for m in range(rng.randint(2, 3))]
                ad = {"heads": [{"p": [rng.randint(1, 3), 10], "atom": progs.atom(h)} for h in hs],
                      "body": [progs.lit(progs.atom("f0"))] if nb and rng.random() < 0.3 else []}
                steps.append(["add", stmt_text("ads", ad)])
                levels[-1]["ads"].append(ad)
                heads = heads + hs
            # a rule over heads of different ADs (mutually exclusive only if they belong to the same AD)
            x, y = rng.sample(heads, 2)
            rule = {"head": progs.atom("t%d" % lv), "body": [progs.lit(progs.atom(x)), progs.lit(progs.atom(y))]}
            steps.append(["add", stmt_text("rules", rule)])
            levels[-1]["rules"].append(rule)
            for qa in ("t%d" % lv, x, y):
                steps.append(["q", lv, qa])
                snap = copy.deepcopy(levels[lv])
                snap["queries"] = [progs.atom(qa)]
                expect.append((len(steps) - 1, snap, lv, lv))
        g = {"queries": []}
        jobs.append(("extend_history", {"base_text": progs.render(base), "steps": steps}))
        meta.append((g, base, steps, expect))
    res = pl.run_jobs(jobs, nproc=ctx.nproc, timeout=120)
    progs_to_judge, where = [], []
    for hi, ((g, base, steps, expect), r) in enumerate(zip(meta, res)):
        if r.get("error"):
            if r.get("inconclusive"):
                ctx.inconclusive += 1
                continue
            ctx.violation({"clause": "crash", "error": r["error"], "site": r.get("site", "")},
                          "history raised %s: %s\nbase:\n%s\nsteps=%s" % (r["error"], r.get("msg"), progs.render(base), steps),
                          {"base_text": progs.render(base), "steps": steps})
            continue
        for (si, snap, lv, depth) in expect:
            progs_to_judge.append(snap)
            where.append((hi, si, lv, depth, r["steps"][si]))
    J = semcheck.judge(progs_to_judge, nproc=ctx.nproc)
    nontriv = set()
    for snap, j, (hi, si, lv, depth, run) in zip(progs_to_judge, J, where):
        ctx.evaluations += 1
        g, base, steps, expect = meta[hi]
        vs = semcheck.verdict(snap, j, run) or []
        if depth > 0:
            nontriv.add(hi)
        for (clause, detail) in vs:
            sig = {"clause": clause, "level": "ancestor" if lv < depth else "extension"}
            if run.get("error"):
                sig.update({"error": run["error"], "site": run.get("site", ""), "chain": run.get("chain", "")})
            sig.update(semcheck.triggers(snap))
            ctx.violation(sig, "query at step %d on database level %d (depth %d): %s\nbase:\n%sdenoted program:\n%s\nsteps=%s" % (
                si, lv, depth, detail, progs.render(base), progs.render(snap), steps),
                {"base_text": progs.render(base), "steps": steps, "step": si, "snapshot": snap})
    if meta:
        ctx.sample({"base": progs.render(meta[0][1]), "steps": meta[0][2], "recorded": res[0].get("steps")})
    cov.update({
        "evaluations": ctx.evaluations, "distinct_nontrivial": len(nontriv) + cov.get("traces_validated_against_impl", 0),
        "rule": "(a) every history of ClauseDB.tla with 4 operations (fact / rule with 1-2 calls / extend over 2 predicates, 3 "
                "databases) and seeded random histories of 5-9 operations over 3 predicates and 4 databases, executed on real "
                "ClauseDB objects, every database's view judged after every operation; (b) generated programs split into a "
                "prepared base and a shuffled sequence of added facts/rules/ADs (new and existing predicates), with nested "
                "extend() calls and queries interleaved on the extension and on its ancestors; every query judged by TLC on "
                "the program that database denotes; non-trivial = structural history, or semantic history with >= 1 addition "
                "and a judged query",
        "histories": len(meta), "queries_judged": len(progs_to_judge), "exhaustive": False})
    ctx.write_evidence("model_checking", cov,
                       assumptions=["reference: Semantics.tla on the union program (order-free), so 'same as preparing the union from "
                                    "scratch' is implied by both agreeing with the semantics",
                                    "clauses are only added to databases that have not been extended (extend()'s contract)",
                                    "the structural model is propositional: argument indexing (ClauseIndex) is covered by C13"])


def replay(ctx, path):
    with open(path) as f:
        d = json.load(f)
    c = d["case"]
    if "hist" in c:
        o = pl.run_local("clausedb_history", cases=[{"id": 0, "hist": c["hist"], "every": True}])["results"][0]
        print(json.dumps(o)[:3000])
        ctx.evaluations = 1
        if not o.get("crash"):
            j = tlc.judge_batch("JudgeClauseDB", [{"id": 0, "hist": c["hist"], "snaps": o["snaps"]}], nproc=1)[0]
            print(j)
            if not j["ok"]:
                ctx.violation({"clause": "database-shows-wrong-clauses", "level": "structural"}, str(j), c)
        ctx.write_evidence("exploration", {"evaluations": 1, "distinct_nontrivial": 0, "rule": "replay", "samples": [c["hist"]]})
        return
    r = pl.run_local("extend_history", base_text=c["base_text"], steps=c["steps"])
    print(json.dumps(r)[:3000])
    ctx.evaluations = 1
    if r.get("error"):
        ctx.violation({"clause": "crash", "error": r["error"]}, r.get("msg", ""), c)
    elif "snapshot" in c:
        j = semcheck.judge([c["snapshot"]], nproc=1, use_cache=False)[0]
        run = r["steps"][c["step"]]
        for (clause, detail) in semcheck.verdict(c["snapshot"], j, run) or []:
            ctx.violation({"clause": clause}, detail, c)
    ctx.write_evidence("exploration", {"evaluations": 1, "distinct_nontrivial": 0, "rule": "replay", "samples": [c["steps"]]})

"""C29 - extending a prepared database is equivalent to preparing the union; the parent is unchanged.

Histories: prepare a base program, extend() (also nested), add facts / rules / ADs for new and existing predicates
to the extension, interleave queries on the extension and on its ancestors.  Every query result is judged by
Semantics.tla on the program that the queried database denotes at that moment (base + additions visible at that level)."""
import copy
import json
import random

from .. import pl, progs, semcheck
from . import common


def split(p, rng):
    """(base program, list of additions [(kind, stmt)]) keeping the deterministic domain d/1 in the base"""
    base = copy.deepcopy(p)
    base["queries"], base["evidence"] = [], []
    base.pop("order", None)
    adds = []
    for kind in ("facts", "ads", "rules"):
        keep = []
        for st in base[kind]:
            is_d = kind == "rules" and st["head"]["f"] == "d"
            if not is_d and rng.random() < 0.4:
                adds.append((kind, st))
            else:
                keep.append(st)
        base[kind] = keep
    rng.shuffle(adds)
    return base, adds


def stmt_text(kind, st):
    q = progs.empty_program()
    q[kind] = [st]
    return progs.render(q)


def run(ctx):
    rng = random.Random(ctx.seed + 2929)
    G = semcheck.gen_programs(ctx.seed * 7919 + 291, ctx.pick(130, 1600), "strat", evidence=False)
    jobs, meta = [], []
    for g in G:
        if not g["queries"]:
            continue
        base, adds = split(g, rng)
        if not adds:
            continue
        levels = [copy.deepcopy(base)]       # program denoted by each database level
        steps = [["extend"]]
        levels.append(copy.deepcopy(base))
        expect = []                          # (step index, program snapshot)
        for (kind, st) in adds:
            if rng.random() < 0.2 and len(levels) < 4:
                steps.append(["extend"])
                levels.append(copy.deepcopy(levels[-1]))
            steps.append(["add", stmt_text(kind, st)])
            levels[-1][kind].append(copy.deepcopy(st))
            if rng.random() < 0.6:
                lv = rng.randrange(len(levels)) if rng.random() < 0.5 else len(levels) - 1
                q = rng.choice(g["queries"])
                steps.append(["q", lv, progs.r_atom(q)])
                snap = copy.deepcopy(levels[lv])
                snap["queries"] = [q]
                expect.append((len(steps) - 1, snap, lv, len(levels) - 1))
        # final: every query on the deepest extension and on the base
        for q in g["queries"][:2]:
            for lv in (len(levels) - 1, 0):
                steps.append(["q", lv, progs.r_atom(q)])
                snap = copy.deepcopy(levels[lv])
                snap["queries"] = [q]
                expect.append((len(steps) - 1, snap, lv, len(levels) - 1))
        jobs.append(("extend_history", {"base_text": progs.render(base), "steps": steps}))
        meta.append((g, base, steps, expect))
    res = pl.run_jobs(jobs, nproc=ctx.nproc, timeout=120)
    progs_to_judge, where = [], []
    for hi, ((g, base, steps, expect), r) in enumerate(zip(meta, res)):
        if r.get("error"):
            if r.get("inconclusive"):
                ctx.inconclusive += 1
                continue
            ctx.violation({"clause": "crash", "error": r["error"], "site": r.get("site", "")},
                          "history raised %s: %s\nbase:\n%s\nsteps=%s" % (r["error"], r.get("msg"), progs.render(base), steps),
                          {"base_text": progs.render(base), "steps": steps})
            continue
        for (si, snap, lv, depth) in expect:
            progs_to_judge.append(snap)
            where.append((hi, si, lv, depth, r["steps"][si]))
    J = semcheck.judge(progs_to_judge, nproc=ctx.nproc)
    nontriv = set()
    for snap, j, (hi, si, lv, depth, run) in zip(progs_to_judge, J, where):
        ctx.evaluations += 1
        g, base, steps, expect = meta[hi]
        if semcheck.triggers(snap).get("repeated_var_query"):
            continue
        vs = semcheck.verdict(snap, j, run) or []
        if depth > 0:
            nontriv.add(hi)
        for (clause, detail) in vs:
            sig = {"clause": clause, "level": "ancestor" if lv < depth else "extension"}
            if run.get("error"):
                sig.update({"error": run["error"], "site": run.get("site", ""), "chain": run.get("chain", "")})
            sig.update(semcheck.triggers(snap))
            ctx.violation(sig, "query at step %d on database level %d (depth %d): %s\nbase:\n%sdenoted program:\n%s\nsteps=%s" % (
                si, lv, depth, detail, progs.render(base), progs.render(snap), steps),
                {"base_text": progs.render(base), "steps": steps, "step": si, "snapshot": snap})
    if meta:
        ctx.sample({"base": progs.render(meta[0][1]), "steps": meta[0][2], "recorded": res[0].get("steps")})
    ctx.write_evidence("exploration", {
        "evaluations": ctx.evaluations, "distinct_nontrivial": len(nontriv),
        "rule": "generated programs split into a prepared base and a shuffled sequence of added facts/rules/ADs (new and "
                "existing predicates), with nested extend() calls and queries interleaved on the extension and on its "
                "ancestors; every query judged by TLC on the program that database denotes; non-trivial = history with >= 1 "
                "addition and a judged query",
        "histories": len(meta), "queries_judged": len(progs_to_judge)},
        assumptions=["reference: Semantics.tla on the union program (order-free), so 'same as preparing the union from "
                     "scratch' is implied by both agreeing with the semantics"])


def replay(ctx, path):
    with open(path) as f:
        d = json.load(f)
    c = d["case"]
    r = pl.run_local("extend_history", base_text=c["base_text"], steps=c["steps"])
    print(json.dumps(r)[:3000])
    ctx.evaluations = 1
    if r.get("error"):
        ctx.violation({"clause": "crash", "error": r["error"]}, r.get("msg", ""), c)
    elif "snapshot" in c:
        j = semcheck.judge([c["snapshot"]], nproc=1, use_cache=False)[0]
        run = r["steps"][c["step"]]
        for (clause, detail) in semcheck.verdict(c["snapshot"], j, run) or []:
            ctx.violation({"clause": clause}, detail, c)
    ctx.write_evidence("exploration", {"evaluations": 1, "distinct_nontrivial": 0, "rule": "replay", "samples": [c["steps"]]})

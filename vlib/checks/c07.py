"""C07 - marginals do not depend on the textual order of the program (every permutation judged by Semantics.tla)."""
import random

from .. import progs, semcheck
from . import common


def run(ctx):
    k = ctx.pick(5, 12)
    P = semcheck.gen_programs(ctx.seed * 7919 + 61, ctx.pick(110, 1400), "strat", p_edge=True)
    P += common.family_small(ctx.pick(50, 700), ctx.seed + 6000)
    P += common.multirec_family(ctx.pick(40, 500), ctx.seed + 6100)
    P += common.cyclic_family(ctx.pick(80, 1000), ctx.seed + 6100, evidence=0.3)
    P += common.repvar_family(ctx.pick(50, 600), ctx.seed + 6150)
    rng = random.Random(ctx.seed + 707)

    def variants(p):
        vs = [("default", {"text": progs.render(p)})]
        for i in range(k):
            q = progs.permute(p, rng)
            vs.append(("perm#%d" % i, {"text": progs.render(q)}))
        return vs

    def post(P_, J, runs):
        ctx.cov["relational"] = common.relational(
            ctx, P_, J, runs, clause="order-dependent",
            # C07 speaks about probabilities and reported instances of programs in the C01 fragment; for programs
            # with a cycle through negation or an undefined predicate which error surfaces first may depend on order
            only=lambda p, j: j["valid"] and j["mustAnswer"] and not j["undefPreds"])

    J, runs, cov = common.sem_check(ctx, P, variants, level="exploration", post=post, write=False)
    cov["permutations_per_program"] = k
    cov["relational_comparisons"] = ctx.cov.get("relational", 0)
    ctx.write_evidence("exploration", cov, assumptions=[
        "permutations keep every negated literal after the positive literals that bind its variables"])


def replay(ctx, path):
    common.sem_replay(ctx, path)

"""C04 - unbuffered / rc_first / documented random-order evaluation agrees with the default engine."""
import hashlib
import json
import os

from .. import progs, semcheck
from . import common

CORPUS_SEED = 424242
CORPUS_MODES = [("unbuf", "unbuf"), ("rc", "rc")] + [("rand#%d" % s, "rand:%d" % (9000 + s)) for s in range(5)]
KNOWN_CASES = os.path.join(os.path.dirname(os.path.dirname(os.path.dirname(os.path.abspath(__file__)))), "tools", "c04_corpus_known.json")


def corpus():
    """A FIXED set of cyclic programs (independent of the run's seed).  The unbuffered modes of the pinned tree fail on many
    cyclic programs (KF5, KF6, KF6b, KF7, KF27); on this corpus the failing (program, mode) pairs are listed one by one in
    tools/c04_corpus_known.json, so that any OTHER pair that starts to fail is reported."""
    P = [p for p in semcheck.gen_programs(CORPUS_SEED, 700, "strat", p_edge=True) if semcheck.triggers(p).get("cyclic")][:140]
    P += common.mutual_family(90, CORPUS_SEED)
    P += [p for p in common.cyclic_family(120, CORPUS_SEED, evidence=0.3) if semcheck.triggers(p).get("cyclic")][:60]
    return P


def case_key(p, vn):
    q = {k: v for k, v in p.items() if k != "id"}
    return "%s/%s" % (hashlib.sha1(progs.canon(q).encode()).hexdigest()[:12], vn)



def run(ctx):
    k = ctx.pick(4, 12)
    P = semcheck.gen_programs(ctx.seed * 7919 + 31, ctx.pick(120, 1500), "strat", p_edge=True)
    P += semcheck.gen_programs(ctx.seed * 7919 + 32, ctx.pick(40, 500), "negloop")
    P += common.family_small(ctx.pick(80, 1500), ctx.seed + 3000)

    def variants(p):
        t = progs.render(p)
        vs = [("default", {"text": t}), ("unbuf", {"text": t, "engine": "unbuf"}), ("rc", {"text": t, "engine": "rc"})]
        for s in range(k):
            vs.append(("rand#%d" % s, {"text": t, "engine": "rand:%d" % (ctx.seed * 1000 + s)}))
        return vs

    def post(P_, J, runs):
        ctx.cov["relational"] = common.relational(ctx, P_, J, runs, clause="mode-dependent")

    J, runs, cov = common.sem_check(ctx, P, variants, level="exploration", post=post, write=False)
    cov["corpus"] = run_corpus(ctx)
    cov["modes"] = ["unbuffered depth-first", "unbuffered rc_first", "%d seeded random orders (engine.rst)" % k]
    cov["relational_comparisons"] = ctx.cov.get("relational", 0)
    ctx.write_evidence("exploration", cov)


def run_corpus(ctx):
    P = corpus()
    unstable = set(json.load(open(KNOWN_CASES)).get("unstable_programs", [])) if os.path.exists(KNOWN_CASES) else set()
    P = [p for p in P if case_key(p, "").split("/")[0] not in unstable]

    def variants(p):
        t = progs.render(p)
        return [("default", {"text": t})] + [(vn, {"text": t, "engine": eng}) for vn, eng in CORPUS_MODES]

    def sig_extra(p, j, r, vn):
        # identified by the specific input: the broad signatures of the unbuffered-mode findings do not apply here
        return {"cyclic": "corpus", "corpus_case": case_key(p, vn)}

    def post(P_, J, runs):
        ctx.cov["relational_corpus"] = common.relational(ctx, P_, J, runs, clause="mode-dependent", sig_extra=sig_extra)

    before = ctx.evaluations
    common.sem_check(ctx, P, variants, level="exploration", post=post, write=False, sig_extra=sig_extra)
    return {"programs": len(P), "modes": [m for m, _ in CORPUS_MODES], "runs": ctx.evaluations - before,
            "excluded_unstable_programs": len(unstable)}


def replay(ctx, path):
    common.sem_replay(ctx, path)

"""C04 - unbuffered / rc_first / documented random-order evaluation agrees with the default engine."""
from .. import progs, semcheck
from . import common


def run(ctx):
    k = ctx.pick(4, 12)
    P = semcheck.gen_programs(ctx.seed * 7919 + 31, ctx.pick(120, 1500), "strat", p_edge=True)
    P += semcheck.gen_programs(ctx.seed * 7919 + 32, ctx.pick(40, 500), "negloop")
    P += common.family_small(ctx.pick(80, 1500), ctx.seed + 3000)

    def variants(p):
        t = progs.render(p)
        vs = [("default", {"text": t}), ("unbuf", {"text": t, "engine": "unbuf"}), ("rc", {"text": t, "engine": "rc"})]
        for s in range(k):
            vs.append(("rand#%d" % s, {"text": t, "engine": "rand:%d" % (ctx.seed * 1000 + s)}))
        return vs

    def post(P_, J, runs):
        ctx.cov["relational"] = common.relational(ctx, P_, J, runs, clause="mode-dependent")

    J, runs, cov = common.sem_check(ctx, P, variants, level="exploration", post=post, write=False)
    cov["modes"] = ["unbuffered depth-first", "unbuffered rc_first", "%d seeded random orders (engine.rst)" % k]
    cov["relational_comparisons"] = ctx.cov.get("relational", 0)
    ctx.write_evidence("exploration", cov)


def replay(ctx, path):
    common.sem_replay(ctx, path)

"""C02 - programs with a cycle through negation are rejected, never answered (classes from Semantics.tla)."""
from .. import progs, semcheck
from . import common


def run(ctx):
    P = semcheck.gen_programs(ctx.seed * 7919 + 12, ctx.pick(160, 2500), "negloop")
    P += common.family_small(ctx.pick(300, 5000), ctx.seed + 1000)
    P += semcheck.gen_programs(ctx.seed * 7919 + 13, ctx.pick(60, 800), "strat")
    common.sem_check(ctx, P, variants=lambda p: [("default", {"text": progs.render(p)})], level="exploration")


def replay(ctx, path):
    common.sem_replay(ctx, path)

"""C02 - programs with a cycle through negation are rejected, never answered (classes from Semantics.tla)."""
from .. import progs, semcheck
from . import common


def run(ctx):
    P = semcheck.gen_programs(ctx.seed * 7919 + 12, ctx.pick(160, 2500), "negloop")
    P += common.family_small(ctx.pick(300, 5000), ctx.seed + 1000)
    P += semcheck.gen_programs(ctx.seed * 7919 + 13, ctx.pick(60, 800), "strat")
    P += common.negloop_templates(ctx.pick(250, 3000), ctx.seed + 2200)
    P += common.single_literal_family([(3, 10)] if ctx.quick else [(3, 10), (1, 1), (0, 1)])      # exhaustive: 1764 programs
    # negative loops next to / below open positive cycles (4-6 derived atoms)
    P += common.cyclic_family(ctx.pick(400, 6000), ctx.seed + 2100, evidence=0.2, neg=0.1, neg_derived=0.18)
    common.sem_check(ctx, P, variants=lambda p: [("default", {"text": progs.render(p)})], level="exploration")


def replay(ctx, path):
    common.sem_replay(ctx, path)

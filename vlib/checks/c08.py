"""C08 - a query's answer does not depend on what else was grounded before it.

Histories of engine.ground / engine.query calls sharing one target formula and one prepared ClauseDB, in seeded
orders, each judged by Semantics.tla and compared with the default pipeline."""
import itertools
import random

from .. import pl, progs, semcheck
from ..tlc import MachineryError
from . import common


def prog_text(p):
    q = dict(p)
    q = {k: (v if k not in ("queries", "evidence") else []) for k, v in p.items()}
    q.pop("order", None)
    return progs.render(q)


def steps_of(p):
    st = []
    for q in p["queries"]:
        st.append(["query", progs.r_atom(q)])
    for e in p["evidence"]:
        st.append(["ev+" if e["s"] == 1 else "ev-", progs.r_atom(e["atom"])])
    return st


def run(ctx):
    k = ctx.pick(5, 14)
    P = semcheck.gen_programs(ctx.seed * 7919 + 71, ctx.pick(110, 1400), "strat", p_edge=True)
    P += common.family_small(ctx.pick(50, 700), ctx.seed + 7000)
    P += common.cyclic_family(ctx.pick(120, 1500), ctx.seed + 7100, evidence=0.3)
    P += common.repvar_family(ctx.pick(60, 800), ctx.seed + 7150)
    P = [p for p in P if len(p["queries"]) + len(p["evidence"]) >= 2]
    rng = random.Random(ctx.seed + 808)

    def variants(p):
        t = prog_text(p)
        base = steps_of(p)
        vs = [("default", {"text": progs.render(p)}),
              ("fresh", {"_task": "history", "text": t, "steps": base, "mode": "fresh"})]
        perms = list(itertools.permutations(range(len(base))))
        rng.shuffle(perms)
        for i, pm in enumerate(perms[:k]):
            st = [base[j] for j in pm]
            if i % 2 == 1:
                # interleave throw-away engine.query probes of the same goals
                st2 = []
                for s in st:
                    if rng.random() < 0.5:
                        st2.append(["probe", rng.choice(base)[1]])
                    st2.append(s)
                st = st2
            vs.append(("hist#%d" % i, {"_task": "history", "text": t, "steps": st, "mode": "shared"}))
        return vs

    def post(P_, J, runs):
        ctx.cov["relational"] = common.relational(ctx, P_, J, runs, clause="history-dependent")

    J, runs, cov = common.sem_check(ctx, P, variants, level="exploration", post=post, write=False)
    cov["compound_answer_family"] = compound_family(ctx, rng)
    cov["definecache_model"] = definecache_model(ctx)
    cov["histories_per_program"] = k
    cov["relational_comparisons"] = ctx.cov.get("relational", 0)
    ctx.write_evidence("exploration", cov, assumptions=[
        "histories use the public engine.prepare / engine.ground(db, term, target, label) / engine.query API with "
        "the same labels ClauseDBEngine.ground_all uses"])


def definecache_model(ctx):
    """DefineCache.tla: the table of completed / active goals (engine_stack.DefineCache), model checked and replayed on the real class"""
    from .. import mc, tlc
    cfgs = ctx.pick(["DefineCache_dont.cfg", "DefineCache_q.cfg"], ["DefineCache_dont.cfg", "DefineCache_two.cfg", "DefineCache_small.cfg"])
    R = mc.check_cfgs([("DefineCache", c, True) for c in cfgs] + [("DefineCache", "DefineCache_perarg.cfg", False)],
                      nproc=ctx.nproc, timeout=ctx.pick(900, 3000), parallel=4)
    cases = []
    for c in cfgs:
        dont = [2] if c == "DefineCache_dont.cfg" else []
        av = ([1] if c != "DefineCache_two.cfg" else [1, 2]) + [-1, -3]
        goals = [[f, [x, y]] for f in ([1, 2] if dont else [1]) for x in av for y in av]
        H = mc.exported(R[c]["out"])
        if not H:
            raise MachineryError("no behaviours exported by " + c)
        for h in H:
            cases.append({"id": len(cases), "dont": dont, "hist": h["hist"], "goals": goals,
                          "_tab": [next((t for t in h["tab"] if t["g"] == g), {"g": g, "hit": 0, "items": [], "a": 0}) for g in goals]})
    chunk = 4000
    res = pl.run_jobs([("definecache_replay", {"cases": [{k: c[k] for k in ("id", "dont", "hist", "goals")} for c in cases[i:i + chunk]]})
                       for i in range(0, len(cases), chunk)], nproc=ctx.nproc, timeout=900, chunksize=1)
    drift = 0
    for r in res:
        if r.get("error"):
            raise MachineryError("definecache_replay failed: %s" % r)
        for o in r["results"]:
            ctx.evaluations += 1
            c = cases[o["id"]]
            hist = [[e["k"], e["g"], e["res"]] for e in c["hist"]]
            if o.get("error"):
                ctx.violation({"clause": "crash", "level": "definecache-direct", "error": o["error"].split(":")[0]},
                              "DefineCache call history %s: %s" % (hist, o["error"]), {"dcache": {"dont": c["dont"], "hist": c["hist"], "goals": c["goals"]}})
                continue
            for exp, got in zip(c["_tab"], o["tab"]):
                if exp["hit"] == got["hit"] and exp["items"] == got["items"] and exp["a"] == got["a"]:
                    continue
                # The model's lookups equal the abstract (variant-class, latest-call) meaning in every state (invariant Refines), so a
                # hit with other content, or an active node for a goal that is no variant of an activated one, is a wrong table answer;
                # a miss where the model hits only costs sharing and is reported as drift.
                if (got["hit"] and got["items"] != exp["items"]) or (got["a"] and got["a"] != exp["a"]):
                    ctx.violation({"clause": "table-returns-other-goal", "level": "definecache-direct"},
                                  "DefineCache call history %s: lookup of goal %s returns %s / active node %s, the calls made define %s / %s" % (
                                      hist, exp["g"], got["items"] if got["hit"] else "miss", got["a"], exp["items"] if exp["hit"] else "miss", exp["a"]),
                                  {"dcache": {"dont": c["dont"], "hist": c["hist"], "goals": c["goals"], "tab": c["_tab"]}})
                else:
                    drift += 1
                break
    if drift:
        print("DRIFT property=C08 %d of %d call histories on the real DefineCache differ from DefineCache.tla (misses only)" % (drift, len(cases)))
    return {"model_states": {c: R[c]["states"] for c in cfgs}, "expected_counterexample_found": "DefineCache_perarg.cfg (one VarReindex per argument)",
            "model_behaviours_replayed": len(cases), "model_drift": drift}


def compound_texts(rng, n):
    """Programs whose goals have answers with function symbols, some of them partially instantiated (p(f(_))), called both
    unbound-then-filtered and ground.  Outside the function-free fragment of Semantics.tla: judged only by the relation the
    property states (every history = fresh grounding of each query)."""
    out = []
    shapes = [("f(%s)", ["1", "2", "a"]), ("g(c,%s)", ["1", "b"]), ("[%s|t]", ["1", "2"]), ("h(k(%s))", ["1", "2"])]
    for _ in range(n):
        sh, vals = rng.choice(shapes)
        facts = ["a", "b", "c", "d"]
        lines = ["0.%d::%s." % (rng.randint(1, 9), f) for f in facts]
        clauses = []
        for v in rng.sample(vals, rng.randint(1, len(vals))):
            clauses.append("p(%s) :- %s." % (sh % v, rng.choice(facts)))
        clauses.append("p(%s) :- %s." % (sh % "_", rng.choice(facts)))
        if rng.random() < 0.4:
            clauses.append("p(%s) :- %s, %s." % (sh % rng.choice(vals), rng.choice(facts), rng.choice(facts)))
        rng.shuffle(clauses)
        lines += clauses
        goals = []
        for i, v in enumerate(vals[:2]):
            lines.append("q%d :- p(X), X = %s." % (i, sh % v))
            lines.append("r%d :- p(%s), Y = %s." % (i, sh % "Y", v))
            goals += ["q%d" % i, "r%d" % i, "p(%s)" % (sh % v)]
        lines.append("s :- p(X), p(X).")
        goals.append("s")
        rng.shuffle(goals)
        out.append(("\n".join(lines) + "\n", goals[:rng.randint(3, 6)]))
    return out


def compound_family(ctx, rng):
    T = compound_texts(rng, ctx.pick(60, 600))
    jobs, index = [], []
    for i, (t, goals) in enumerate(T):
        base = [["query", g] for g in goals]
        jobs.append(("history", {"text": t, "steps": base, "mode": "fresh"}))
        index.append((i, "fresh", base))
        perms = list(itertools.permutations(range(len(base))))
        rng.shuffle(perms)
        for k, pm in enumerate(perms[:ctx.pick(4, 10)]):
            st = [base[j] for j in pm]
            jobs.append(("history", {"text": t, "steps": st, "mode": "shared"}))
            index.append((i, "hist#%d" % k, st))
    runs = pl.run_jobs(jobs, nproc=ctx.nproc, timeout=60)
    fresh, n = {}, 0
    for (i, vn, st), r in zip(index, runs):
        if vn == "fresh":
            fresh[i] = r
    for (i, vn, st), r in zip(index, runs):
        if vn == "fresh":
            continue
        ctx.evaluations += 1
        f = fresh[i]
        if f.get("error") or f.get("inconclusive") or r.get("inconclusive"):
            continue
        n += 1
        case = {"kind": "compound", "text": T[i][0], "steps": st, "fresh": f.get("answers")}
        sig = {"clause": "history-dependent", "variant": "hist", "family": "compound-answers"}
        if r.get("error"):
            ctx.violation(dict(sig, error=r["error"], site=r.get("site", "")),
                          "history %s raised %s (%s); each query grounded on its own answers %s\n%s" % (st, r["error"], r.get("msg"), f["answers"], T[i][0]), case)
            continue
        for name, v in f["answers"].items():
            w = r["answers"].get(name)
            if w is None or abs(w - v) > 1e-9:
                ctx.violation(sig, "history %s reports %s = %r, grounded on its own it is %r\n%s" % (st, name, w, v, T[i][0]), case)
                break
    return {"programs": len(T), "histories_compared": n}


def replay(ctx, path):
    import json
    with open(path) as f:
        d = json.load(f)
    c = d["case"]
    if "dcache" in c:
        x = c["dcache"]
        o = pl.run_local("definecache_replay", cases=[{"id": 0, "dont": x["dont"], "hist": x["hist"], "goals": x["goals"]}])["results"][0]
        print(json.dumps(x["hist"]), "\n->", o)
        ctx.evaluations = 1
        if o.get("error"):
            ctx.violation({"clause": "crash", "level": "definecache-direct", "error": o["error"].split(":")[0]}, o["error"], c)
        else:
            for exp, got in zip(x.get("tab", []), o["tab"]):
                if (got["hit"] and got["items"] != exp["items"]) or (got["a"] and got["a"] != exp["a"]):
                    ctx.violation({"clause": "table-returns-other-goal", "level": "definecache-direct"}, "lookup of %s returns %s" % (exp["g"], got), c)
                    break
        ctx.write_evidence("exploration", {"evaluations": 1, "distinct_nontrivial": 0, "samples": [x["hist"]]})
        return
    if c.get("kind") == "compound":
        base = sorted(c["steps"])
        f = pl.run_local("history", text=c["text"], steps=base, mode="fresh")
        r = pl.run_local("history", text=c["text"], steps=c["steps"], mode="shared")
        print(c["text"], c["steps"], "\nfresh:", f, "\nshared:", r)
        ctx.evaluations = 1
        sig = {"clause": "history-dependent", "variant": "hist", "family": "compound-answers"}
        if r.get("error"):
            ctx.violation(dict(sig, error=r["error"], site=r.get("site", "")), r["error"], c)
        elif any(r["answers"].get(k) is None or abs(r["answers"][k] - v) > 1e-9 for k, v in f.get("answers", {}).items()):
            ctx.violation(sig, "history differs from fresh grounding", c)
        ctx.write_evidence("exploration", {"evaluations": 1, "distinct_nontrivial": 0, "samples": [c["text"]]})
        return
    common.sem_replay(ctx, path)

"""C08 - a query's answer does not depend on what else was grounded before it.

Histories of engine.ground / engine.query calls sharing one target formula and one prepared ClauseDB, in seeded
orders, each judged by Semantics.tla and compared with the default pipeline."""
import itertools
import random

from .. import progs, semcheck
from . import common


def prog_text(p):
    q = dict(p)
    q = {k: (v if k not in ("queries", "evidence") else []) for k, v in p.items()}
    q.pop("order", None)
    return progs.render(q)


def steps_of(p):
    st = []
    for q in p["queries"]:
        st.append(["query", progs.r_atom(q)])
    for e in p["evidence"]:
        st.append(["ev+" if e["s"] == 1 else "ev-", progs.r_atom(e["atom"])])
    return st


def run(ctx):
    k = ctx.pick(5, 14)
    P = semcheck.gen_programs(ctx.seed * 7919 + 71, ctx.pick(110, 1400), "strat", p_edge=True)
    P += common.family_small(ctx.pick(50, 700), ctx.seed + 7000)
    P += common.cyclic_family(ctx.pick(120, 1500), ctx.seed + 7100, evidence=0.3)
    P += common.repvar_family(ctx.pick(60, 800), ctx.seed + 7150)
    P = [p for p in P if len(p["queries"]) + len(p["evidence"]) >= 2]
    rng = random.Random(ctx.seed + 808)

    def variants(p):
        t = prog_text(p)
        base = steps_of(p)
        vs = [("default", {"text": progs.render(p)}),
              ("fresh", {"_task": "history", "text": t, "steps": base, "mode": "fresh"})]
        perms = list(itertools.permutations(range(len(base))))
        rng.shuffle(perms)
        for i, pm in enumerate(perms[:k]):
            st = [base[j] for j in pm]
            if i % 2 == 1:
                # interleave throw-away engine.query probes of the same goals
                st2 = []
                for s in st:
                    if rng.random() < 0.5:
                        st2.append(["probe", rng.choice(base)[1]])
                    st2.append(s)
                st = st2
            vs.append(("hist#%d" % i, {"_task": "history", "text": t, "steps": st, "mode": "shared"}))
        return vs

    def post(P_, J, runs):
        ctx.cov["relational"] = common.relational(ctx, P_, J, runs, clause="history-dependent")

    J, runs, cov = common.sem_check(ctx, P, variants, level="exploration", post=post, write=False)
    cov["histories_per_program"] = k
    cov["relational_comparisons"] = ctx.cov.get("relational", 0)
    ctx.write_evidence("exploration", cov, assumptions=[
        "histories use the public engine.prepare / engine.ground(db, term, target, label) / engine.query API with "
        "the same labels ClauseDBEngine.ground_all uses"])


def replay(ctx, path):
    common.sem_replay(ctx, path)

"""C23 - k-best anytime bounds are sound and tight on completion; explanation proofs sum to the probability."""
import json

from .. import pl, progs, semcheck
from ..core import close
from . import common


def run(ctx):
    P = semcheck.gen_programs(ctx.seed * 7919 + 231, ctx.pick(110, 1400), "strat", evidence=False, max_worlds=200)
    P += common.ad_family(ctx.pick(60, 800), ctx.seed + 23000)
    P += common.cyclic_family(ctx.pick(60, 800), ctx.seed + 23100, evidence=0.0)
    for p in P:
        p["evidence"] = []
    J = semcheck.judge(P, nproc=ctx.nproc)
    jobs, idx = [], []
    for i, p in enumerate(P):
        if not J[i]["valid"] or not J[i]["mustAnswer"] or J[i]["undefPreds"]:
            continue
        t = progs.render(p)
        for name, kw in (("complete", {"explain": True}), ("conv0.5", {"convergence": 0.5}), ("conv0.1", {"convergence": 0.1})):
            jobs.append(("kbest", dict(kw, text=t)))
            idx.append((i, name))
    runs = pl.run_jobs(jobs, nproc=ctx.nproc, timeout=120)
    nontriv = set()
    for (i, name), r in zip(idx, runs):
        p, j = P[i], J[i]
        ctx.evaluations += 1
        t = progs.render(p)
        case = {"kind": "sem", "program": p, "variant": name, "kwargs": {"text": t}, "run": r}
        sig0 = {"variant": name}
        sig0.update(semcheck.triggers(p))
        if r.get("error"):
            if r.get("inconclusive"):
                ctx.inconclusive += 1
                continue
            mro = r.get("mro", [])
            cl = "negative-cycle-on-stratified" if "NegativeCycle" in mro else ("crash" if not r.get("problog_error") else "wrong-error")
            ctx.violation(dict(sig0, clause=cl, error=r["error"], site=r.get("site", ""), chain=r.get("chain", "")),
                          "[%s] %s: %s\n%s" % (name, r["error"], r.get("msg"), t), case)
            continue
        exp = semcheck.expected_table(j)
        if len(exp) > 1:
            nontriv.add(i)
        blocks = {}
        if name == "complete":
            # proof lines are grouped by the head they are printed under (blank separator lines are not reliable: a query
            # whose lower bound reaches 1 returns through the convergence exit, which prints none)
            for b in r["blocks"]:
                if b["kind"] == "unparsed":
                    ctx.violation(dict(sig0, clause="explanation-shape"), "unreadable explanation line %r\n%s" % (b.get("line"), t), case)
                    continue
                if b["kind"] in ("fail", "true"):
                    blocks.setdefault(b["heads"][0], []).append(0.0 if b["kind"] == "fail" else 1.0)
                else:
                    for h, pv in zip(b["heads"], b["ps"]):
                        blocks.setdefault(h, []).append(pv)
        for qn, num in exp.items():
            if qn not in r["bounds"]:
                if num != 0:
                    ctx.violation(dict(sig0, clause="missing-instance"), "[%s] %s (P = %d/%d) not reported\n%s" % (name, qn, num, j["den"], t), case)
                continue
            lo, hi = r["bounds"][qn]
            pe = num / j["den"]
            if lo > pe + 1e-9 or hi < pe - 1e-9:
                ctx.violation(dict(sig0, clause="bounds-do-not-contain-probability"),
                              "[%s] %s: bounds [%r, %r], exact %d/%d = %.10g\n%s" % (name, qn, lo, hi, num, j["den"], pe, t), case)
            elif lo == hi and not close(lo, num, j["den"], 1e-9):
                ctx.violation(dict(sig0, clause="single-value-not-exact"), "[%s] %s: %r, exact %d/%d\n%s" % (name, qn, lo, num, j["den"], t), case)
            if name == "complete":
                if abs(hi - lo) > 1e-9:
                    ctx.violation(dict(sig0, clause="not-tight-on-completion"), "[%s] %s: bounds [%r, %r] after running to completion\n%s" % (
                        name, qn, lo, hi, t), case)
                b = blocks.get(qn)
                if b is None:
                    if num != 0:
                        ctx.violation(dict(sig0, clause="explanation-missing"), "%s (P = %d/%d): no proof is printed under this head; heads printed: %s\n%s" % (
                            qn, num, j["den"], sorted(blocks), t), case)
                    continue
                if abs(sum(b) - pe) > 1e-6:
                    ctx.violation(dict(sig0, clause="explanation-sum"), "%s: proof probabilities %s sum to %r, exact %d/%d\n%s" % (
                        qn, b, sum(b), num, j["den"], t), case)
        if len(ctx.samples) < 2:
            ctx.sample({"text": t, "variant": name, "impl": r, "tlc": {"den": j["den"], "expected": j["expected"]}})
    ctx.write_evidence("exploration", {
        "evaluations": ctx.evaluations, "distinct_nontrivial": len(nontriv),
        "rule": "evidence-free generated programs (C01 generator, AD family, cyclic family); k-best run to completion (with "
                "explanation) and with convergence thresholds 0.5 and 0.1; non-trivial = more than one query instance"},
        assumptions=["exact probabilities from Semantics.tla (TLC)", "proof probabilities are read from the explanation text"])


def replay(ctx, path):
    common.sem_replay(ctx, path)

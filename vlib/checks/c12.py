"""C12 - built-in semirings obey their algebra and documented defaults (exact expectations from SemiringA.tla)."""
import itertools
import json
import random

from .. import pl, tlc
from ..core import close


def run(ctx):
    rng = random.Random(ctx.seed + 1212)
    n = ctx.pick(12, 24)
    grid = [[k, n] for k in range(n + 1)]
    near = [[1, 1000], [999, 1000], [1, 3], [2, 3]]
    vals = grid + near
    cases = []

    def add(**kw):
        kw["id"] = len(cases)
        kw.setdefault("a", [0, 1]); kw.setdefault("b", [0, 1]); kw.setdefault("ws", [])
        cases.append(kw)
    for a, b in itertools.product(vals, repeat=2):
        add(op="plus", a=a, b=b)
        add(op="times", a=a, b=b)
        add(op="normalize", a=a, b=b)
    for a in vals:
        add(op="negate", a=a)
        add(op="value", a=a)
    for _ in range(ctx.pick(300, 3000)):
        k = rng.randint(1, 4)
        ws = []
        rem = n
        for _ in range(k):
            w = rng.randint(0, max(0, rem))
            rem -= w
            ws.append([w, n])
        add(op="ad_complement", ws=ws)
    add(op="one")
    add(op="zero")
    exp = tlc.judge_batch("SemiringA", cases, nproc=ctx.nproc, tag="c12")
    chunk = 400
    res = pl.run_jobs([("semiring_ops", {"cases": cases[i:i + chunk]}) for i in range(0, len(cases), chunk)],
                      nproc=ctx.nproc, timeout=300, chunksize=1)
    base = None
    for r in res:
        if r.get("error"):
            raise tlc.MachineryError("semiring_ops failed: %s" % r)
        base = r["base"]
        for o in r["results"]:
            c = cases[o["id"]]
            e = exp[o["id"]]
            for name in ("prob", "log", "symbolic"):
                ctx.evaluations += 1
                got = o[name]
                desc = "%s %s(%s, %s, %s)" % (name, c["op"], c["a"], c["b"], c["ws"])
                if not e["def"]:
                    continue          # normalisation by zero: undefined
                if c["op"] == "plus" and e["n"] > e["d"] and name != "prob":
                    continue          # sums above one are outside the probability domain
                if c["op"] == "normalize" and e["n"] > e["d"]:
                    continue
                if c["op"] == "ad_complement" and e["n"] < 0:
                    continue
                if not got["ok"]:
                    ctx.violation({"clause": "operation-raised", "semiring": name, "op": c["op"]},
                                  "%s raised %s, exact result %d/%d" % (desc, got["err"], e["n"], e["d"]), {"case": c})
                    continue
                tol = 1e-9 if name != "log" else 1e-8
                if not close(got["v"], e["n"], e["d"], tol):
                    ctx.violation({"clause": "wrong-value", "semiring": name, "op": c["op"]},
                                  "%s = %r, exact result %d/%d" % (desc, got["v"], e["n"], e["d"]), {"case": c})
                if c["op"] == "one" and not got.get("is_one"):
                    ctx.violation({"clause": "is_one(one())", "semiring": name}, desc, {"case": c})
                if c["op"] == "zero" and not got.get("is_zero"):
                    ctx.violation({"clause": "is_zero(zero())", "semiring": name}, desc, {"case": c})
    for k, v in (base or {}).items():
        ctx.evaluations += 1
        if v is not True:
            ctx.violation({"clause": "base-default", "which": k}, "Semiring base class default %s -> %s" % (k, v), {"base": k})
    ctx.sample({"case": cases[50], "exact": exp[50]})
    ctx.write_evidence("exploration", {
        "evaluations": ctx.evaluations, "distinct_nontrivial": len(cases),
        "rule": "all pairs of the grid k/%d plus near-boundary values (1e-3, 1-1e-3, thirds) for plus, times, normalize; negate "
                "and value on every value; random AD complements; one/zero; each on the probability, log-probability (through "
                "log/exp) and symbolic (expression evaluated) semiring; exact results from SemiringA.tla (TLC), whose semiring "
                "laws are checked on a grid at the specification level" % n,
        "base_defaults": base}, assumptions=["float accuracy off the rational grid is not decided",
                                             "the commutative-semiring laws hold for the exact model (TLC ASSUME LawsHoldOn); the "
                                             "implementation agrees with the exact model pointwise on the grid, within tolerance"])


def replay(ctx, path):
    with open(path) as f:
        d = json.load(f)
    print(d)
    ctx.evaluations = 1
    ctx.write_evidence("exploration", {"evaluations": 1, "distinct_nontrivial": 0, "rule": "replay (prints the case)", "samples": [d["case"]]})

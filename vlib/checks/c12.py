"""C12 - built-in semirings obey their algebra and documented defaults (exact expectations from SemiringA.tla)."""
import itertools
import json
import random

from .. import pl, tlc
from ..core import close


def run(ctx):
    rng = random.Random(ctx.seed + 1212)
    n = ctx.pick(12, 24)
    grid = [[k, n] for k in range(n + 1)]
    near = [[1, 1000], [999, 1000], [1, 3], [2, 3]]
    vals = grid + near
    cases = []

    def add(**kw):
        kw["id"] = len(cases)
        kw.setdefault("a", [0, 1]); kw.setdefault("b", [0, 1]); kw.setdefault("ws", [])
        kw.setdefault("x", {"op": "leaf", "q": [0, 1], "a": []}); kw.setdefault("wa", [1, 1, 0]); kw.setdefault("wb", [1, 1, 0])
        cases.append(kw)
    for a, b in itertools.product(vals, repeat=2):
        add(op="plus", a=a, b=b)
        add(op="times", a=a, b=b)
        add(op="normalize", a=a, b=b)
    for a in vals:
        add(op="negate", a=a)
        add(op="value", a=a)
    for _ in range(ctx.pick(300, 3000)):
        k = rng.randint(1, 4)
        ws = []
        rem = n
        for _ in range(k):
            w = rng.randint(0, max(0, rem))
            rem -= w
            ws.append([w, n])
        add(op="ad_complement", ws=ws)
    add(op="one")
    add(op="zero")
    # compound expressions (the laws as pairs of expressions, and random trees); every intermediate value stays in [0, 1]
    from fractions import Fraction

    def leaf(k):
        return {"op": "leaf", "q": [k, 10], "a": []}

    def val(e):
        if e["op"] == "leaf":
            return Fraction(e["q"][0], e["q"][1])
        a = [val(x) for x in e["a"]]
        if any(x is None for x in a):
            return None
        if e["op"] == "plus":
            r = a[0] + a[1]
        elif e["op"] == "times":
            r = a[0] * a[1]
        elif e["op"] == "negate":
            r = 1 - a[0]
        else:
            if a[1] == 0 or a[0] > a[1]:
                return None
            r = a[0] / a[1]
        if r < 0 or r > 1 or r.numerator > 30000 or r.denominator > 30000:
            return None
        return r

    def node(op, *a):
        return {"op": op, "a": list(a), "q": [0, 1]}

    def rnd(depth):
        if depth == 0 or rng.random() < 0.25:
            return leaf(rng.randint(0, 10))
        op = rng.choice(["plus", "plus", "times", "times", "negate", "normalize"])
        if op == "negate":
            return node(op, rnd(depth - 1))
        return node(op, rnd(depth - 1), rnd(depth - 1))
    nx = 0
    while nx < ctx.pick(1500, 20000):
        e = rnd(rng.randint(2, 4))
        if e["op"] != "leaf" and val(e) is not None:
            add(op="expr", x=e)
            nx += 1
    for _ in range(ctx.pick(300, 3000)):
        a, b, c = (leaf(rng.randint(0, 10)) for _ in range(3))
        for e in (node("plus", node("plus", a, b), c), node("plus", a, node("plus", b, c)), node("plus", node("plus", c, a), b),
                  node("times", node("times", a, b), c), node("times", a, node("times", b, c)),
                  node("times", a, node("plus", b, c)), node("plus", node("times", a, b), node("times", a, c)),
                  node("times", node("plus", b, c), a), node("times", node("plus", a, b), node("negate", c)),
                  node("plus", node("times", node("plus", a, b), node("negate", c)), node("times", c, a))):
            if val(e) is not None:
                add(op="expr", x=e)
    # normalisation by a compound value: products of parenthesised groups, sums, negations, quotients (the symbolic semiring has to
    # keep "a / z" meaning a / z whatever the shape of z)
    nz = 0
    while nz < ctx.pick(600, 6000):
        a, b, c, d = (leaf(rng.randint(0, 10)) for _ in range(4))
        zs = [node("times", node("plus", b, c), node("negate", d)), node("times", node("negate", b), node("negate", c)),
              node("times", node("plus", b, c), node("plus", c, d)), node("times", node("negate", b), node("plus", c, d)),
              node("times", node("times", node("negate", b), c), node("negate", d)), node("negate", node("times", b, c)),
              node("plus", node("times", b, c), node("negate", d)), node("normalize", node("negate", b), node("plus", c, d)),
              node("times", node("negate", b), node("normalize", c, node("plus", c, d)))]
        z = rng.choice(zs)
        for e in (node("normalize", a, z), node("normalize", node("times", a, b), z), node("plus", node("normalize", a, z), node("times", c, d))):
            if val(e) is not None:
                add(op="expr", x=e)
                nz += 1
    # operands of very different magnitude (products of small factors in the probability domain, raw logs in the log domain)
    for ea in (0, 1, 5, 9, 20, 100):
        for gap in (0, 1, 8, 12, 15, 16, 17, 18, 20, 30, 40, 100, 150):
            for na, nb in ((3, 7), (10, 1), (1, 10), (5, 5)):
                if ea + gap <= 280:
                    add(op="wide_plus", wa=[na, 10, ea], wb=[nb, 10, ea + gap])
                    add(op="wide_plus", wa=[nb, 10, ea + gap], wb=[na, 10, ea])
                if 2 * ea + gap <= 280:
                    add(op="wide_times", wa=[na, 10, ea], wb=[nb, 10, ea + gap])
                    add(op="wide_times", wa=[nb, 10, ea + gap], wb=[na, 10, ea])
    exp = tlc.judge_batch("SemiringA", cases, nproc=ctx.nproc, tag="c12")
    chunk = 400
    res = pl.run_jobs([("semiring_ops", {"cases": cases[i:i + chunk]}) for i in range(0, len(cases), chunk)],
                      nproc=ctx.nproc, timeout=300, chunksize=1)
    base = None
    for r in res:
        if r.get("error"):
            raise tlc.MachineryError("semiring_ops failed: %s" % r)
        base = r["base"]
        for o in r["results"]:
            c = cases[o["id"]]
            e = exp[o["id"]]
            for name in ("prob", "log", "symbolic"):
                ctx.evaluations += 1
                got = o[name]
                if c["op"].startswith("wide_"):
                    import math
                    desc = "%s %s(%s/%s * 1e-%s, %s/%s * 1e-%s)" % ((name, c["op"][5:]) + tuple(c["wa"]) + tuple(c["wb"]))
                    if not got["ok"]:
                        ctx.violation({"clause": "operation-raised", "semiring": name, "op": c["op"]}, "%s raised %s" % (desc, got["err"]), {"case": c})
                        continue
                    want = math.log(e["n"] / e["d"]) - e["e"] * math.log(10.0)
                    # plus: the exact sum is the larger operand times a factor in [1, 2] (gap 0) / [1, 1 + 10^(1-gap)]
                    slack = math.log(2.0) if e["gap"] == 0 and c["op"] == "wide_plus" else (math.log1p(10.0 ** (1 - e["gap"])) if c["op"] == "wide_plus" else 0.0)
                    if not (want - 1e-7 * (1 + abs(want)) <= got["logv"] <= want + slack + 1e-7 * (1 + abs(want))):
                        ctx.violation({"clause": "wrong-value", "semiring": name, "op": c["op"]},
                                      "%s: log of the result is %r, exact value has log in [%r, %r]" % (desc, got["logv"], want, want + slack), {"case": c})
                    continue
                desc = "%s %s(%s, %s, %s)" % (name, c["op"], c["a"], c["b"], c["ws"]) if c["op"] != "expr" else "%s %s" % (name, json.dumps(c["x"]))
                if not e["def"]:
                    continue          # normalisation by zero: undefined
                if c["op"] == "plus" and e["n"] > e["d"] and name != "prob":
                    continue          # sums above one are outside the probability domain
                if c["op"] == "normalize" and e["n"] > e["d"]:
                    continue
                if c["op"] == "ad_complement" and e["n"] < 0:
                    continue
                if not got["ok"]:
                    ctx.violation({"clause": "operation-raised", "semiring": name, "op": c["op"]},
                                  "%s raised %s, exact result %d/%d" % (desc, got["err"], e["n"], e["d"]), {"case": c})
                    continue
                tol = 1e-9 if name != "log" else 1e-8
                if not close(got["v"], e["n"], e["d"], tol):
                    ctx.violation({"clause": "wrong-value", "semiring": name, "op": c["op"]},
                                  "%s = %r, exact result %d/%d" % (desc, got["v"], e["n"], e["d"]), {"case": c})
                if c["op"] == "one" and not got.get("is_one"):
                    ctx.violation({"clause": "is_one(one())", "semiring": name}, desc, {"case": c})
                if c["op"] == "zero" and not got.get("is_zero"):
                    ctx.violation({"clause": "is_zero(zero())", "semiring": name}, desc, {"case": c})
    for k, v in (base or {}).items():
        ctx.evaluations += 1
        if v is not True:
            ctx.violation({"clause": "base-default", "which": k}, "Semiring base class default %s -> %s" % (k, v), {"base": k})
    ctx.sample({"case": cases[50], "exact": exp[50]})
    ctx.write_evidence("exploration", {
        "evaluations": ctx.evaluations, "distinct_nontrivial": len(cases),
        "rule": "all pairs of the grid k/%d plus near-boundary values (1e-3, 1-1e-3, thirds) for plus, times, normalize; negate "
                "and value on every value; random AD complements; one/zero; each on the probability, log-probability (through "
                "log/exp) and symbolic (expression evaluated) semiring; exact results from SemiringA.tla (TLC), whose semiring "
                "laws are checked on a grid at the specification level" % n,
        "base_defaults": base}, assumptions=["float accuracy off the rational grid is not decided",
                                             "the commutative-semiring laws hold for the exact model (TLC ASSUME LawsHoldOn); the "
                                             "implementation agrees with the exact model pointwise on the grid, within tolerance"])


def replay(ctx, path):
    with open(path) as f:
        d = json.load(f)
    print(d)
    ctx.evaluations = 1
    ctx.write_evidence("exploration", {"evaluations": 1, "distinct_nontrivial": 0, "rule": "replay (prints the case)", "samples": [d["case"]]})

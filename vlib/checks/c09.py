"""C09 / C10 - cycle breaking, Clark's completion and d-DNNF compilation are validated per instance by TLC.

Every generated program is pushed through the real LogicFormula -> LogicDAG -> CNF -> DDNNF pipeline, all artefacts
are recorded, and spec/JudgeCircuit.tla decides, exhaustively over atom assignments / CNF models:
C09: DAG acyclic + same well-founded value of every query/evidence node as the cyclic source; CNF has exactly one
     model per allowed atom assignment and it agrees with the DAG; AD constraints = exactly-one clauses; weights kept.
C10: circuit decomposable, deterministic, smooth, same models as the CNF; labels point to the same literals."""
import json
import random

from .. import mc, pl, progs, semcheck, tlc
from ..tlc import MachineryError
from . import common

C09_KEYS = ["dagAcyclic", "dagMeaning", "cnfConstraints", "cnfCompletion"]
C10_KEYS = ["nnfDecomposable", "nnfSmooth", "nnfDeterministic", "nnfSameModels", "nnfLabels", "nnfConstraints"]


def graph_cyclic(g):
    for k, n in enumerate(g, start=1):
        for c in n["ch"]:
            if c not in (0, 1000000) and abs(c) >= k:
                return True
    return False


def run_both(ctx, which):
    n = ctx.pick(260, 4000)
    P = semcheck.gen_programs(ctx.seed * 7919 + 91, n, "strat", max_worlds=200)
    P += common.family_small(ctx.pick(160, 2500), ctx.seed + 9000)
    P += common.cyclic_family(ctx.pick(500, 6000), ctx.seed + 9100, evidence=0.4)
    texts = [progs.render(p) for p in P]
    if which == "C10":
        # labels on NEGATIVE literals, and atoms that are true (or false) in every model without the grounder noticing
        import random as _r
        rng = _r.Random(ctx.seed + 1010)
        extra = []
        for p in P[:ctx.pick(300, 3000)]:
            gq = [q for q in p["queries"] if not progs.atom_vars(q)]
            if not gq:
                continue
            q = progs.r_atom(rng.choice(gq))
            t = progs.render(p)
            fs = [progs.r_atom(f["atom"]) for f in p["facts"]][:2]
            lines = ["query(\\+%s)." % q, "nq_0 :- \\+%s." % q, "query(nq_0)."]
            if len(fs) == 2:
                kind = rng.random()
                if kind < 0.4:
                    lines += ["tt :- %s, %s." % (fs[0], fs[1]), "tt :- \\+%s." % fs[0], "tt :- \\+%s." % fs[1],
                              "query(tt).", "query(\\+tt).", "ntt :- \\+tt.", "query(ntt)."]
                elif kind < 0.7:
                    lines += ["ff :- %s, \\+%s, %s." % (fs[0], fs[0], fs[1]), "ff2 :- %s, ff3." % fs[1], "ff3 :- \\+%s, %s." % (fs[0], fs[0]),
                              "query(ff2).", "query(\\+ff2)."]
            extra.append((p, t + "\n".join(lines) + "\n"))
        P = P + [e[0] for e in extra]
        texts = texts + [e[1] for e in extra]
    jobs = [("pipeline_dump", {"text": t, "with_nnf": which == "C10"}) for t in texts]
    res = pl.run_jobs(jobs, nproc=ctx.nproc, timeout=60)
    cases = []
    skipped = {"error": 0, "too_large": 0}
    ncyc = 0
    for i, (p, r) in enumerate(zip(P, res)):
        ctx.evaluations += 1
        if r.get("ground_error"):
            skipped["error"] += 1     # the engine raised (NegativeCycle, ...): no ground program to validate
            continue
        if r.get("error"):
            if r.get("inconclusive"):
                ctx.inconclusive += 1
            elif not r.get("problog_error"):
                sig = {"clause": "crash", "error": r["error"], "site": r.get("site", ""), "chain": r.get("chain", "")}
                sig.update(semcheck.triggers(p))
                ctx.violation(sig, "%s: %s\n%s" % (r["error"], r.get("msg"), texts[i]),
                              {"program": p, "text": texts[i]})
            else:
                skipped["error"] += 1     # NegativeCycle etc.: no artefacts to validate
            continue
        natoms = len({n["id"] for n in r["src"] + r["dag"] if n["t"] == "atom"})
        if natoms > 8 or r["cnf"]["nvars"] > 12 or len(r["src"]) > 40:
            skipped["too_large"] += 1
            continue
        r["id"] = i
        r["cyclic"] = graph_cyclic(r["src"])
        ncyc += r["cyclic"]
        if not r["weights_equal"]:
            ctx.violation({"clause": "weights-changed"}, "atom weights differ between DAG / CNF / circuit\n" +
                          texts[i], {"program": p, "text": texts[i]})
        cases.append(r)
    send = [{k: v for k, v in c.items() if k in ("id", "src", "dag", "cnf", "nnf", "names", "constraints", "hasnnf", "cc", "nc")}
            for c in cases]
    J = tlc.judge_batch("JudgeCircuit", send, nproc=ctx.nproc, tag=which.lower())
    keys = C09_KEYS if which == "C09" else C10_KEYS
    for c in cases:
        j = J[c["id"]]
        p = P[c["id"]]
        for k in keys:
            if not j[k]:
                ctx.violation({"clause": k}, "%s is false for the artefacts of\n%s\nsizes=%s" % (
                    k, texts[c["id"]], c["sizes"]), {"program": p, "text": texts[c["id"]]})
    if cases:
        c = cases[0]
        ctx.sample({"program": progs.render(P[c["id"]]), "src": c["src"], "dag": c["dag"], "cnf": c["cnf"],
                    "nnf": c["nnf"][:12], "names": c["names"], "verdict": J[c["id"]]})
    mcov = {}
    if which == "C09":
        model_and_replay(ctx, mcov)
    ctx.write_evidence("translation_validation", {
        "break_cycles_model": mcov,
        "programs": len(cases), "disagreements_checked": len(cases) * len(keys),
        "evaluations": ctx.evaluations,
        "distinct_nontrivial": ncyc if which == "C09" else sum(1 for c in cases if len(c["nnf"]) > 3),
        "rule": "generated programs (strat profile + propositional family) whose artefacts fit TLC's exhaustive bounds "
                "(<= 8 atoms, <= 12 CNF variables); non-trivial = cyclic source formula (C09) / circuit with > 3 nodes (C10)",
        "cyclic_sources": ncyc, "skipped": skipped, "clauses_judged": keys,
    }, assumptions=["dsharp itself is an external binary: only ProbLog's use of it (to_dimacs, _load_nnf, label and weight "
                    "transfer) can change with /repo",
                    "weights are compared for equality in the harness (floats cannot be sent to TLC)"])


# ------------------------------------------------------------------------------------------------------------------
# Layer B: BreakCycles.tla (model of cycles.py) - model checking, spec -> code replay, code -> spec validation

FK = 1000000


def _strip(nodes):
    return [{"t": n["t"], "ch": list(n["ch"]), "id": n["id"]} for n in nodes]


def _reach(g, k):
    seen, todo = set(), [abs(c) for c in g[k - 1]["ch"]]
    while todo:
        x = todo.pop()
        if x in seen or x in (0, FK):
            continue
        seen.add(x)
        todo += [abs(c) for c in g[x - 1]["ch"]]
    return seen


def random_graph(rng):
    """cyclic signed AND/OR graph over <= 3 atoms without a cycle through negation (rejection sampling)"""
    while True:
        na = rng.randint(1, 3)
        nc = rng.randint(2, 6)
        g = [{"t": "atom", "ch": [], "id": "abc"[i]} for i in range(na)]
        comp = list(range(na + 1, na + nc + 1))
        for k in comp:
            ch = []
            for _ in range(rng.choice([1, 2, 2, 3])):
                if rng.random() < 0.4:
                    c = rng.randint(1, na)
                    ch.append(c if rng.random() < 0.7 else -c)
                else:
                    c = rng.choice(comp)
                    ch.append(c if rng.random() < 0.8 else -c)
            g.append({"t": rng.choice(["conj", "disj", "disj"]), "ch": ch, "id": ""})
        ok = any(k in _reach(g, k) for k in comp)
        for k in comp:
            for c in g[k - 1]["ch"]:
                if c < 0 and -c > na and (-c == k or k in _reach(g, -c)):
                    ok = False
        if ok:
            nq = rng.randint(1, 4)
            qs = [{"key": rng.choice(comp) * (1 if rng.random() < 0.75 else -1), "phase": 1} for _ in range(nq)]
            for q in qs[rng.randint(1, nq):]:
                q["phase"] = 2
            return g, qs


def model_and_replay(ctx, cov):
    runs = [("BreakCyclesMC", "BreakCycles_small.cfg", True), ("BreakCyclesMC", "BreakCycles_nocb.cfg", False),
            ("BreakCyclesMC", "BreakCycles_evv.cfg", True), ("BreakCyclesMC", "BreakCycles_evvunsigned.cfg", False)]
    if ctx.tier == "thorough":
        runs += [("BreakCyclesMC", "BreakCycles_big.cfg", True), ("BreakCyclesMC", "BreakCycles_big1.cfg", True),
                 ("BreakCyclesMC", "BreakCycles_nocn.cfg", True)]
    R = mc.check_cfgs(runs, nproc=ctx.nproc, timeout=ctx.pick(1800, 14000), parallel=4)
    ok_runs = [cfg for _, cfg, e in runs if e]
    cov["model_states"] = sum(R[c]["states"] for c in ok_runs)
    cov["model_configs"] = {c: {"states": r["states"], "depth": r["depth"]} for c, r in R.items()}
    cov["expected_counterexamples_found"] = ["BreakCycles_nocb.cfg (memo entries reused although they broke a cycle that is not on the current path)",
                                             "BreakCycles_evvunsigned.cfg (propagated value of a negatively referenced node not negated)"]
    H = mc.exported(R["BreakCycles_small.cfg"]["out"]) + mc.exported(R["BreakCycles_evv.cfg"]["out"])
    if not H:
        raise MachineryError("no behaviours exported by BreakCycles_small.cfg / BreakCycles_evv.cfg")
    cases = [{"id": i, "src": _strip(h["src"]), "queries": h["queries"], "evv": h["evv"], "model": h} for i, h in enumerate(H)]
    nexp = len(cases)
    rng = random.Random(ctx.seed + 90909)
    for _ in range(ctx.pick(1500, 20000)):
        g, qs = random_graph(rng)
        # half of them with evidence propagation as the default pipeline does it (the real propagate fills lookup_evidence)
        cases.append({"id": len(cases), "src": g, "queries": qs,
                      "evv": "propagate" if (rng.random() < 0.5 and any(q["phase"] == 2 for q in qs)) else [-1] * len(g)})
    chunk = 500
    res = pl.run_jobs([("breakcycles_replay", {"cases": [{k: c[k] for k in ("id", "src", "queries", "evv")} for c in cases[i:i + chunk]]})
                       for i in range(0, len(cases), chunk)], nproc=ctx.nproc, timeout=600, chunksize=1)
    judge = []
    drift = 0
    for r in res:
        if r.get("error"):
            raise MachineryError("breakcycles_replay failed: %s" % r)
        for o in r["results"]:
            ctx.evaluations += 1
            c = cases[o["id"]]
            if o.get("skip"):
                continue
            if o.get("error"):
                ctx.violation({"clause": "crash", "level": "break_cycles-direct", "error": o["error"].split(":")[0]},
                              "break_cycles on source graph %s with labelled nodes %s raised %s" % (
                                  json.dumps(c["src"]), json.dumps(c["queries"]), o["error"]), {"bc": {k: c[k] for k in ("src", "queries", "evv")}})
                continue
            if o["srcdump"] != [dict(n, det=0) for n in c["src"]]:
                raise MachineryError("source graph was not stored literally: %s vs %s" % (o["srcdump"], c["src"]))
            real = {"id": o["id"], "src": c["src"], "queries": c["queries"], "results": o["results"], "nodes": _strip(o["nodes"]),
                    "evv": o["evv"]}
            if "model" in c:
                m = c["model"]
                if m["results"] == o["results"] and _strip(m["nodes"]) == real["nodes"]:
                    continue          # the real run IS the verified model behaviour
                drift += 1
            judge.append(real)
    for c in judge:
        for n in c["src"] + c["nodes"]:
            n.setdefault("det", 0)
    # self-test of the binding: a recorded run with one registered key negated must be rejected by the Layer-A judge
    probe = next((c for c in judge if c["results"] and c["results"][0] not in (0, FK) and all(q["phase"] == 1 for q in c["queries"])), None)
    if probe is not None:
        bad = json.loads(json.dumps(probe))
        bad["id"] = 0
        bad["results"][0] = -bad["results"][0]
        if tlc.judge_batch("JudgeBreakCycles", [bad], nproc=1, tag="c09st")[0]["meaning"]:
            raise MachineryError("self-test: JudgeBreakCycles accepted a corrupted run")
        cov["selftest_corrupted_run_rejected"] = True
    J = tlc.judge_batch("JudgeBreakCycles", judge, nproc=ctx.nproc, tag="c09bc")
    unsound = 0
    for c in judge:
        j = J[c["id"]]
        if not j["evvSound"]:
            unsound += 1          # the propagated values are not entailed by the evidence: C06's subject, break_cycles is not judged
            continue
        if not j["same"] and c["id"] >= nexp:
            drift += 1
        for k, cl in (("acyclic", "dagAcyclic"), ("meaning", "dagMeaning")):
            if not j[k]:
                ctx.violation({"clause": cl, "level": "break_cycles-direct"},
                              "%s is false: break_cycles on source graph %s with labelled nodes %s registered keys %s in target %s" % (
                                  cl, json.dumps(_strip(c["src"])), json.dumps(c["queries"]), c["results"], json.dumps(_strip(c["nodes"]))),
                              {"bc": {"src": _strip(c["src"]), "queries": c["queries"], "evv": c["evv"]}})
    cov["random_graphs_with_unsound_propagation_skipped"] = unsound
    if drift:
        print("DRIFT property=C09 %d of %d runs of the real break_cycles differ from BreakCycles.tla (each judged by Layer A)" % (drift, len(cases)))
    cov.update({"model_behaviours_replayed": nexp, "random_graphs_validated": len(cases) - nexp, "model_drift": drift})


def run(ctx):
    run_both(ctx, "C09")


def replay(ctx, path):
    with open(path) as f:
        d = json.load(f)
    case = d["case"]
    which = ctx.pid
    if "bc" in case:
        c = dict(case["bc"], id=0)
        o = pl.run_local("breakcycles_replay", cases=[c])["results"][0]
        print(json.dumps(c), "\n->", json.dumps(o))
        ctx.evaluations = 1
        if o.get("error"):
            ctx.violation({"clause": "crash", "level": "break_cycles-direct", "error": o["error"].split(":")[0]}, o["error"], case)
        else:
            real = {"id": 0, "src": [dict(n, det=0) for n in c["src"]], "queries": c["queries"], "results": o["results"],
                    "nodes": [dict(n, det=0) for n in _strip(o["nodes"])], "evv": o["evv"]}
            j = tlc.judge_batch("JudgeBreakCycles", [real], nproc=1)[0]
            print(j)
            for k, cl in (("acyclic", "dagAcyclic"), ("meaning", "dagMeaning")):
                if not j[k]:
                    ctx.violation({"clause": cl, "level": "break_cycles-direct"}, "%s false" % cl, case)
        ctx.write_evidence("translation_validation", {"evaluations": 1, "distinct_nontrivial": 0, "samples": [case]})
        return
    r = pl.run_local("pipeline_dump", text=case["text"], with_nnf=(which == "C10"))
    ctx.evaluations = 1
    print(case["text"])
    if r.get("ground_error"):
        print(r)
    elif r.get("error"):
        print(r)
        if not r.get("problog_error"):
            ctx.violation({"clause": "crash", "error": r["error"], "site": r.get("site", "")}, r.get("msg", ""), case)
    else:
        r["id"] = 1
        j = tlc.judge_batch("JudgeCircuit", [{k: v for k, v in r.items() if k in (
            "id", "src", "dag", "cnf", "nnf", "names", "constraints", "hasnnf")}], nproc=1)[1]
        print(json.dumps(r)[:3000])
        print(j)
        for k in (C09_KEYS if which == "C09" else C10_KEYS):
            if not j[k]:
                ctx.violation({"clause": k}, "%s false" % k, case)
    ctx.write_evidence("translation_validation", {"evaluations": 1, "distinct_nontrivial": 0, "samples": [case["text"]]})

"""C33 - the soft-cut library picks the lowest-indexed applicable rule (judged by CutAnswers in spec/JudgeSLD.tla)."""
import json
import random

from .. import pl, tlc
from .. import terms as T
from .c13 import r_clause

CONST = [T.A("a"), T.A("b"), T.A("c")]


def gen_case(rng):
    n = rng.randint(2, 7)
    idx = rng.sample(range(1, 16), n)          # indices 1..15, file order shuffled
    prog = []
    for c in CONST:
        if rng.random() < 0.7:
            prog.append({"h": T.Cm("e", c), "b": []})
    prog.append({"h": T.Cm("e", T.A("z")), "b": []})
    for i in idx:
        args = [rng.choice(CONST + [T.V(1)]) for _ in range(2)]
        body = []
        if rng.random() < 0.55:
            # applicability condition
            t = rng.choice(CONST + [T.V(1), T.A("d")])
            g = {"k": "call", "t": T.Cm("e", t)}
            if rng.random() < 0.25 and t["t"] != "v":
                g = {"k": "not", "g": [g]}
            body.append(g)
        prog.append({"h": T.Cm("r", T.I(i), *args), "b": body})
    call = T.Cm("r", *[rng.choice(CONST + [T.V(2), T.V(3)]) for _ in range(2)])
    return prog, T.Cm("cut", call, T.V(9))


def run(ctx):
    rng = random.Random(ctx.seed + 3333)
    cases = []
    seen = set()
    while len(cases) < ctx.pick(500, 6000):
        prog, q = gen_case(rng)
        k = json.dumps([prog, q], sort_keys=True)
        if k in seen:
            continue
        seen.add(k)
        cases.append({"id": len(cases), "prog": prog, "q": q, "mode": "cut"})
    chunk = 30
    jobs = []
    for i in range(0, len(cases), chunk):
        jobs.append(("det_queries", {"cases": [{
            "id": c["id"], "text": ":- use_module(library(cut)).\n" + "\n".join(r_clause(cl) for cl in c["prog"]) + "\n",
            "query": T.render(c["q"])} for c in cases[i:i + chunk]]}))
    res = pl.run_jobs(jobs, nproc=ctx.nproc, timeout=300, chunksize=1)
    outs = {}
    for r in res:
        if r.get("error"):
            raise tlc.MachineryError("det_queries failed: %s" % r)
        for o in r["results"]:
            outs[o["id"]] = o
    send = []
    for c in cases:
        o = outs[c["id"]]
        ctx.evaluations += 1
        if o.get("skip"):
            continue
        if o.get("crash"):
            ctx.violation({"clause": "crash", "error": o.get("error", ""), "site": o.get("site", "")},
                          "%s\n?- %s : %s" % ("\n".join(r_clause(cl) for cl in c["prog"]), T.render(c["q"]), o["crash"]),
                          {"prog": c["prog"], "q": c["q"], "mode": "cut"})
            continue
        send.append({"id": c["id"], "prog": c["prog"], "q": c["q"], "mode": "cut", "impl": {"ok": o["ok"], "ans": o["ans"]}})
    J = tlc.judge_batch("JudgeSLD", send, nproc=ctx.nproc, tag="c33")
    nontriv = 0
    for c in send:
        j = J[c["id"]]
        if j["skipped"]:
            continue
        if j["nexp"] >= 1:
            nontriv += 1
        if not j["ok"]:
            ctx.violation({"clause": "cut-" + j["why"]},
                          "%s\n?- %s : %s\nimplementation: %s\nexpected: %s" % (
                              "\n".join(r_clause(cl) for cl in c["prog"]), T.render(c["q"]), j["why"],
                              [T.render(a) for a in c["impl"]["ans"]], [T.render(a) for a in j["exp"]]),
                          {"prog": c["prog"], "q": c["q"], "mode": "cut"})
    c = send[0]
    ctx.sample({"program": [r_clause(cl) for cl in c["prog"]], "query": T.render(c["q"]),
                "impl": [T.render(a) for a in c["impl"]["ans"]]})
    ctx.write_evidence("exploration", {
        "evaluations": ctx.evaluations, "distinct_nontrivial": nontriv,
        "rule": "indexed rule sets r(I, A, B) with 2-7 distinct indices from 1..15 in shuffled file order (multi-digit and "
                "single-digit mixed), optional applicability conditions (facts, negation), calls with constants and "
                "variables through cut/2; non-trivial = some rule applies"},
        assumptions=["reference: 'answers of the applicable rule with the smallest index in standard order' as defined by "
                     "CutAnswers over SLD.tla (TLC)"])


def replay(ctx, path):
    with open(path) as f:
        d = json.load(f)
    c = d["case"]
    text = ":- use_module(library(cut)).\n" + "\n".join(r_clause(cl) for cl in c["prog"]) + "\n"
    o = pl.run_local("det_queries", cases=[{"id": 0, "text": text, "query": T.render(c["q"])}])["results"][0]
    print(text, "?-", T.render(c["q"]), o)
    ctx.evaluations = 1
    if o.get("crash"):
        ctx.violation({"clause": "crash"}, o["crash"], c)
    else:
        j = tlc.judge_batch("JudgeSLD", [{"id": 0, "prog": c["prog"], "q": c["q"], "mode": "cut",
                                          "impl": {"ok": o["ok"], "ans": o["ans"]}}], nproc=1)[0]
        print(j)
        if not j["ok"]:
            ctx.violation({"clause": "cut-" + j["why"]}, j["why"], c)
    ctx.write_evidence("exploration", {"evaluations": 1, "distinct_nontrivial": 0, "rule": "replay", "samples": [text]})

"""C33 - the soft-cut library picks the lowest-indexed applicable rule (judged by CutAnswers in spec/JudgeSLD.tla)."""
import json
import random

from .. import pl, tlc
from ..core import close
from .. import terms as T
from .c13 import r_clause

CONST = [T.A("a"), T.A("b"), T.A("c")]


def gen_case(rng):
    n = rng.randint(2, 7)
    idx = rng.sample(range(1, 16), n)          # indices 1..15, file order shuffled
    prog = []
    for c in CONST:
        if rng.random() < 0.7:
            prog.append({"h": T.Cm("e", c), "b": []})
    prog.append({"h": T.Cm("e", T.A("z")), "b": []})
    for i in idx:
        args = [rng.choice(CONST + [T.V(1)]) for _ in range(2)]
        body = []
        if rng.random() < 0.55:
            # applicability condition
            t = rng.choice(CONST + [T.V(1), T.A("d")])
            g = {"k": "call", "t": T.Cm("e", t)}
            if rng.random() < 0.25 and t["t"] != "v":
                g = {"k": "not", "g": [g]}
            body.append(g)
        prog.append({"h": T.Cm("r", T.I(i), *args), "b": body})
    call = T.Cm("r", *[rng.choice(CONST + [T.V(2), T.V(3)]) for _ in range(2)])
    return prog, T.Cm("cut", call, T.V(9))


def gen_prob_case(rng):
    """indexed rule sets with probabilistic applicability: annotated unit rules, annotated rules with bodies,
    conditions on probabilistic facts"""
    clauses, choices, text = [], [], []

    def add(h, b, ptxt=None):
        c = 0
        if ptxt is not None:
            choices.append([ptxt])
            c = len(choices)
        clauses.append({"h": h, "b": b, "c": c, "v": 1 if c else 0})
        line = r_clause({"h": h, "b": b})
        text.append(("0.%d::" % ptxt + line) if ptxt is not None else line)
    for cst in CONST:
        r = rng.random()
        if r < 0.45:
            add(T.Cm("g", cst), [], rng.randint(1, 9))
        elif r < 0.75:
            add(T.Cm("g", cst), [])
    add(T.Cm("g", T.A("z")), [])                               # g/1 is always defined
    n = rng.randint(2, 5)
    for i in rng.sample(range(1, 16), n):
        args = [rng.choice(CONST[:2]) for _ in range(2)]       # ground heads: every answer is ground
        body = []
        kind = rng.random()
        if kind < 0.5:
            t = rng.choice(CONST)
            g = {"k": "call", "t": T.Cm("g", t)}
            if rng.random() < 0.2 and t["t"] != "v":
                g = {"k": "not", "g": [g]}
            body.append(g)
        ground = all(a["t"] != "v" for a in args)
        if rng.random() < 0.4 and (ground or body):
            # an annotated rule; without a body it must be ground (a unit clause with a probability)
            if not body and not ground:
                add(T.Cm("r", T.I(i), *args), body)
            else:
                nonground_ok = all(a["t"] != "v" for a in args) or (body and body[0]["k"] == "call" and body[0]["t"]["a"][0]["t"] == "v")
                if nonground_ok:
                    add(T.Cm("r", T.I(i), *args), body, rng.randint(1, 9))
                else:
                    add(T.Cm("r", T.I(i), *args), body)
        else:
            add(T.Cm("r", T.I(i), *args), body)
    call = T.Cm("r", *[rng.choice(CONST + [T.V(2), T.V(3)]) for _ in range(2)])
    q = T.Cm("cut", call, T.V(9))
    return {"clauses": clauses, "choices": choices, "den": 10, "q": q,
            "text": ":- use_module(library(cut)).\n" + "\n".join(text) + "\nw(A, B, I) :- cut(r(A, B), I).\n"}


def run_prob(ctx, rng):
    cases = []
    seen = set()
    while len(cases) < ctx.pick(250, 3000):
        c = gen_prob_case(rng)
        if c["text"] in seen or len(c["choices"]) > 7:
            continue
        seen.add(c["text"])
        c["id"] = len(cases)
        # the query is asked through a wrapper so that the answers are w(A, B, I) atoms
        call = c["q"]["a"][0]
        c["wq"] = "query(w(%s, %s, _))." % (T.render(call["a"][0]), T.render(call["a"][1]))
        cases.append(c)
    J = tlc.judge_batch("JudgeCutProb", [{k: c[k] for k in ("id", "clauses", "choices", "den", "q")} for c in cases],
                        nproc=ctx.nproc, tag="c33p")
    runs = pl.run_jobs([("prob_terms", {"text": c["text"] + c["wq"] + "\n"}) for c in cases], nproc=ctx.nproc, timeout=ctx.pick(40, 120))
    nontriv = 0
    for c, r in zip(cases, runs):
        ctx.evaluations += 1
        j = J[c["id"]]
        if j["ovf"]:
            continue
        if r.get("error"):
            if r.get("inconclusive"):
                ctx.inconclusive += 1
                continue
            ctx.violation({"clause": "crash" if not r.get("problog_error") else "wrong-error", "error": r["error"],
                           "site": r.get("site", ""), "mode": "probabilistic"},
                          "%s: %s\n%s" % (r["error"], r.get("msg"), c["text"] + c["wq"]), {"pcase": c})
            continue
        # expected answers are cut(r(A,B), I) terms; the implementation reports w(A, B, I)
        exp = {}
        for e in j["expected"]:
            if e["num"] > 0:
                a = e["ans"]
                inner = a["a"][0]
                exp[T.render(T.Cm("w", inner["a"][0], inner["a"][1], a["a"][1]))] = e["num"]
        got = {T.render(t): pv for t, pv in r["answers"] if pv > 1e-12}
        if len(exp) >= 2:
            nontriv += 1
        for name, num in exp.items():
            if name not in got:
                ctx.violation({"clause": "cut-answer-missing", "mode": "probabilistic"},
                              "%s (probability %d/%d) is not reported\n%s\nimplementation: %s" % (name, num, j["total"], c["text"] + c["wq"], got), {"pcase": c})
            elif not close(got[name], num, j["total"], 1e-9):
                ctx.violation({"clause": "cut-answer-probability", "mode": "probabilistic"},
                              "%s: reported %r, exact %d/%d\n%s" % (name, got[name], num, j["total"], c["text"] + c["wq"]), {"pcase": c})
        for name in got:
            if name not in exp:
                ctx.violation({"clause": "cut-answer-spurious", "mode": "probabilistic"},
                              "%s: reported %r; in no world is this the answer of the lowest applicable rule\n%s\nexpected: %s" % (
                                  name, got[name], c["text"] + c["wq"], exp), {"pcase": c})
    if cases:
        ctx.sample({"probabilistic_program": cases[0]["text"] + cases[0]["wq"]})
    return nontriv


def run(ctx):
    rng = random.Random(ctx.seed + 3333)
    nontriv_prob = run_prob(ctx, random.Random(ctx.seed + 333333))
    cases = []
    seen = set()
    while len(cases) < ctx.pick(500, 6000):
        prog, q = gen_case(rng)
        k = json.dumps([prog, q], sort_keys=True)
        if k in seen:
            continue
        seen.add(k)
        cases.append({"id": len(cases), "prog": prog, "q": q, "mode": "cut"})
    chunk = 30
    jobs = []
    for i in range(0, len(cases), chunk):
        jobs.append(("det_queries", {"cases": [{
            "id": c["id"], "text": ":- use_module(library(cut)).\n" + "\n".join(r_clause(cl) for cl in c["prog"]) + "\n",
            "query": T.render(c["q"])} for c in cases[i:i + chunk]]}))
    res = pl.run_jobs(jobs, nproc=ctx.nproc, timeout=300, chunksize=1)
    outs = {}
    for r in res:
        if r.get("error"):
            raise tlc.MachineryError("det_queries failed: %s" % r)
        for o in r["results"]:
            outs[o["id"]] = o
    send = []
    for c in cases:
        o = outs[c["id"]]
        ctx.evaluations += 1
        if o.get("skip"):
            continue
        if o.get("crash"):
            ctx.violation({"clause": "crash", "error": o.get("error", ""), "site": o.get("site", "")},
                          "%s\n?- %s : %s" % ("\n".join(r_clause(cl) for cl in c["prog"]), T.render(c["q"]), o["crash"]),
                          {"prog": c["prog"], "q": c["q"], "mode": "cut"})
            continue
        send.append({"id": c["id"], "prog": c["prog"], "q": c["q"], "mode": "cut", "impl": {"ok": o["ok"], "ans": o["ans"]}})
    J = tlc.judge_batch("JudgeSLD", send, nproc=ctx.nproc, tag="c33")
    nontriv = 0
    for c in send:
        j = J[c["id"]]
        if j["skipped"]:
            continue
        if j["nexp"] >= 1:
            nontriv += 1
        if not j["ok"]:
            ctx.violation({"clause": "cut-" + j["why"]},
                          "%s\n?- %s : %s\nimplementation: %s\nexpected: %s" % (
                              "\n".join(r_clause(cl) for cl in c["prog"]), T.render(c["q"]), j["why"],
                              [T.render(a) for a in c["impl"]["ans"]], [T.render(a) for a in j["exp"]]),
                          {"prog": c["prog"], "q": c["q"], "mode": "cut"})
    c = send[0]
    ctx.sample({"program": [r_clause(cl) for cl in c["prog"]], "query": T.render(c["q"]),
                "impl": [T.render(a) for a in c["impl"]["ans"]]})
    ctx.write_evidence("exploration", {
        "evaluations": ctx.evaluations, "distinct_nontrivial": nontriv + nontriv_prob,
        "probabilistic_rule_sets_nontrivial": nontriv_prob,
        "rule": "probabilistic rule sets (annotated unit rules, annotated rules with bodies, conditions on probabilistic facts; "
                "every answer's probability = weight of the worlds in which it is the answer of the lowest applicable rule, "
                "JudgeCutProb.tla); deterministic indexed rule sets r(I, A, B) with 2-7 distinct indices from 1..15 in shuffled file order (multi-digit and "
                "single-digit mixed), optional applicability conditions (facts, negation), calls with constants and "
                "variables through cut/2; non-trivial = some rule applies"},
        assumptions=["reference: 'answers of the applicable rule with the smallest index in standard order' as defined by "
                     "CutAnswers over SLD.tla (TLC)"])


def replay(ctx, path):
    with open(path) as f:
        d = json.load(f)
    c = d["case"]
    if "pcase" in c:
        pc = c["pcase"]
        print(pc["text"] + pc["wq"])
        print(pl.run_local("prob_terms", text=pc["text"] + pc["wq"] + "\n"))
        print(tlc.judge_batch("JudgeCutProb", [{k: pc[k] for k in ("id", "clauses", "choices", "den", "q")}], nproc=1))
        ctx.evaluations = 1
        ctx.write_evidence("exploration", {"evaluations": 1, "distinct_nontrivial": 0, "rule": "replay (prints)", "samples": [pc["text"]]})
        return
    text = ":- use_module(library(cut)).\n" + "\n".join(r_clause(cl) for cl in c["prog"]) + "\n"
    o = pl.run_local("det_queries", cases=[{"id": 0, "text": text, "query": T.render(c["q"])}])["results"][0]
    print(text, "?-", T.render(c["q"]), o)
    ctx.evaluations = 1
    if o.get("crash"):
        ctx.violation({"clause": "crash"}, o["crash"], c)
    else:
        j = tlc.judge_batch("JudgeSLD", [{"id": 0, "prog": c["prog"], "q": c["q"], "mode": "cut",
                                          "impl": {"ok": o["ok"], "ans": o["ans"]}}], nproc=1)[0]
        print(j)
        if not j["ok"]:
            ctx.violation({"clause": "cut-" + j["why"]}, j["why"], c)
    ctx.write_evidence("exploration", {"evaluations": 1, "distinct_nontrivial": 0, "rule": "replay", "samples": [text]})

"""C32 - weighted selection library predicates define the documented distribution (SelectA.tla)."""
import json
import random

from .. import pl, tlc
from ..core import close


def lst(xs):
    return "[" + ",".join(str(x) for x in xs) + "]"


def run(ctx):
    rng = random.Random(ctx.seed + 3232)
    cases = []
    for _ in range(ctx.pick(140, 1800)):
        n = rng.randint(1, 6)
        vals = [rng.choice(["a", "b", "c", "d", "e"]) for _ in range(n)]
        if rng.random() < 0.5:
            vals = rng.sample(["a", "b", "c", "d", "e", "f"], n)
        kind = rng.choice(["weighted5", "weighted4", "uniform", "same-id", "diff-id"])
        w = [1] * n if kind == "uniform" else [rng.randint(1, 5) for _ in range(n)]
        cases.append({"id": len(cases), "w": w, "l": vals, "kind": kind})
    exp = tlc.judge_batch("SelectA", [{"id": c["id"], "w": c["w"], "l": c["l"]} for c in cases], nproc=ctx.nproc, tag="c32")
    jobs = []
    for c in cases:
        W, L = lst(c["w"]), lst(c["l"])
        hdr = ":- use_module(library(lists)).\n"
        if c["kind"] == "weighted5":
            t = hdr + "q(V,R) :- select_weighted(i1, %s, %s, V, R).\nquery(q(_,_)).\n" % (W, L)
        elif c["kind"] == "weighted4":
            pairs = "[" + ",".join("(%s,%s)" % (a, b) for a, b in zip(c["w"], c["l"])) + "]"
            t = hdr + "q(V,R) :- select_weighted(i1, %s, V, R).\nquery(q(_,_)).\n" % pairs
        elif c["kind"] == "uniform":
            t = hdr + "q(V,R) :- select_uniform(i1, %s, V, R).\nquery(q(_,_)).\n" % L
        elif c["kind"] == "same-id":
            t = hdr + ("q2(V1,R1,V2,R2) :- select_weighted(i1, %s, %s, V1, R1), select_weighted(i1, %s, %s, V2, R2).\n"
                       "query(q2(_,_,_,_)).\n" % (W, L, W, L))
        else:
            t = hdr + ("q2(V1,R1,V2,R2) :- select_weighted(i1, %s, %s, V1, R1), select_weighted(i2, %s, %s, V2, R2).\n"
                       "query(q2(_,_,_,_)).\n" % (W, L, W, L))
        c["text"] = t
        jobs.append(("prob", {"text": t}))
    runs = pl.run_jobs(jobs, nproc=ctx.nproc, timeout=120)
    nontriv = 0
    for c, r in zip(cases, runs):
        ctx.evaluations += 1
        e = exp[c["id"]]
        sig0 = {"kind": c["kind"]}
        if r.get("error"):
            if r.get("inconclusive"):
                ctx.inconclusive += 1
                continue
            ctx.violation(dict(sig0, clause="crash" if not r.get("problog_error") else "wrong-error", error=r["error"],
                               site=r.get("site", "")), "%s: %s\n%s" % (r["error"], r.get("msg"), c["text"]), {"case": c})
            continue
        outs = {("%s,%s" % (o["v"], "[" + ", ".join(o["rest"]) + "]")): o["num"] for o in e["outs"]}
        den = e["den"]
        if len(c["l"]) > 1:
            nontriv += 1
        ans = {k: v for k, v in r["answers"].items() if v > 1e-12}
        if c["kind"] in ("weighted5", "weighted4", "uniform"):
            expect = {"q(%s)" % k: (num, den) for k, num in outs.items()}
        elif c["kind"] == "same-id":
            expect = {"q2(%s,%s)" % (k, k): (num, den) for k, num in outs.items()}
        else:
            expect = {"q2(%s,%s)" % (k1, k2): (n1 * n2, den * den) for k1, n1 in outs.items() for k2, n2 in outs.items()}
        for name, (num, d) in expect.items():
            if name not in ans:
                ctx.violation(dict(sig0, clause="outcome-missing"), "%s (probability %d/%d) not reported\n%s\n%s" % (name, num, d, c["text"], ans), {"case": c})
            elif not close(ans[name], num, d, 1e-9):
                ctx.violation(dict(sig0, clause="outcome-probability"), "%s: reported %r, documented %d/%d\n%s" % (name, ans[name], num, d, c["text"]), {"case": c})
        for name in ans:
            if name not in expect:
                ctx.violation(dict(sig0, clause="outcome-spurious"), "%s: %r reported\n%s" % (name, ans[name], c["text"]), {"case": c})
        if len(ctx.samples) < 2:
            ctx.sample({"text": c["text"], "tlc": e, "impl": ans})
    ctx.write_evidence("exploration", {
        "evaluations": ctx.evaluations, "distinct_nontrivial": nontriv,
        "rule": "lists of length 1-6 with random positive integer weights, with and without equal elements; select_weighted/5, "
                "select_weighted/4 (pairs), select_uniform/4, two calls with the same identifier (must agree) and with "
                "different identifiers (independent); non-trivial = list longer than 1"},
        assumptions=["reference distribution: SelectA.tla (TLC), exact integers"])


def replay(ctx, path):
    with open(path) as f:
        d = json.load(f)
    c = d["case"]["case"]
    print(c["text"])
    print(pl.run_local("prob", text=c["text"]))
    print(tlc.judge_batch("SelectA", [{"id": 0, "w": c["w"], "l": c["l"]}], nproc=1)[0])
    ctx.evaluations = 1
    ctx.write_evidence("exploration", {"evaluations": 1, "distinct_nontrivial": 0, "rule": "replay (prints)", "samples": [c["text"]]})

"""Helpers shared by the checks that use the Semantics.tla oracle."""
import json
import random

from .. import pl, progs, semcheck
from ..progs import atom, lit, C, V


def family_small(n, seed, with_ad=True):
    """Family (i): propositional programs over derived atoms {a,b,c}, facts {f,g}, optional AD {x;y}.

    <=2 clauses per derived atom, <=2 literals per body, any signs (so all three C02 classes occur),
    1-2 queries, optional evidence.  This is also the stage-1 family of spec/Engine.tla."""
    rng = random.Random(seed * 104729 + 17)
    out = []
    seen = set()
    tries = 0
    while len(out) < n and tries < 50 * n + 100:
        tries += 1
        p = progs.empty_program(["c1"])
        nf = rng.randint(1, 2)
        facts = ["f", "g"][:nf]
        for f in facts:
            den = rng.choice([2, 4, 5, 10])
            p["facts"].append({"p": [rng.randint(0 if rng.random() < .1 else 1, den if rng.random() < .1 else den - 1), den],
                               "atom": atom(f)})
        nd = rng.randint(1, 3)
        der = ["a", "b", "c"][:nd]
        adh = []
        if with_ad and rng.random() < 0.4:
            adh = ["x", "y"][:rng.randint(1, 2)]
        names = facts + der + adh

        def body(k):
            b = []
            for _ in range(k):
                b.append(lit(atom(rng.choice(names)), 0 if rng.random() < 0.3 else 1))
            return b
        for d in der:
            for _ in range(rng.randint(1, 2)):
                p["rules"].append({"head": atom(d), "body": body(rng.randint(1, 2))})
        if adh:
            rem = 10
            heads = []
            for h in adh:
                v = rng.randint(1, min(6, rem))
                rem -= v
                heads.append({"p": [v, 10], "atom": atom(h)})
            p["ads"].append({"heads": heads, "body": body(rng.randint(0, 2))})
        for q in rng.sample(der + adh, min(len(der + adh), rng.randint(1, 2))):
            p["queries"].append(atom(q))
        if rng.random() < 0.4:
            e = rng.choice(names)
            p["evidence"].append({"atom": atom(e), "s": rng.randint(0, 1)})
        c = progs.canon(p)
        if c in seen:
            continue
        seen.add(c)
        out.append(p)
    return out


def cyclic_family(n, seed, evidence=0.5, neg=0.1, neg_derived=0.0, undefined=0.0):
    """Propositional programs with dense POSITIVE cycles and shared sub-goals: 3-4 facts, 4-6 derived atoms with 1-3
    clauses of 1-2 literals each, 2-3 queries, optional evidence ON DERIVED (cyclic) atoms, rare stratified negation
    (only of facts).  Targets cycle breaking (memo reuse), evidence below cycles and node sharing between goals."""
    rng = random.Random(seed * 7907 + 5 + int(neg_derived * 1000))
    out, seen, tries = [], set(), 0
    while len(out) < n and tries < 40 * n + 100:
        tries += 1
        p = progs.empty_program(["c1"])
        facts = ["v", "w", "x", "z"][:rng.randint(3, 4)]
        for f in facts:
            p["facts"].append({"p": [rng.choice([1, 2, 3]), 4], "atom": atom(f)})
        der = ["a", "b", "c", "d", "e", "p"][:rng.randint(4, 6)]
        bodies = []
        for d in der:
            for _ in range(rng.randint(1, 3)):
                if bodies and rng.random() < 0.2:
                    b = [dict(l) for l in rng.choice(bodies)]        # same body as another clause: shared nodes
                else:
                    b = []
                    for _ in range(rng.randint(1, 2)):
                        if rng.random() < 0.6:
                            b.append(lit(atom(rng.choice(der)), 0 if rng.random() < neg_derived else 1))
                        else:
                            b.append(lit(atom(rng.choice(facts)), 0 if rng.random() < neg else 1))
                bodies.append(b)
                p["rules"].append({"head": atom(d), "body": b})
        if rng.random() < 0.4:
            # body disjunctions (A ; B), possibly on a cycle and with both disjuncts giving the same answer
            for name in ["o1", "o2"][:rng.randint(1, 2)]:
                for _ in range(2):
                    p["rules"].append({"head": atom(name), "body": [lit(atom(rng.choice(der + facts)))]})
                tgt = rng.choice([r for r in p["rules"] if r["head"]["f"] in der])
                tgt["body"].insert(rng.randint(0, len(tgt["body"])), lit(atom(name)))
                p.setdefault("inline", []).append(name)
        if rng.random() < undefined:
            # a sibling clause that raises (undefined predicate) next to clauses that succeed
            tgt = rng.choice(der)
            pos = rng.randint(0, len(p["rules"]))
            p["rules"].insert(pos, {"head": atom(tgt), "body": [lit(atom("zz_undefined"))] + ([lit(atom(rng.choice(facts)))] if rng.random() < 0.5 else [])})
            if rng.random() < 0.5:
                p["rules"].insert(rng.randint(0, len(p["rules"])), {"head": atom(tgt), "body": []})     # deterministic proof
        for q in rng.sample(der, rng.randint(2, 3)):
            p["queries"].append(atom(q))
        if rng.random() < 0.35:
            # a goal on a cycle with several proofs before the cycle closes, and an acyclic twin with the same proofs:
            # their ground disjunctions have the same children (node sharing between a mutable and a readonly node)
            k = rng.randint(2, 3)
            proofs = [[lit(atom(rng.choice(facts + der[:2])))] for _ in range(k)]
            for b in proofs:
                p["rules"].append({"head": atom("g"), "body": [dict(l) for l in b]})
            p["rules"].append({"head": atom("g"), "body": [lit(atom("g2"))]})
            p["rules"].append({"head": atom("g2"), "body": [lit(atom("g"))]})
            p["rules"].append({"head": atom("g2"), "body": [lit(atom(rng.choice(facts)))]})
            for b in proofs:
                p["rules"].append({"head": atom("h"), "body": [dict(l) for l in b]})
            p["rules"].append({"head": atom("k"), "body": [lit(atom("h")), lit(atom(rng.choice(facts)))]})
            tw = [atom("g"), atom("h"), atom("k")]
            if rng.random() < 0.3:
                rng.shuffle(tw)
            p["queries"] = tw + p["queries"][:1]
        if rng.random() < evidence:
            for e in rng.sample(der, rng.randint(1, 2)):
                p["evidence"].append({"atom": atom(e), "s": 1 if rng.random() < 0.7 else 0})
        c = progs.canon(p)
        if c in seen:
            continue
        seen.add(c)
        out.append(p)
    return out


def ad_family(n, seed):
    """Propositional programs around annotated disjunctions with 2-5 heads (sum exactly 1 or below), bodies, several ADs
    sharing heads, rules that use the heads, evidence (also negative) on heads and on rule atoms."""
    rng = random.Random(seed * 5003 + 11)
    out, seen, tries = [], set(), 0
    while len(out) < n and tries < 60 * n + 100:
        tries += 1
        p = progs.empty_program(["c1"])
        facts = ["v", "w"][:rng.randint(1, 2)]
        for f in facts:
            p["facts"].append({"p": [rng.choice([1, 2, 3]), 4], "atom": atom(f)})
        names = ["a", "b", "c", "d", "e"]
        for _ in range(rng.randint(1, 2)):
            k = rng.randint(2, 5)
            hs = rng.sample(names, k)
            den = 10
            cuts = sorted(rng.sample(range(1, den), k - 1)) if rng.random() < 0.5 else None
            if cuts:      # sums to exactly one
                vals = [b - a for a, b in zip([0] + cuts, cuts + [den])]
            else:
                vals = [rng.randint(1, max(1, 8 // k)) for _ in range(k)]
            body = []
            if rng.random() < 0.4:
                body = [lit(atom(rng.choice(facts)), 0 if rng.random() < 0.3 else 1)]
            p["ads"].append({"heads": [{"p": [v, den], "atom": atom(h)} for h, v in zip(hs, vals)], "body": body})
        used = sorted({h["atom"]["f"] for ad in p["ads"] for h in ad["heads"]})
        der = ["q", "r", "s"][:rng.randint(1, 3)]
        for d in der:
            for _ in range(rng.randint(1, 2)):
                b = [lit(atom(rng.choice(used + facts + der[:1])), 0 if rng.random() < 0.2 else 1) for _ in range(rng.randint(1, 2))]
                b = [l for l in b if not (l["s"] == 0 and l["atom"]["f"] in der)]
                if b:
                    p["rules"].append({"head": atom(d), "body": b})
        defined = {r["head"]["f"] for r in p["rules"]}
        qs = [d for d in der if d in defined] + rng.sample(used, min(len(used), rng.randint(0, 2)))
        if not qs:
            continue
        for q in qs:
            p["queries"].append(atom(q))
        if rng.random() < 0.5:
            e = rng.choice(used + [d for d in der if d in defined])
            p["evidence"].append({"atom": atom(e), "s": 0 if rng.random() < 0.5 else 1})
        c = progs.canon(p)
        if c in seen:
            continue
        seen.add(c)
        out.append(p)
    return out


def repvar_family(n, seed):
    """One binary predicate called both with a repeated variable, e(X,X), and with distinct variables, e(X,Y) - from rule
    bodies and from queries, in either order (the two call patterns are different goals with different answers)."""
    rng = random.Random(seed * 6007 + 13)
    out, seen, tries = [], set(), 0
    while len(out) < n and tries < 60 * n + 100:
        tries += 1
        consts = ["c1", "c2", "c3"][:rng.randint(2, 3)]
        p = progs.empty_program(consts)
        pairs = [(a, b) for a in consts for b in consts]
        rng.shuffle(pairs)
        chosen = pairs[:rng.randint(2, 5)]
        if not any(a == b for a, b in chosen) or not any(a != b for a, b in chosen):
            continue
        for a, b in chosen:
            if rng.random() < 0.6:
                p["facts"].append({"p": [rng.randint(1, 9), 10], "atom": atom("e", a, b)})
            else:
                p["rules"].append({"head": atom("e", a, b), "body": []})
        for c in consts:
            p["rules"].append({"head": atom("d", c), "body": []})
        rules = [
            {"head": atom("same"), "body": [lit(atom("e", "X", "X"))]},
            {"head": atom("any"), "body": [lit(atom("e", "X", "Y"))]},
            {"head": atom("loop", "X"), "body": [lit(atom("e", "X", "X"))]},
            {"head": atom("out", "X"), "body": [lit(atom("e", "X", "Y"))]},
            {"head": atom("both", "X"), "body": [lit(atom("e", "X", "Y")), lit(atom("e", "Y", "Y"))]},
            {"head": atom("both2", "X"), "body": [lit(atom("e", "X", "X")), lit(atom("e", "X", "Y"))]},
        ]
        if rng.random() < 0.4:      # recursion through both call patterns
            rules.append({"head": atom("e", "X", "Y"), "body": [lit(atom("d", "X")), lit(atom("d", "Y")), lit(atom("e", "Y", "Y")), lit(atom("e", "X", "X"))]})
        rng.shuffle(rules)
        p["rules"] += rules[:rng.randint(2, 5)]
        heads = [r["head"] for r in p["rules"] if r["head"]["f"] not in ("e", "d")]
        qs = []
        for h in heads:
            qs.append(atom(h["f"], *["V%d" % i for i in range(len(h["a"]))]) if h["a"] else atom(h["f"]))
        qs += rng.sample([atom("e", "W", "W"), atom("e", "V", "W"), atom("e", "c1", "W")], rng.randint(1, 3))
        rng.shuffle(qs)
        seenq = set()
        for q in qs:
            k = json.dumps(q, sort_keys=True)
            if k not in seenq:
                seenq.add(k)
                p["queries"].append(q)
        c = progs.canon(p)
        if c in seen:
            continue
        seen.add(c)
        out.append(p)
    return out


def negloop_templates(n, seed):
    """A negative loop (p -> not s -> ... -> p, possibly with an earlier non-negative proof of p) that is reached from
    inside / outside a positive cycle which is still open, closed, or absent; ground atoms, 2-3 facts."""
    rng = random.Random(seed * 6007 + 3)
    out, seen, tries = [], set(), 0
    while len(out) < n and tries < 60 * n + 100:
        tries += 1
        p = progs.empty_program(["c1"])
        facts = ["a", "b", "c"][:rng.randint(2, 3)]
        for f in facts:
            p["facts"].append({"p": [rng.choice([1, 2, 3]), 4], "atom": atom(f)})
        R = []
        # the negative loop
        chain = ["s", "u"][:rng.randint(1, 2)]
        pclauses = []
        if rng.random() < 0.7:
            pclauses.append([lit(atom(rng.choice(facts)))])
        pclauses.append([lit(atom(chain[0]), 0)] + ([lit(atom(rng.choice(facts)))] if rng.random() < 0.3 else []))
        if rng.random() < 0.3:
            rng.shuffle(pclauses)
        for b in pclauses:
            R.append(("p", b))
        for i, c in enumerate(chain):
            nxt = chain[i + 1] if i + 1 < len(chain) else "p"
            R.append((c, [lit(atom(nxt))]))
            if rng.random() < 0.3:
                R.append((c, [lit(atom(rng.choice(facts)))]))
        # a positive cycle that reaches p
        shape = rng.choice(["open", "closed", "none", "inside"])
        if shape in ("open", "closed", "inside"):
            cyc = [("r", [lit(atom("x"))]), ("x", [lit(atom("r"))]), ("x", [lit(atom("p"))])]
            if shape == "closed":
                cyc.insert(0, ("r", [lit(atom(rng.choice(facts)))]))
            if shape == "inside":
                R.append(("p", [lit(atom("r"))]))
            if rng.random() < 0.4:
                rng.shuffle(cyc)
            R += cyc
            q = ["r"]
        else:
            R.append(("r", [lit(atom("p")), lit(atom(rng.choice(facts)))]))
            q = ["r"]
        if rng.random() < 0.3:
            rng.shuffle(R)
        for h, b in R:
            p["rules"].append({"head": atom(h), "body": b})
        if rng.random() < 0.3:
            q.append("p")
        for x in q:
            p["queries"].append(atom(x))
        c = progs.canon(p)
        if c in seen:
            continue
        seen.add(c)
        out.append(p)
    return out


def sem_check(ctx, P, variants, level="exploration", timeout=60, extra_cov=None, strict_instances=True,
              tol=1e-9, post=None, sig_extra=None, write=True, skip=None):
    """Judge programs P with TLC, run every variant on the real system, compare.

    variants(p) -> list of (variant_name, kwargs for pl_tasks.prob)"""
    for i, p in enumerate(P):
        p["id"] = i + 1
    J = semcheck.judge(P, nproc=ctx.nproc)
    jobs = []
    index = []
    for i, p in enumerate(P):
        for (vn, kw) in variants(p):
            kw2 = dict(kw)
            jobs.append((kw2.pop("_task", "prob"), kw2))
            index.append((i, vn, kw))
    runs = pl.run_jobs(jobs, nproc=ctx.nproc, timeout=timeout)
    classes = {"mustAnswer": 0, "mustReject": 0, "either": 0, "invalid": 0, "inconsistent": 0}
    outcomes = {}
    nontrivial = set()
    for i, p in enumerate(P):
        j = J[i]
        if not j["valid"]:
            classes["invalid"] += 1
        elif j["mustReject"]:
            classes["mustReject"] += 1
        elif j["mustAnswer"]:
            classes["mustAnswer"] += 1
        else:
            classes["either"] += 1
        if j["valid"] and j["den"] == 0:
            classes["inconsistent"] += 1
        if len(progs.features(p)) >= 2:
            nontrivial.add(progs.canon(p))
    per_prog_runs = {}
    for (i, vn, kw), r in zip(index, runs):
        ctx.evaluations += 1
        p, j = P[i], J[i]
        per_prog_runs.setdefault(i, []).append((vn, kw, r))
        if skip and skip(p, j, r, vn):
            continue
        vs = semcheck.verdict(p, j, r, strict_instances=strict_instances, tol=tol)
        key = r.get("error") or "answered"
        outcomes[key] = outcomes.get(key, 0) + 1
        if vs is None:
            ctx.inconclusive += 1
            continue
        for (clause, detail) in vs:
            sig = {"clause": clause, "variant": vn.split("#")[0]}
            if r.get("error"):
                sig["error"] = r["error"]
                sig["site"] = r.get("site", "")
                sig["chain"] = r.get("chain", "")
            sig.update(semcheck.triggers(p))
            if sig_extra:
                sig.update(sig_extra(p, j, r, vn))
            ctx.violation(sig, "[%s] %s\n%s" % (vn, detail, kw.get("text", "")),
                          {"kind": "sem", "program": p, "variant": vn, "kwargs": kw, "run": r})
        if i < 3 and len(ctx.samples) < 3:
            ctx.sample({"program_text": kw.get("text"), "variant": vn, "tlc_expected": j["expected"],
                        "tlc_den": j["den"], "class": ("mustReject" if j["mustReject"] else "mustAnswer"
                                                       if j["mustAnswer"] else "either"),
                        "impl": r.get("answers", r.get("error"))})
    if post:
        post(P, J, per_prog_runs)
    cov = {
        "evaluations": ctx.evaluations,
        "distinct_nontrivial": len(nontrivial),
        "rule": "seeded structured generator (vlib/progs.py Gen + family_small) inside the fragment of "
                "spec/Semantics.tla; a program is non-trivial when it shows >=2 of: positive cycle, negative "
                "cycle, negation, AD, AD with body, non-ground AD, multiple supports, non-ground query, evidence, "
                "negative evidence, evidence on derived atom, probability 0/1; distinct = distinct canonical JSON",
        "programs": len(P),
        "tlc_judged_programs": len(P),
        "c02_classes": classes,
        "impl_outcomes": outcomes,
        "worlds_enumerated_by_tlc": sum(j.get("worlds", 0) for j in J),
    }
    if extra_cov:
        cov.update(extra_cov)
    if write:
        ctx.write_evidence(level, cov, assumptions=[
            "TLC (spec/Semantics.tla) is the reference enumerator: exact integer world weights, well-founded model "
            "by alternating fixpoint; probabilities on a rational grid, <= 2^31 common denominator",
            "harness trusted base: structured-program -> ProbLog text renderer, float vs exact rational "
            "comparison (1e-9 abs+rel), JSON (de)serialisation",
        ])
    return J, per_prog_runs, cov


def sem_replay(ctx, path):
    with open(path) as f:
        d = json.load(f)
    case = d["case"]
    p = case["program"]
    J = semcheck.judge([p], nproc=1, use_cache=False)[0]
    kw = dict(case["kwargs"])
    r = pl.run_local(kw.pop("_task", "prob"), **kw)
    ctx.evaluations += 1
    vs = semcheck.verdict(p, J, r) or []
    print("program:\n" + case["kwargs"].get("text", ""))
    print("TLC facts:", json.dumps(J))
    print("implementation:", json.dumps(r)[:800])
    for (clause, detail) in vs:
        sig = {"clause": clause, "variant": case["variant"].split("#")[0]}
        if r.get("error"):
            sig.update({"error": r["error"], "site": r.get("site", ""), "chain": r.get("chain", "")})
        sig.update(semcheck.triggers(p))
        ctx.violation(sig, detail, case)
    ctx.write_evidence("exploration", {"evaluations": 1, "distinct_nontrivial": 0, "rule": "replay of one case",
                                          "samples": [case["kwargs"].get("text", "")]})


def relational(ctx, P, J, per_prog_runs, base="default", clause="variant-disagrees", tol=1e-9, same_instances=True,
               skip=None, sig_extra=None, only=None):
    """Compare every variant run with the base variant of the same program: same outcome class (answered / same
    error class), same reported instances, same probabilities."""
    n = 0
    for i, runs in per_prog_runs.items():
        b = [r for (vn, kw, r) in runs if vn == base]
        if not b:
            continue
        if only and not only(P[i], J[i]):
            continue
        b = b[0]
        if b.get("inconclusive"):
            continue
        for (vn, kw, r) in runs:
            if vn == base or r.get("inconclusive"):
                continue
            if skip and skip(P[i], J[i], r, vn):
                continue
            n += 1
            diff = None
            if (b.get("error") or None) != (r.get("error") or None):
                diff = "outcome differs: %s gives %s, %s gives %s" % (
                    base, b.get("error") or "answers", vn, r.get("error") or "answers")
            elif not b.get("error"):
                ba, ra = b["answers"], r["answers"]
                for k in set(ba) | set(ra):
                    if k not in ba or k not in ra:
                        if same_instances and abs(ba.get(k, ra.get(k))) > tol:
                            diff = "instance %s reported by only one of %s/%s" % (k, base, vn)
                            break
                        continue
                    if abs(ba[k] - ra[k]) > tol + tol * abs(ba[k]):
                        diff = "%s: %s gives %r, %s gives %r" % (k, base, ba[k], vn, ra[k])
                        break
            if diff:
                # the signature carries the raise site of the more specific failure (an internal exception wins)
                cands = [x for x in (r, b) if x.get("error")]
                cands.sort(key=lambda x: 0 if not x.get("problog_error") else (1 if "NegativeCycle" in x.get("mro", []) else 2))
                er = cands[0] if cands else r
                sig = {"clause": clause, "variant": vn.split("#")[0]}
                if er.get("error"):
                    sig.update({"error": er["error"], "site": er.get("site", ""), "chain": er.get("chain", "")})
                sig.update(semcheck.triggers(P[i]))
                jj = J[i]
                sig["class"] = "invalid" if not jj["valid"] else ("mustReject" if jj["mustReject"] else
                                                                  "mustAnswer" if jj["mustAnswer"] else "either")
                if sig_extra:
                    sig.update(sig_extra(P[i], J[i], r, vn))
                ctx.violation(sig, "%s\n%s" % (diff, kw.get("text", "")),
                              {"kind": "rel", "program": P[i], "variant": vn, "kwargs": kw, "base_kwargs":
                               [k2 for (v2, k2, r2) in runs if v2 == base][0], "run": r, "base_run": b})
    return n


def evidence_family(n, seed):
    """Propositional, stratified programs built to exercise evidence propagation: several evidence literals of both signs on
    facts, AD heads and derived atoms (so that values spread through rule bodies, also through negated literals), every atom
    queried (so that nodes grounded for the evidence are reused by queries), ADs with 3-4 heads whose probabilities sum to
    exactly one with negative evidence on a head."""
    rng = random.Random(seed * 7451 + 29)
    out, seen, tries = [], set(), 0
    while len(out) < n and tries < 60 * n + 100:
        tries += 1
        p = progs.empty_program(["c1"])
        facts = ["f", "g", "h", "z"][:rng.randint(2, 4)]
        for f in facts:
            p["facts"].append({"p": [rng.choice([1, 2, 3, 4, 6]), 10], "atom": atom(f)})
        adh = []
        if rng.random() < 0.5:
            k = rng.randint(3, 4)
            adh = ["x", "y", "w", "u"][:k]
            cuts = sorted(rng.sample(range(1, 10), k - 1))
            vals = [b - a for a, b in zip([0] + cuts, cuts + [10])]
            rng.shuffle(adh)
            p["ads"].append({"heads": [{"p": [v, 10], "atom": atom(h)} for h, v in zip(adh, vals)], "body": []})
        der = ["a", "b", "c", "d"][:rng.randint(2, 4)]
        for i, d in enumerate(der):
            lower = facts + adh + der[:i]
            for _ in range(rng.randint(1, 2)):
                b = [lit(atom(rng.choice(lower)), 0 if rng.random() < 0.35 else 1) for _ in range(rng.randint(1, 2))]
                p["rules"].append({"head": atom(d), "body": b})
        names = facts + adh + der
        evs = rng.sample(names, rng.randint(1, 3))
        if adh and rng.random() < 0.7 and not any(e in adh for e in evs):
            evs[0] = rng.choice(adh)
        for e in evs:
            s = 0 if (e in adh and rng.random() < 0.8) or rng.random() < 0.45 else 1
            p["evidence"].append({"atom": atom(e), "s": s})
        order = [x for x in names if x not in evs]
        rng.shuffle(order)
        for q in order[:rng.randint(2, 5)]:
            p["queries"].append(atom(q))
        if not p["queries"]:
            continue
        c = progs.canon(p)
        if c in seen:
            continue
        seen.add(c)
        out.append(p)
    return out


def mutual_family(n, seed):
    """Two mutually recursive unary predicates r/1 and g/1 over the constants, linked by an edge relation, with base clauses
    in different positions and entry points that call either side first (mutual recursion entered from both sides)."""
    rng = random.Random(seed * 9109 + 7)
    out, seen, tries = [], set(), 0
    while len(out) < n and tries < 60 * n + 100:
        tries += 1
        consts = ["c1", "c2", "c3"]
        p = progs.empty_program(consts)
        p["facts"].append({"p": [rng.randint(2, 8), 10], "atom": atom("b")})
        p["facts"].append({"p": [rng.randint(2, 8), 10], "atom": atom("c")})
        pairs = [(a, b) for a in consts for b in consts if a != b]
        rng.shuffle(pairs)
        for a, b in pairs[:rng.randint(2, 4)]:
            if rng.random() < 0.5:
                p["facts"].append({"p": [rng.randint(3, 9), 10], "atom": atom("e", a, b)})
            else:
                p["rules"].append({"head": atom("e", a, b), "body": []})
        rec_r = {"head": atom("r", "Y"), "body": [lit(atom("g", "X")), lit(atom("e", "X", "Y"))]}
        if rng.random() < 0.4:
            rec_r["body"].reverse()
        rec_g = {"head": atom("g", "X"), "body": [lit(atom("r", "X"))]}
        if rng.random() < 0.3:
            rec_g = {"head": atom("g", "Y"), "body": [lit(atom("r", "X")), lit(atom("e", "X", "Y"))]}
        base_r = {"head": atom("r", rng.choice(consts)), "body": [lit(atom("b"))]}
        base_g = {"head": atom("g", rng.choice(consts)), "body": [lit(atom("c"))]}
        entry = [{"head": atom("t"), "body": [lit(atom("r", "X"))]}, {"head": atom("t"), "body": [lit(atom("g", "X"))]},
                 {"head": atom("q"), "body": [lit(atom("r", "X")), lit(atom("g", "X"))]},
                 {"head": atom("q"), "body": [lit(atom("g", "X")), lit(atom("e", "X", "Y")), lit(atom("r", "Y"))]}]
        rng.shuffle(entry)
        rules = [rec_r, rec_g, base_r] + ([base_g] if rng.random() < 0.6 else []) + entry[:rng.randint(1, 3)]
        rng.shuffle(rules)
        p["rules"] += rules
        qs = [atom(h) for h in sorted({r["head"]["f"] for r in rules if r["head"]["f"] in ("t", "q")})]
        qs += rng.sample([atom("g", "W"), atom("r", "W"), atom("r", "c2"), atom("g", "c3")], rng.randint(0, 2))
        rng.shuffle(qs)
        p["queries"] = qs
        if not qs:
            continue
        c = progs.canon(p)
        if c in seen:
            continue
        seen.add(c)
        out.append(p)
    return out


def single_literal_family(probs=((3, 10),)):
    """EXHAUSTIVE: derived atoms p, x and one probabilistic fact a; every clause body is ONE literal (p, x, a or a negation);
    1-2 clauses per derived atom in every order (42 x 42 = 1764 programs per probability); both atoms queried.  All three C02
    classes occur; clause order matters to the engine, not to the semantics."""
    lits = [("p", 1), ("x", 1), ("a", 1), ("p", 0), ("x", 0), ("a", 0)]
    defs = [[l] for l in lits] + [[l1, l2] for l1 in lits for l2 in lits]
    out = []
    for pr in probs:
        for dp in defs:
            for dx in defs:
                p = progs.empty_program(["c1"])
                p["facts"].append({"p": list(pr), "atom": atom("a")})
                for h, d in (("p", dp), ("x", dx)):
                    for (f, s) in d:
                        p["rules"].append({"head": atom(h), "body": [lit(atom(f), s)]})
                p["queries"] = [atom("p"), atom("x")]
                out.append(p)
    return out


def multirec_family(n, seed):
    """A predicate with TWO recursive clauses and a base clause in every clause order (recursive, base, recursive; ...),
    propositional and over an edge relation, queried ground and non-ground."""
    import itertools
    rng = random.Random(seed * 3571 + 5)
    out, seen, tries = [], set(), 0
    while len(out) < n and tries < 60 * n + 100:
        tries += 1
        consts = ["c1", "c2", "c3"]
        p = progs.empty_program(consts)
        for f in ("s", "u", "w"):
            p["facts"].append({"p": [rng.randint(2, 8), 10], "atom": atom(f)})
        if rng.random() < 0.5:
            # propositional: r has no proof until the base clause is reached
            third = rng.choice(["q", "r"])
            cl = [{"head": atom("r"), "body": [lit(atom("q")), lit(atom("u"))]}, {"head": atom("r"), "body": [lit(atom("s"))]},
                  {"head": atom("r"), "body": [lit(atom(third)), lit(atom("w"))]}]
            extra = [{"head": atom("q"), "body": [lit(atom("r"))]}, {"head": atom("q"), "body": [lit(atom("w")), lit(atom("u"))]}]
            qs = [atom("r"), atom("q")]
        else:
            pairs = [(a, b) for a in consts for b in consts if a != b]
            rng.shuffle(pairs)
            for i, (a, b) in enumerate(pairs[:rng.randint(3, 5)]):
                f = "e" if i % 2 == 0 else "f"
                if rng.random() < 0.6:
                    p["facts"].append({"p": [rng.randint(3, 9), 10], "atom": atom(f, a, b)})
                else:
                    p["rules"].append({"head": atom(f, a, b), "body": []})
            for f in ("e", "f"):
                if not any(x["atom"]["f"] == f for x in p["facts"]) and not any(r["head"]["f"] == f for r in p["rules"]):
                    p["facts"].append({"p": [5, 10], "atom": atom(f, "c1", "c2")})
            cl = [{"head": atom("r", "X"), "body": [lit(atom("r", "Y")), lit(atom("e", "Y", "X"))]},
                  {"head": atom("r", "c1"), "body": [lit(atom("s"))]},
                  {"head": atom("r", "X"), "body": [lit(atom("r", "Y")), lit(atom("f", "Y", "X"))]}]
            extra = []
            qs = rng.sample([atom("r", "W"), atom("r", "c2"), atom("r", "c3")], rng.randint(1, 3))
        if rng.random() < 0.35:
            # left-recursive reachability over certain and probabilistic edges: a certain answer can arrive on a detected cycle
            p = progs.empty_program(consts)
            pairs = [(a, b) for a in consts for b in consts if a != b]
            rng.shuffle(pairs)
            for a, b in pairs[:rng.randint(3, 5)]:
                if rng.random() < 0.5:
                    p["facts"].append({"p": [rng.randint(3, 9), 10], "atom": atom("e", a, b)})
                else:
                    p["rules"].append({"head": atom("e", a, b), "body": []})
            rec = {"head": atom("t", "X", "Y"), "body": [lit(atom("t", "X", "Z")), lit(atom("e", "Z", "Y"))]}
            if rng.random() < 0.3:
                rec = {"head": atom("t", "X", "Y"), "body": [lit(atom("t", "Z", "Y")), lit(atom("e", "X", "Z"))]}
            if rng.random() < 0.25:
                rec["body"].reverse()
            base = {"head": atom("t", "X", "Y"), "body": [lit(atom("e", "X", "Y"))]}
            p["rules"] += [rec, base] if rng.random() < 0.6 else [base, rec]
            p["queries"] = rng.sample([atom("t", "c1", "W"), atom("t", "c1", "c3"), atom("t", "V", "W"), atom("t", "W", "c2")], rng.randint(1, 3))
            c = progs.canon(p)
            if c not in seen:
                seen.add(c)
                out.append(p)
            continue
        order = list(rng.choice(list(itertools.permutations(range(3)))))
        p["rules"] += [cl[i] for i in order] + extra
        p["queries"] = qs
        c = progs.canon(p)
        if c in seen:
            continue
        seen.add(c)
        out.append(p)
    return out


def selfpred_family(n, seed):
    """Ground rules whose body is ONE positive literal of the head's own predicate (r(c1) :- r(c2).), acyclic chains and
    cycles, next to probabilistic facts of the same predicate and rules through another predicate."""
    rng = random.Random(seed * 1213 + 3)
    out, seen, tries = [], set(), 0
    while len(out) < n and tries < 60 * n + 100:
        tries += 1
        consts = ["c1", "c2", "c3"]
        p = progs.empty_program(consts)
        for c in rng.sample(consts, rng.randint(1, 2)):
            p["facts"].append({"p": [rng.randint(2, 8), 10], "atom": atom("r", c)})
        p["facts"].append({"p": [rng.randint(2, 8), 10], "atom": atom("s", rng.choice(consts))})
        pairs = [(a, b) for a in consts for b in consts if a != b]
        rng.shuffle(pairs)
        for a, b in pairs[:rng.randint(1, 4)]:
            p["rules"].append({"head": atom("r", a), "body": [lit(atom("r", b))]})
        if rng.random() < 0.5:
            p["rules"].append({"head": atom("r", "X"), "body": [lit(atom("s", "X"))]})
        if rng.random() < 0.3:
            p["rules"].append({"head": atom("t", rng.choice(consts)), "body": [lit(atom("r", rng.choice(consts))), lit(atom("s", "X"))]})
        rng.shuffle(p["rules"])
        p["queries"] = [atom("r", c) for c in consts] + ([atom("t", "W")] if any(r["head"]["f"] == "t" for r in p["rules"]) else [])
        c = progs.canon(p)
        if c in seen:
            continue
        seen.add(c)
        out.append(p)
    return out

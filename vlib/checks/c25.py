"""C25 - exported ground programs keep the original semantics.

The text written by the ground task (to_prolog, with and without cycle breaking, with and without --compact) is
re-parsed and re-evaluated by the real system and judged against the ORIGINAL program's exact probabilities
(Semantics.tla); the exported DIMACS is re-read and TLC checks it has exactly the models of the internal CNF."""
import hashlib
import json
import os

from .. import pl, progs, semcheck, tlc
from . import common

CORPUS_SEED = 252525
KNOWN_CASES = os.path.join(os.path.dirname(os.path.dirname(os.path.dirname(os.path.abspath(__file__)))), "tools", "c25_corpus_known.json")


def corpus():
    """A FIXED set of programs (independent of the run's seed).  to_prolog of the pinned tree is wrong on many programs with
    negation, evidence or non-ground ADs (KF12, KF13, KF14: broad signatures); on this corpus the failing (program, variant)
    pairs are listed one by one in tools/c25_corpus_known.json, so that any OTHER pair that starts to fail is reported."""
    P = semcheck.gen_programs(CORPUS_SEED, 160, "strat", p_edge=False)
    P += common.family_small(80, CORPUS_SEED)
    P += common.selfpred_family(40, CORPUS_SEED)
    P += common.evidence_family(60, CORPUS_SEED)
    return P


def case_key(p, vn):
    q = {k: v for k, v in p.items() if k != "id"}
    return "%s/%s" % (hashlib.sha1(progs.canon(q).encode()).hexdigest()[:12], vn)


def _variants(p):
    t = progs.render(p)
    return [("default", {"text": t}),
            ("export", {"_task": "ground_export", "text": t}),
            ("export-dag", {"_task": "ground_export", "text": t, "break_cycles": True})]


def run_corpus(ctx):
    P = corpus()
    unstable = set(json.load(open(KNOWN_CASES)).get("unstable_programs", [])) if os.path.exists(KNOWN_CASES) else set()
    P = [p for p in P if case_key(p, "").split("/")[0] not in unstable]

    def sig_extra(p, j, r, vn):
        fs = progs.features(p)
        return {"has_negation": "negation" in fs, "has_evidence": "evidence" in fs, "ad_nonground": "ad_nonground" in fs,
                "corpus": True, "corpus_case": case_key(p, vn)}

    def post(P_, J, runs):
        common.relational(ctx, P_, J, runs, clause="export-changes-answer",
                          only=lambda p, j: j["valid"] and j["mustAnswer"] and not j["undefPreds"], sig_extra=sig_extra)
    before = ctx.evaluations
    common.sem_check(ctx, P, _variants, level="translation_validation", post=post, write=False, sig_extra=sig_extra)
    return {"programs": len(P), "runs": ctx.evaluations - before, "excluded_unstable_programs": len(unstable)}



def run(ctx):
    P = semcheck.gen_programs(ctx.seed * 7919 + 251, ctx.pick(110, 1500), "strat", p_edge=False)
    P += common.family_small(ctx.pick(60, 800), ctx.seed + 25000)
    P += common.selfpred_family(ctx.pick(60, 600), ctx.seed + 25050)
    # the same probabilistic statement written twice is two independent choices (and must stay two in the exported text)
    import copy
    import random
    rng = random.Random(ctx.seed + 2525)
    D = semcheck.gen_programs(ctx.seed * 7919 + 252, ctx.pick(50, 600), "strat", p_edge=False) + \
        common.family_small(ctx.pick(30, 400), ctx.seed + 25100)
    for p in D:
        kinds = [k for k in ("facts", "ads", "rules") if p[k]]
        for _ in range(rng.randint(1, 2)):
            k = rng.choice(kinds)
            st = copy.deepcopy(rng.choice(p[k]))
            p[k].append(st)
        p.pop("order", None)

    def den(p):
        n = 1
        for f in p["facts"]:
            n *= f["p"][1]
        for ad in p["ads"]:
            vs = progs.clause_vars([h["atom"] for h in ad["heads"]], ad["body"])
            n *= ad["heads"][0]["p"][1] ** (len(p["consts"]) ** len(vs))
        return n
    P += [p for p in D if progs.n_worlds(p) <= 2048 and den(p) <= 10 ** 8]

    def variants(p):
        t = progs.render(p)
        return [("default", {"text": t}),
                ("export", {"_task": "ground_export", "text": t}),
                ("export-dag", {"_task": "ground_export", "text": t, "break_cycles": True})]
        # the text export under --keep-duplicates is not run: the property names the two variants above; on the pinned tree
        # to_prolog loses clauses of atoms that have duplicate proofs (DESIGN.md section 8)
        # --compact is documented as "may remove some predicates" and is not part of the property: not run

    def sig_extra(p, j, r, vn):
        fs = progs.features(p)
        return {"has_negation": "negation" in fs, "has_evidence": "evidence" in fs, "ad_nonground": "ad_nonground" in fs}

    def post(P_, J, runs):
        ctx.cov["relational"] = common.relational(
            ctx, P_, J, runs, clause="export-changes-answer",
            only=lambda p, j: j["valid"] and j["mustAnswer"] and not j["undefPreds"], sig_extra=sig_extra)

    J, runs, cov = common.sem_check(ctx, P, variants, level="translation_validation", post=post, write=False,
                                    sig_extra=sig_extra)
    cov["corpus"] = run_corpus(ctx)
    cov["negated_queries"] = negated_queries(ctx)
    # DIMACS
    # the ground task's --keep-duplicates: a clause derived twice keeps both copies in the formula and in the CNF
    jobs = [("ground_export", {"text": progs.render(p), "fmt": "cnf"}) for p in P] + \
           [("ground_export", {"text": progs.render(p), "fmt": "cnf", "keep_duplicates": True}) for p in P]
    res = pl.run_jobs(jobs, nproc=ctx.nproc, timeout=60)
    cases = []
    P2 = P + P
    for i, r in enumerate(res):
        if r.get("error") or r["dimacs"]["nvars"] > 14:
            continue
        cases.append({"id": i, "dimacs": r["dimacs"], "internal": r["internal"]})
    JD = tlc.judge_batch("JudgeDimacs", cases, nproc=ctx.nproc, tag="c25")
    for c in cases:
        ctx.evaluations += 1
        if not JD[c["id"]]["ok"]:
            ctx.violation({"clause": "dimacs-models-differ"}, "exported DIMACS and internal CNF have different models\n%s\n%s"
                          % (progs.render(P2[c["id"]]), c), {"kind": "sem", "program": P2[c["id"]], "variant": "dimacs",
                                                             "kwargs": {"text": progs.render(P2[c["id"]])}})
    cov["dimacs_cases"] = len(cases)
    cov["programs"] = len(P)
    cov["disagreements_checked"] = ctx.evaluations
    cov["evaluations"] = ctx.evaluations
    ctx.write_evidence("translation_validation", cov, assumptions=[
        "the exported text is re-evaluated by the real system; its numbers are judged against the exact values TLC computes "
        "for the ORIGINAL program, so an error common to export and re-import cannot cancel out"])


def negated_queries(ctx):
    """query(\\+q) next to query(q), also on atoms the grounder decides (deterministically true / false atoms): the exported text must
    give every query - positive and negated - the probability the original program gives it (the relation the property states;
    the original's own numbers are judged by C01)."""
    import random
    rng = random.Random(ctx.seed + 2626)
    P = common.family_small(ctx.pick(120, 1200), ctx.seed + 25200, with_ad=False)
    jobs, meta = [], []
    for p in P:
        q = dict(p)
        q["evidence"] = []
        t = progs.render(q)
        names = sorted({r["head"]["f"] for r in p["rules"]} | {f["atom"]["f"] for f in p["facts"]})
        extra = ["dt.", "dr(1).", "df :- dt, dr(%d)." % rng.randint(2, 3), "du :- \\+dt.", "dv :- \\+df."]
        lines = extra + ["query(\\+%s)." % n for n in names] + ["query(%s)." % n for n in ("dt", "df", "du")] + \
                ["query(\\+%s)." % n for n in ("dt", "df", "du")]
        text = t + "\n".join(lines) + "\n"
        for vn, kw in (("default", {"text": text}), ("export", {"_task": "ground_export", "text": text}),
                       ("export-dag", {"_task": "ground_export", "text": text, "break_cycles": True})):
            kw2 = dict(kw)
            jobs.append((kw2.pop("_task", "prob"), kw2))
            meta.append((len(meta) // 3, vn, text))
    runs = pl.run_jobs(jobs, nproc=ctx.nproc, timeout=60)
    n = 0
    for i in range(0, len(runs), 3):
        base, text = runs[i], meta[i][2]
        if base.get("error") or base.get("inconclusive"):
            continue
        for k in (1, 2):
            r, vn = runs[i + k], meta[i + k][1]
            ctx.evaluations += 1
            if r.get("inconclusive"):
                continue
            n += 1
            fs = {"has_negation": "\\+" in text.split("dt.")[0], "has_evidence": False, "ad_nonground": False}
            sig = dict(fs, clause="export-changes-answer", variant=vn, negated_query=True)
            case = {"kind": "negq", "text": text, "variant": vn}
            if r.get("error"):
                ctx.violation(dict(sig, error=r["error"], site=r.get("site", "")), "[%s] the exported text raises %s (%s)\n%s" % (vn, r["error"], r.get("msg"), text), case)
                continue
            for name, v in base["answers"].items():
                w = r["answers"].get(name)
                if w is None or abs(w - v) > 1e-9:
                    ctx.violation(sig, "[%s] %s: original %r, exported text %r\n%s\nexported:\n%s" % (vn, name, v, w, text, r.get("exported", "")[:1500]), case)
                    break
    return {"programs": len(P), "exports_compared": n}


def replay(ctx, path):
    import json as _json
    with open(path) as f:
        d = _json.load(f)
    c = d["case"]
    if c.get("kind") == "negq":
        base = pl.run_local("prob", text=c["text"])
        r = pl.run_local("ground_export", text=c["text"], break_cycles=(c["variant"] == "export-dag"))
        print(c["text"], "\noriginal:", base, "\nexport:", r)
        ctx.evaluations = 1
        if r.get("error") or any(r["answers"].get(k) is None or abs(r["answers"][k] - v) > 1e-9 for k, v in base.get("answers", {}).items()):
            ctx.violation({"clause": "export-changes-answer", "variant": c["variant"], "negated_query": True}, "export differs", c)
        ctx.write_evidence("translation_validation", {"evaluations": 1, "distinct_nontrivial": 0, "samples": [c["text"]]})
        return
    common.sem_replay(ctx, path)

"""C17 - the parser is total and printing round-trips.

Round trip: ASTs over the operator table (bounded-exhaustive at depth 1, random up to depth 3) are built with the public
constructors, printed with str() and parsed again; TLC (JudgeTerms, kind 'variant') decides whether the re-parsed term is
the same term up to variable renaming.  Totality: token-level mutations of generated programs and of printed terms must
parse or raise a ProbLogError subclass (never another exception)."""
import itertools
import json
import random
import re

from .. import pl, progs, semcheck, tlc
from .. import terms as T

BIN = [",", ";", "=", "\\=", "==", "\\==", "@<", "@>", "@=<", "@>=", "<", ">", "=<", ">=", "=:=", "=\\=", "is", "+", "-", "*", "/",
       "//", "mod", "rem", "**", "^", ">>", "<<", "/\\", "\\/", "xor", "->", "=.."]
UN = ["-", "\\+", "\\"]
LEAVES = [T.A("a"), T.A("b"), T.A("A b"), T.A("[]"), T.I(1), T.I(0), T.I(12), T.F(2), T.F(10), T.S("s"), T.V(1), T.V(2),
          T.Cm("f", T.A("a")), T.L([T.A("a"), T.I(1)]), T.L([T.V(1)], T.V(2))]


def gen_asts(ctx, rng):
    out = []
    for op in BIN:
        for x, y in itertools.product(LEAVES[:9], repeat=2):
            if rng.random() < ctx.pick(0.25, 1.0):
                out.append(T.Cm(op, x, y))
    for op in UN:
        for x in LEAVES:
            out.append(T.Cm(op, x))

    def tree(d):
        if d == 0 or rng.random() < 0.3:
            return rng.choice(LEAVES)
        r = rng.random()
        if r < 0.65:
            return T.Cm(rng.choice(BIN), tree(d - 1), tree(d - 1))
        if r < 0.8:
            return T.Cm(rng.choice(UN), tree(d - 1))
        if r < 0.9:
            return T.Cm(rng.choice(["f", "g"]), tree(d - 1), tree(d - 1))
        return T.L([tree(d - 1), tree(d - 1)])
    for _ in range(ctx.pick(2500, 30000)):
        out.append(tree(3))
    # control operators nested in each other and inside compounds, lists, operators and clause bodies (the printer has
    # dedicated code for conjunctions and disjunctions)
    a, b, c = T.A("a"), T.A("b"), T.A("c")
    ctl = [",", ";", "->"]
    inner = [a] + [T.Cm(o, b, c) for o in ctl]
    mids = [T.Cm(o, x, y) for o in ctl for x in inner for y in inner]
    mids += [T.Cm(o, T.Cm(o2, a, T.Cm(o3, b, c)), a) for o in ctl for o2 in ctl for o3 in ctl]
    mids += [T.Cm(o, a, T.Cm(o2, b, T.Cm(o3, c, a))) for o in ctl for o2 in ctl for o3 in ctl]
    # right-nested chains of 3 and 4 operands with a control term at EVERY position (first, middle, last)
    def chain(o, xs):
        return xs[0] if len(xs) == 1 else T.Cm(o, xs[0], chain(o, xs[1:]))
    for o in ctl:
        for x1 in inner:
            for x2 in inner:
                for x3 in inner:
                    mids.append(chain(o, [x1, x2, x3]))
        for pos in range(4):
            for x in inner[1:]:
                xs = [a, b, c, a]
                xs[pos] = x
                mids.append(chain(o, xs))
    for m in mids:
        out.append(m)
        out.append(T.Cm("f", m))
        out.append(T.Cm("findall", T.V(1), m, T.V(2)))
        out.append(T.L([m, a]))
        out.append(T.Cm("\\+", m))
        out.append(T.Cm("=", T.V(1), m))
        out.append(T.Cm("is", m, a))
    clauses = []
    for m in mids:
        clauses.append(T.Cm(":-", T.Cm("h", a), m))
        clauses.append(T.Cm(":-", T.Cm("h", a), T.Cm(",", T.Cm("call", m), T.Cm("\\+", m))))
    for _ in range(ctx.pick(500, 6000)):
        head = T.Cm("h", rng.choice(LEAVES[:12]))
        body = tree(2)
        clauses.append(T.Cm(":-", head, body))
    seen, res = set(), []
    for t in out:
        k = json.dumps(t, sort_keys=True)
        if k not in seen:
            seen.add(k)
            res.append((t, False))
    for t in clauses:
        k = json.dumps(t, sort_keys=True)
        if k not in seen:
            seen.add(k)
            res.append((t, True))
    return res


def paren(t, top=True):
    """fully parenthesised text of an AST: every operator application in its own parentheses (no priorities needed)"""
    k = t["t"]
    if k != "c":
        return T.render(t)
    f = T.txt(t["c"])
    if f == "." and len(t["a"]) == 2 and T.is_list(t):
        items = []
        x = t
        while x["t"] == "c" and T.txt(x["c"]) == "." and len(x["a"]) == 2:
            items.append(paren(x["a"][0], False))
            x = x["a"][1]
        if x["t"] == "a":
            return "[" + ", ".join(items) + "]"
        return "[" + ", ".join(items) + " | " + paren(x, False) + "]"
    if f in BIN and len(t["a"]) == 2:
        return "(%s %s %s)" % (paren(t["a"][0], False), f, paren(t["a"][1], False))
    if f in UN and len(t["a"]) == 1:
        return "(%s (%s))" % (f, paren(t["a"][0], False)) if f != "\\+" else "(\\+ (%s))" % paren(t["a"][0], False)
    if f == ":-":
        return "%s :- %s" % (paren(t["a"][0], False), paren(t["a"][1], False))
    return "%s(%s)" % (T.r_atom_text(t["c"]), ", ".join(paren(a, False) for a in t["a"]))


def opsig(t):
    """the operators on the spine of a failing term: used in violation signatures"""
    if t["t"] != "c":
        return ""
    return T.txt(t["c"])


def run(ctx):
    rng = random.Random(ctx.seed + 1717)
    A = gen_asts(ctx, rng)
    cases = [{"id": i, "text": paren(t), "clause": cl} for i, (t, cl) in enumerate(A)]
    # number literals in every lexical form (valid and nearly valid), alone and inside terms: no AST, the checks are
    # 'parses or ParseError' and 'what was parsed survives print / re-parse'
    LIT = ["0x1e", "0xE", "0xdeadbeef", "0xAB", "0x10", "0xff", "0X1E", "0x", "0xg", "0x1.5", "1e", "1e5", "1.0e5", "1.5E-3", "1.e5",
           "2.5e+3", "0.5e", "1E5", "0'a", "0' ", "0b101", "0o17", "1_000", "1.2.3", "00012", "007", ".5", "5.", "1.0Inf", "inf", "nan",
           "1e400", "123456789012345678901234567890", "0.000000000000000000001", "1.0e-400", "-0x1e", "- 0x1e", "-1e5", "0xe+1", "1e5e5"]
    for lit in LIT:
        for ctx_t in ("f(%s)", "[%s, a]", "X is %s + 1", "%s", "g(a, %s) = Y", "%s < 0xe"):
            A.append((None, False))
            cases.append({"id": len(cases), "text": ctx_t % lit, "clause": False, "lit": lit})
    chunk = 150
    res = pl.run_jobs([("print_parse", {"cases": cases[i:i + chunk]}) for i in range(0, len(cases), chunk)],
                      nproc=ctx.nproc, timeout=300, chunksize=1)
    send = []
    info = {}
    for r in res:
        if r.get("error"):
            raise tlc.MachineryError("print_parse failed: %s" % r)
        for o in r["results"]:
            ctx.evaluations += 1
            t = A[o["id"]][0]
            info[o["id"]] = o
            if o.get("skip"):
                continue
            if o.get("crash"):
                ctx.violation({"clause": "crash", "error": o["error"], "site": o.get("site", "")},
                              "parsing / printing / re-parsing %r: %s" % (cases[o["id"]]["text"], o["crash"]),
                              {"ast": t, "clause": A[o["id"]][1], "text": cases[o["id"]]["text"]})
                continue
            if t is None:
                if o["ok"] == 1:
                    send.append({"id": 2 * o["id"] + 1, "kind": "variant", "x": o["first"], "y": o["back"]})
                elif o["stage"] != "parse1":
                    ctx.violation(dict(clause="printed-text-does-not-parse", shape="literal"),
                                  "text %r; stage %s; printed %r; %s" % (cases[o["id"]]["text"], o["stage"], o.get("text"), o.get("err")),
                                  {"ast": None, "clause": False, "text": cases[o["id"]]["text"]})
                continue
            if o["ok"] != 1:
                cl = {"parse1": "valid-text-rejected", "print": "print-failed", "parse2": "printed-text-does-not-parse"}[o["stage"]]
                for edge in (o.get("shape", "") or "?").split("|"):
                    ctx.violation(dict(clause=cl, shape=edge if cl != "valid-text-rejected" else "-"),
                                  "text %r; stage %s; printed %r; %s; smallest failing subterm: %s" % (cases[o["id"]]["text"], o["stage"], o.get("text"), o.get("err"), o.get("shape")),
                                  {"ast": t, "clause": A[o["id"]][1], "text": cases[o["id"]]["text"]})
                continue
            send.append({"id": 2 * o["id"], "kind": "variant", "x": t, "y": o["first"]})
            send.append({"id": 2 * o["id"] + 1, "kind": "variant", "x": o["first"], "y": o["back"]})
    J = tlc.judge_batch("JudgeTerms", send, nproc=ctx.nproc, tag="c17")
    for c in send:
        if not J[c["id"]]["ok"]:
            i = c["id"] // 2
            t = A[i][0]
            cl = "parsed-term-differs-from-ast" if c["id"] % 2 == 0 else "round-trip-changes-term"
            if cl == "round-trip-changes-term":
                shapes = (info[i].get("shape", "") or "?").split("|") if t is not None else ["literal"]
            else:
                shapes = [ast_mismatch_shape(t, info[i]["first"])]
            for edge in shapes:
                ctx.violation(dict(clause=cl, shape=edge, **({"literal": cases[i]["lit"]} if t is None else {})),
                              "text %r parsed as %s, printed %r, re-parsed as %s; smallest failing subterm: %s" % (
                                  cases[i]["text"], T.render(info[i]["first"]), info[i]["text"], T.render(info[i]["back"]), edge),
                              {"ast": t, "clause": A[i][1], "text": cases[i]["text"]})
    # ---- totality: token mutations
    texts = []
    base = semcheck.gen_programs(ctx.seed * 7919 + 171, ctx.pick(80, 800), "strat")
    tok = re.compile(r"\s*([A-Za-z_][A-Za-z0-9_]*|\d+\.\d+|\d+|::|:-|\\\+|[()\[\],.;|]|\S)")
    junk = ["()", "( )", "(,)", "[,]", "(", ")", "[", "]", ",", ".", ":-", "::", "\\+", ";", "|", "'", "\"", "0.5", "X", "a", "=", "is", "1.1::", "-", "%", "/*",
            "0'", "0x", "1e", "..", "\\", "{", "}", "`"]
    srcs = [progs.render(p) for p in base] + [info[i]["text"] + "." for i in list(info)[:ctx.pick(300, 3000)] if info[i].get("text")]
    for t in srcs:
        toks = tok.findall(t)
        if not toks:
            continue
        for _ in range(ctx.pick(6, 20)):
            k = rng.randrange(len(toks))
            kind = rng.choice(["delete", "duplicate", "swap", "insert", "replace", "truncate"])
            tt = list(toks)
            if kind == "delete":
                del tt[k]
            elif kind == "duplicate":
                tt.insert(k, tt[k])
            elif kind == "swap" and k + 1 < len(tt):
                tt[k], tt[k + 1] = tt[k + 1], tt[k]
            elif kind == "insert":
                tt.insert(k, rng.choice(junk))
            elif kind == "truncate":
                tt = tt[:k]
            else:
                tt[k] = rng.choice(junk)
            texts.append({"id": len(texts), "text": " ".join(tt), "kind": kind})
    res = pl.run_jobs([("run_texts", {"texts": texts[i:i + 100], "mode": "parse"}) for i in range(0, len(texts), 100)],
                      nproc=ctx.nproc, timeout=300, chunksize=1)
    outcomes = {}
    seen_sig = set()
    for r in res:
        if r.get("error"):
            if r.get("inconclusive"):
                ctx.inconclusive += 1
                continue
            raise tlc.MachineryError("run_texts failed: %s" % r)
        for o in r["results"]:
            ctx.evaluations += 1
            outcomes[o["outcome"]] = outcomes.get(o["outcome"], 0) + 1
            if o["outcome"] == "crash":
                key = (o["error"], o["site"])
                if key in seen_sig:
                    continue
                seen_sig.add(key)
                ctx.violation({"clause": "parser-crash", "error": o["error"], "site": o["site"]},
                              "parsing raised %s (%s) at %s\n%s" % (o["error"], o.get("msg"), o["site"], texts[o["id"]]["text"]),
                              {"text": texts[o["id"]]["text"]})
    ctx.sample({"ast": T.render(A[10][0]), "printed": info[10].get("text")})
    ctx.sample({"literal_text": cases[-7]["text"], "outcome": {k: v for k, v in info[len(cases) - 7].items() if k in ("ok", "stage", "err", "text")}})
    ctx.sample({"mutated_text": texts[3]["text"]})
    ctx.write_evidence("exploration", {
        "evaluations": ctx.evaluations, "distinct_nontrivial": len({c["text"] for c in cases}),
        "rule": "ASTs over %d binary and %d unary operators, compounds, lists, quoted atoms, strings, numbers, variables "
                "(operator pairs at depth 1, random trees to depth 3, clauses with operator bodies); every AST is distinct; "
                "token mutations of generated programs and of printed terms for totality" % (len(BIN), len(UN)),
        "asts": len(A), "mutated_texts": len(texts), "parse_outcomes": outcomes},
        assumptions=["equality of the re-parsed term is decided by TLC (TermAlgebra!Variant)",
                     "totality over all strings is approximated by structured token mutations"])


def jkind(x):
    k = x["t"]
    if k == "v":
        return "var"
    if k == "i":
        return ("neg" if x["v"] < 0 else "") + "int"
    if k == "f":
        return ("neg" if x["v"] < 0 else "") + "float"
    if k == "s":
        return "string"
    if k == "a":
        return "atom"
    return "%s/%d" % (T.txt(x["c"]), len(x["a"]))


def ast_mismatch_shape(ast, parsed):
    """signature of an AST that the parser read differently.  '-(number)' anywhere in the AST is the known reading of
    a parenthesised negative number; otherwise the smallest differing subterm's root and argument kinds."""
    def has_neg_number(x):
        if x["t"] != "c":
            return False
        if T.txt(x["c"]) == "-" and len(x["a"]) == 1 and (x["a"][0]["t"] in ("i", "f") or has_neg_number(x["a"][0]) and
                                                           T.txt(x["a"][0]["c"]) == "-" and len(x["a"][0]["a"]) == 1):
            return True
        return any(has_neg_number(a) for a in x["a"])
    if has_neg_number(ast):
        return "-/1(number)"

    def norm(x):
        if x["t"] == "v":
            return "V"
        if x["t"] == "c":
            return [x["c"], [norm(a) for a in x["a"]]]
        return json.dumps(x, sort_keys=True)

    def same_root(x, y):
        return x["t"] == y["t"] and (x["t"] != "c" or (x["c"] == y["c"] and len(x["a"]) == len(y["a"])))
    x, y = ast, parsed
    while same_root(x, y) and x["t"] == "c":
        nxt = None
        for a, b in zip(x["a"], y["a"]):
            if norm(a) != norm(b):
                nxt = (a, b)
                break
        if nxt is None:
            break
        x, y = nxt
    if x["t"] != "c":
        return jkind(x)
    return "%s(%s)" % (jkind(x), ",".join(jkind(a) for a in x["a"]))


def shape_triggers(t):
    """structural root-cause classes of the printer's known parenthesisation defects"""
    tr = {}

    def walk(x, under_op):
        if x["t"] != "c":
            return
        f = T.txt(x["c"])
        n = len(x["a"])
        if f in UN and n == 1:
            tr["prefix_operator"] = True          # a prefix operator application (\\+, -, \\) anywhere in the term
        if f in (";", "->", ",") and n == 2 and under_op:
            tr["control_operator_nested"] = True  # ; -> , as an operand of an operator, an argument or a list element
        if f in ("^", "**") and n == 2:
            tr["power_operator"] = True           # x^y next to an operator of lower binding strength
        if f in (":-",):
            under = False
        for a in x["a"]:
            walk(a, f != ":-")
    walk(t, False)
    return tr


def inner_ops(t):
    if t["t"] != "c":
        return ""
    return "|".join(sorted({T.txt(a["c"]) for a in t["a"] if a["t"] == "c"}))


def replay(ctx, path):
    with open(path) as f:
        d = json.load(f)
    c = d["case"]
    if "ast" in c:
        o = pl.run_local("print_parse", cases=[{"id": 0, "text": c["text"], "clause": c.get("clause")}])["results"][0]
        print(T.render(c["ast"]), o)
    else:
        print(c["text"])
        print(pl.run_local("run_texts", texts=[{"id": 0, "text": c["text"]}], mode="parse"))
    ctx.evaluations = 1
    ctx.write_evidence("exploration", {"evaluations": 1, "distinct_nontrivial": 0, "rule": "replay", "samples": [str(c)[:300]]})

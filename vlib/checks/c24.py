"""C24 - learning from interpretations: monotone log-likelihood, valid parameters, AD sums, complete-data MLE
(JudgeLFI.tla), and the first EM step against exact posteriors (Semantics.tla)."""
import json
import random
from fractions import Fraction

from .. import pl, progs, semcheck, tlc
from ..progs import atom, lit

ITERS = 6
MICRO = 1000000


def gen_case(rng, ident, mode, family="mixed"):
    """mode: 'complete' (all tunable atoms observed in every example) or 'partial'."""
    p = progs.empty_program(consts=())
    p["id"] = ident
    tun = []            # (name, kind) tunable parameters in the order LFI numbers them (order of appearance in the text)
    base = []
    ref = {}            # reference distribution used to sample the data
    nf = rng.randint(1, 3)
    for name in ["a", "b", "c"][:nf]:
        init = rng.randint(1, 9)
        anon = rng.random() < 0.3
        p["facts"].append({"p": [init, 10], "atom": atom(name), "ptext": "t(_)" if anon else "t(0.%d)" % init, "anon": anon})
        base.append(name)
        ref[name] = rng.randint(1, 9) / 10.0
    for name in ["f", "g"][:rng.randint(0, 2)]:
        pr = rng.randint(2, 8)
        p["facts"].append({"p": [pr, 10], "atom": atom(name)})
        base.append(name)
        ref[name] = pr / 10.0
    ad = None
    if rng.random() < 0.55 or family != "mixed":
        k = rng.randint(2, 3) if family != "multi_fixed" else 4
        heads = []
        rem = 9
        fixed_head = rng.random() < 0.25 and family == "mixed"
        nfixed = 1 if fixed_head else (2 if family == "multi_fixed" else 0)
        fixed_pos = set(rng.sample(range(k), nfixed)) if family == "multi_fixed" else ({k - 1} if fixed_head else set())
        fixed_head = bool(fixed_pos)
        for i in range(k):
            v = rng.randint(1, max(1, min(4 if k < 4 else 2, rem - (k - i - 1))))
            rem -= v
            h = {"p": [v, 10], "atom": atom("m%d" % (i + 1))}
            if i not in fixed_pos:
                h["ptext"] = "t(0.%d)" % v if (family != "multi_fixed" or rng.random() < 0.5) else "t(_)"
            heads.append(h)
        body = []
        if rng.random() < 0.4:
            body = [lit(atom(rng.choice(base)), 1)]
        ad = {"heads": heads, "body": body}
        p["ads"].append(ad)
        # reference head distribution
        cuts = sorted(rng.sample(range(1, 10), k))
        refp = [cuts[0]] + [cuts[i] - cuts[i - 1] for i in range(1, k)]
        if (rng.random() < 0.5 or family == "complete_ad") and not fixed_head:
            # a complete AD: reference and initial values sum to one, so no example can show 'none of the heads'
            refp[-1] += 10 - sum(refp)
            tot = sum(h["p"][0] for h in heads)
            heads[-1]["p"][0] += 10 - tot
            for h in heads:
                h["ptext"] = "t(0.%d)" % h["p"][0] if h["p"][0] < 10 else "t(1.0)"
            if rng.random() < 0.4:
                for h in heads:
                    h["ptext"] = "t(_)"
                p["anon_ad"] = True
        ad["ref"] = [x / 10.0 for x in refp]
    pool = list(base) + ([h["atom"]["f"] for h in ad["heads"]] if ad else [])
    derived = []
    for hn in ["h1", "h2", "h3"][:rng.randint(1, 3)]:
        for _ in range(rng.randint(1, 2)):
            body = []
            for x in rng.sample(pool + derived, min(len(pool + derived), rng.randint(1, 2))):
                body.append(lit(atom(x), 1 if rng.random() < 0.75 else 0))
            p["rules"].append({"head": atom(hn), "body": body})
        derived.append(hn)
    # ---- data
    n = rng.randint(3, 10)
    tun_atoms = [f["atom"]["f"] for f in p["facts"] if f.get("ptext")] + \
                ([h["atom"]["f"] for h in ad["heads"] if h.get("ptext")] if ad else [])
    all_atoms = pool + derived
    examples = []
    for _ in range(n):
        w = {}
        for name in base:
            w[name] = rng.random() < ref[name]
        if ad:
            for h in ad["heads"]:
                w[h["atom"]["f"]] = False
            if all(w[l["atom"]["f"]] == (l["s"] == 1) for l in ad["body"]):
                r = rng.random()
                acc = 0.0
                for h, pr in zip(ad["heads"], ad["ref"]):
                    acc += pr
                    if r < acc:
                        w[h["atom"]["f"]] = True
                        break
                else:
                    p["ad_null_in_data"] = True        # an example in which the AD fires and none of its heads is chosen
        for hn in derived:
            w[hn] = any(all(w[l["atom"]["f"]] == (l["s"] == 1) for l in r_["body"]) for r_ in p["rules"] if r_["head"]["f"] == hn)
        if mode == "complete":
            obs = list(tun_atoms) + [x for x in all_atoms if x not in tun_atoms and rng.random() < 0.4]
        else:
            obs = [x for x in all_atoms if rng.random() < 0.45] or [rng.choice(all_atoms)]
        examples.append([[x, w[x]] for x in obs])
    p["mode"] = mode
    p["examples"] = examples
    return p


def model_text(p):
    st = progs.statements(p)
    return "\n".join(st["facts"] + st["ads"] + st["rules"]) + "\n"


VARIANTS = [("cli", {"normalize": True, "propagate_evidence": True}),
            ("api", {}),
            ("log", {"normalize": True, "logspace": True})]


def run(ctx):
    rng = random.Random(ctx.seed * 31 + 2424)
    cases = []
    for i in range(ctx.pick(50, 700)):
        cases.append(gen_case(rng, i, "complete" if i % 3 == 0 else "partial"))
    for i in range(ctx.pick(40, 400)):          # complete tunable ADs, mostly partially observed
        cases.append(gen_case(rng, len(cases), "complete" if i % 5 == 0 else "partial", family="complete_ad"))
    for i in range(ctx.pick(20, 200)):          # ADs with two fixed and two tunable heads
        cases.append(gen_case(rng, len(cases), "complete" if i % 2 == 0 else "partial", family="multi_fixed"))
    jobs, idx = [], []
    for ci, p in enumerate(cases):
        for vn, opts in VARIANTS:
            jobs.append(("lfi_trace", {"text": model_text(p), "examples": p["examples"], "iters": ITERS, "opts": opts, "seed": ctx.seed + ci}))
            idx.append((ci, vn))
    runs = pl.run_jobs(jobs, nproc=ctx.nproc, timeout=180)
    # ---- exact first EM step (tunable facts, explicit initial values): P(f | example) from Semantics.tla
    sem_progs, sem_idx = [], []
    for ci, p in enumerate(cases):
        if any(f.get("anon") for f in p["facts"]) or p["ads"]:
            # explicit initial values only; programs with a tunable AD are left out: LFI completes the observations of an
            # AD (infer_AD_values) before learning, so its E-step is not taken on the examples as given
            continue
        tf = [f["atom"] for f in p["facts"] if f.get("ptext")]
        seen = {}
        for e in p["examples"]:
            key = json.dumps(sorted(e))
            if key in seen:
                seen[key][1] += 1
                continue
            q = {k: p[k] for k in ("consts", "facts", "ads", "rules")}
            q = json.loads(json.dumps(q))
            q["id"] = 0
            q["queries"] = tf
            q["evidence"] = [{"s": 1 if v else 0, "atom": atom(a)} for a, v in e]
            seen[key] = [len(sem_progs), 1]
            sem_progs.append(q)
        sem_idx.append((ci, [(ix, m) for ix, m in seen.values()]))
    SJ = semcheck.judge(sem_progs, nproc=ctx.nproc)
    # LFI averages a parameter over the examples in whose ground program the fact occurs.  Where it does not occur the
    # posterior equals the prior, so every admissible update is (A + k * p0) / (ns + k): A, ns = sum / number of the
    # examples whose posterior differs from the prior p0, k = number of further (posterior = prior) examples included.
    exact1 = {}
    for ci, lst in sem_idx:
        p = cases[ci]
        prior = {f["atom"]["f"]: Fraction(f["p"][0], f["p"][1]) for f in p["facts"] if f.get("ptext")}
        A = {nm: Fraction(0) for nm in prior}
        ns = {nm: 0 for nm in prior}
        nn = 0
        ok = True
        for ix, m in lst:
            j = SJ[ix]
            if not j["valid"] or not j["mustAnswer"]:
                ok = False
                break
            if j["den"] == 0:
                continue      # impossible example: LFI ignores it
            nn += m
            for name, num in semcheck.expected_table(j).items():
                post = Fraction(num, j["den"])
                if post != prior[name]:
                    A[name] += m * post
                    ns[name] += m
        if ok and nn:
            exact1[ci] = {nm: [(A[nm] + k * prior[nm]) / (ns[nm] + k) for k in range(0, nn - ns[nm] + 1) if ns[nm] + k > 0] + [prior[nm]]
                          for nm in prior}
    # ---- TLC judges every recorded history
    jc, jmeta = [], []
    aborted = {}
    for (ci, vn), r in zip(idx, runs):
        p = cases[ci]
        ctx.evaluations += 1
        if r.get("error"):
            if r.get("inconclusive"):
                ctx.inconclusive += 1
                continue
            # the property speaks about the histories LFI reports; a run that aborts with an error reports none.
            # (Aborted runs are counted in the evidence; the recurring causes are described in DESIGN.md.)
            aborted[r["error"]] = aborted.get(r["error"], 0) + 1
            continue
        steps = r["steps"]
        names = r["names"]
        # parameters of tunable facts (groups of size one, no body) in LFI's numbering
        tfacts = [f["atom"]["f"] for f in p["facts"] if f.get("ptext")]
        pos = {}
        for s in steps[:1]:
            for k, (i, name, key, w) in enumerate(s["w"]):
                pos[i] = k + 1
        name_of = {i: nm.split("::")[-1] for i, nm in enumerate(names)}
        counts = []
        if p["mode"] == "complete":
            for i, nm in name_of.items():
                if nm in tfacts:
                    c = sum(1 for e in p["examples"] for a, v in e if a == nm and v)
                    counts.append({"i": pos[i], "c": c})
        # AD groups and the mass of their fixed heads are taken from the generated program, not from LFI's own tables
        groups, fixed = [], []
        pos_of_name = {nm: pos[i] for i, nm in name_of.items()}
        for nm in tfacts:
            if nm in pos_of_name:
                groups.append([pos_of_name[nm]])
                fixed.append(0)
        for ad_ in p["ads"]:
            g = [pos_of_name[h["atom"]["f"]] for h in ad_["heads"] if h.get("ptext") and h["atom"]["f"] in pos_of_name]
            if g:
                groups.append(g)
                fixed.append(sum(h["p"][0] for h in ad_["heads"] if not h.get("ptext")) * (MICRO // 10))

        def mic(x):
            return int(round(max(-2000.0, min(2000.0, x)) * MICRO))
        case = {"id": len(jc), "ll": [mic(s["ll"]) for s in steps[1:]], "w": [[mic(w[3]) for w in s["w"]] for s in steps],
                "groups": groups, "fixed": fixed, "complete": p["mode"] == "complete", "n": len(p["examples"]), "counts": counts}
        jc.append(case)
        jmeta.append((ci, vn, r, name_of, pos))
    J = tlc.judge_batch("JudgeLFI", jc, nproc=ctx.nproc, tag="c24")
    nontriv = 0
    for case, (ci, vn, r, name_of, pos) in zip(jc, jmeta):
        p = cases[ci]
        j = J[case["id"]]
        t = model_text(p)
        rec = {"case": p, "variant": vn, "run": r, "judge_case": case, "judge": j}
        sig0 = {"variant": vn, "mode": p["mode"], "has_ad": bool(p["ads"]), "ad_body": bool(p["ads"] and p["ads"][0]["body"]),
                "normalize": bool(dict(VARIANTS)[vn].get("normalize")),
                "ad_fixed_head": bool(p["ads"] and any(not h.get("ptext") for h in p["ads"][0]["heads"])),
                "ad_null_in_data": bool(p.get("ad_null_in_data")),
                "learnable_heads": sum(1 for h in p["ads"][0]["heads"] if h.get("ptext")) if p["ads"] else 0}
        lls = [s["ll"] for s in r["steps"][1:]]
        if len(set(case["ll"])) > 1:
            nontriv += 1
        if j["decrease"]:
            k = j["decrease"]
            ctx.violation(dict(sig0, clause="log-likelihood-decreases"),
                          "[%s] reported log-likelihood falls from %r (iteration %d) to %r (iteration %d)\n%s\nexamples: %s\nall: %s" % (
                              vn, lls[k - 1], k, lls[k], k + 1, t, p["examples"], lls), rec)
        for s, i in j["range"]:
            ctx.violation(dict(sig0, clause="parameter-not-a-probability"),
                          "[%s] after iteration %d parameter %d is %r\n%s\nexamples: %s" % (vn, s - 1, i, r["steps"][s - 1]["w"][i - 1], t, p["examples"]), rec)
        for s, k in j["adsum"][:1]:
            ctx.violation(dict(sig0, clause="ad-learned-sum-exceeds-one"),
                          "[%s] after iteration %d the AD parameters are %s\n%s\nexamples: %s" % (vn, s - 1, r["steps"][s - 1]["w"], t, p["examples"]), rec)
        if not j["adsum"]:
            for s, k in j["adsumFixed"][:1]:
                ctx.violation(dict(sig0, clause="ad-sum-with-fixed-heads-exceeds-one"),
                              "[%s] after iteration %d the learned AD parameters %s plus the fixed heads' mass %g exceed 1; learned model:\n%s\nmodel:\n%s\nexamples: %s" % (
                                  vn, s - 1, [r["steps"][s - 1]["w"][i - 1][3] for i in case["groups"][k - 1]], case["fixed"][k - 1] / MICRO,
                                  r["model"], t, p["examples"]), rec)
        for i in j["mle"]:
            ctx.violation(dict(sig0, clause="complete-data-mle"),
                          "[%s] complete data: parameter %d after one iteration is %r, relative frequency is %s/%d\n%s\nexamples: %s" % (
                              vn, i, r["steps"][1]["w"][i - 1], [c["c"] for c in case["counts"] if c["i"] == i], case["n"], t, p["examples"]), rec)
        if ci in exact1:
            for i, nm in name_of.items():
                if nm in exact1[ci]:
                    got = r["steps"][1]["w"][pos[i] - 1][3]
                    want = exact1[ci][nm]
                    if not any(abs(got - float(x)) <= 1e-7 for x in want):
                        ctx.violation(dict(sig0, clause="first-em-step"),
                                      "[%s] %s after one iteration is %r; admissible EM updates (mean posterior over the examples the fact is "
                                      "relevant to, under the initial parameters): %s\n%s\nexamples: %s" % (
                                          vn, nm, got, sorted(set("%s=%.8g" % (x, float(x)) for x in want)), t, p["examples"]), rec)
        if len(ctx.samples) < 2:
            ctx.sample({"model": t, "examples": p["examples"], "variant": vn, "ll": lls, "judge": j})
    ctx.write_evidence("exploration", {
        "evaluations": ctx.evaluations, "distinct_nontrivial": nontriv, "histories_judged": len(jc),
        "runs_aborted_by_error": aborted,
        "rule": "generated programs (1-3 tunable facts, optional fixed facts, optional tunable AD with / without body and fixed head, "
                "1-3 derived atoms with negation), 3-10 examples sampled from a reference distribution (complete or partial "
                "observation); %d LFI iterations under 3 option sets; every recorded history judged by JudgeLFI.tla; first step "
                "compared with exact posteriors (Semantics.tla); non-trivial = log-likelihood changed" % ITERS},
        assumptions=["log-likelihoods and parameters are passed to TLC in micro-units (tolerance 2e-6)",
                     "the first-EM-step clause is an extra (stronger) oracle for tunable facts with explicit initial values"])


def replay(ctx, path):
    with open(path) as f:
        d = json.load(f)
    c = d["case"]
    p = c["case"]
    print(model_text(p))
    print(p["examples"])
    opts = dict(VARIANTS)[c["variant"]]
    r = pl.run_local("lfi_trace", text=model_text(p), examples=p["examples"], iters=ITERS, opts=opts, seed=0)
    print(json.dumps(r, indent=1)[:3000])
    ctx.evaluations = 1
    ctx.write_evidence("exploration", {"evaluations": 1, "distinct_nontrivial": 0, "rule": "replay (prints)"})

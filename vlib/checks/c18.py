"""C18 - term equality is an equivalence consistent with hashing and with unification's notion of identity."""
import itertools
import json
import random

from .. import pl, tlc


def specs():
    S = []
    atoms = ["a", "b", "'a'", "'A b'", "1", "1.0", "X", "[]", "\"s\""]
    for a in atoms:
        S.append(["Term", a])
    for v in (1, 2, -1, 1.0, 2.5, "1", "1.0", "a", "\"s\"", "'a'"):
        S.append(["Constant", v])
    for v in ("X", "Y", "_"):
        S.append(["Var", v])
    for t in ("a", "'a'", "1", "1.0", "-1", "\"s\"", "f(a)", "f(a,1)", "f(X)", "[a,b]", "[]", "\\+a", "not a", "f(\\+a)",
              "g(f(a),[1,2])", "'A b'", "f('a')", "a:b", "X"):
        S.append(["parse", t])
    S.append(["Term", "f", [["Term", "a"]]])
    S.append(["Term", "f", [["Term", "a"], ["Constant", 1]]])
    S.append(["Term", "f", [["Term", "a"], ["Term", "1"]]])
    S.append(["Term", "f", [["Var", "X"]]])
    S.append(["Term", "f", [["Term", "'a'"]]])
    S.append(["Not", "\\+", ["Term", "a"]])
    S.append(["Not", "not", ["Term", "a"]])
    S.append(["neg", ["Term", "a"]])
    S.append(["Term", "\\+", [["Term", "a"]]])
    S.append(["list", [["Term", "a"], ["Term", "b"]]])
    S.append(["list", []])
    S.append(["Term", "g", [["Term", "f", [["Term", "a"]]], ["list", [["Constant", 1], ["Constant", 2]]]]])
    # numbers of different type but equal value, nested (Python's 1 == 1.0 must not leak into term identity)
    for v in (1, 1.0, 2, 2.0, 0, 0.0, -1, -1.0):
        S.append(["Term", "f", [["Constant", v]]])
    S.append(["list", [["Constant", 1], ["Constant", 2.0]]])
    S.append(["list", [["Constant", 1.0], ["Constant", 2]]])
    S.append(["list", [["Constant", 1], ["Constant", 2]]])
    for t in ("f(1.0)", "f(1)", "[1,2.0]", "[1.0,2]", "g(f(1),[1.0])", "g(f(1.0),[1])", "p(0)", "p(0.0)", "p(-0.0)"):
        S.append(["parse", t])
    # the two spellings of negation, nested (their hashes differ although they compare equal at top level)
    S.append(["Term", "h", [["Not", "\\+", ["Term", "x"]]]])
    S.append(["Term", "h", [["Not", "not", ["Term", "x"]]]])
    S.append(["Not", "\\+", ["Term", "f", [["Term", "a"]]]])
    S.append(["Not", "not", ["Term", "f", [["Term", "a"]]]])
    S.append(["list", [["Not", "\\+", ["Term", "a"]], ["Term", "b"]]])
    S.append(["list", [["Not", "not", ["Term", "a"]], ["Term", "b"]]])
    # the same term built from the generic class and from the specialised classes (And, Or, Not, Clause, Constant, Var), NESTED
    # below a functor / in a list (at top level Python tries the reflected comparison as well, below it does not)
    ab = [["Term", "a"], ["Term", "b"]]
    for gen, txt in ((["Term", ",", ab], "(a,b)"), (["Term", ";", ab], "(a;b)"), (["Term", "\\+", [["Term", "a"]]], "\\+a"),
                     (["Term", ":-", ab], "(a:-b)")):
        S.append(["Term", "f", [gen]])
        S.append(["parse", "f(%s)" % txt])
        S.append(["list", [gen]])
        S.append(["parse", "[%s]" % txt])
    S.append(["Term", "f", [["Not", "\\+", ["Term", "a"]]]])
    S.append(["Term", "f", [["Term", "a"]]])
    S.append(["Term", "f", [["Constant", "a"]]])
    S.append(["Term", "f", [["Term", "X"]]])
    S.append(["list", [["Term", "X"]]])
    S.append(["list", [["Var", "X"]]])
    S.append(["list", [["Constant", "a"]]])
    S.append(["list", [["Term", "a"]]])
    # operator terms: the parser keeps operator information (they print infix), the constructors do not (they print in functional
    # notation) - the same term with two printed forms
    for op, txt in (("'+'", "a+b"), ("'-'", "a-b"), ("'='", "a=b"), ("'*'", "a*b")):
        S.append(["parse", "f(%s)" % txt])
        S.append(["Term", "f", [["Term", op, ab]]])
        S.append(["parse", "f(%s(a,b))" % op])
    S.append(["parse", "[a+b,c]"])
    S.append(["list", [["Term", "'+'", ab], ["Term", "c"]]])
    # floats that differ only beyond the precision ProbLog keeps (Constant rounds to 15 decimals): constructor, parser, nested
    for v in (0.1 + 0.2, 0.3, 1.1 * 3, 3.3, 4.35 * 100, 435.0, 1e-17, 0.0):
        S.append(["Constant", v])
        S.append(["Term", "f", [["Constant", v]]])
    for t in ("0.3", "0.30000000000000004", "f(0.3)", "f(0.30000000000000004)", "3.3", "3.3000000000000003", "[0.3]", "[0.30000000000000004]"):
        S.append(["parse", t])
    return S


def kind(spec):
    k = spec[0]
    if k == "Constant":
        return "Constant(%s)" % type(spec[1]).__name__
    if k == "Term":
        return "Term/%d" % (len(spec[2]) if len(spec) > 2 else 0)
    if k == "parse":
        return "parsed"
    return k


def cause(reprs, erased=None):
    """root-cause tag of a disagreement, derived from the printed forms of the objects involved"""
    import re
    rs = set(reprs)
    if erased and len(set(erased)) == 1 and len(rs) > 1 and not any("'" in r for r in rs) and not any("not" in r for r in rs):
        return "same-term-different-classes"        # e.g. f(Term(',',a,b)) / f(And(a,b)): same functors and arguments
    if len(rs) == 1:
        return "same-text-different-class"          # e.g. Constant(1) / Term('1') / Constant('1')
    q = {r.replace("'", "") for r in rs}
    if len(q) == 1:
        return "quoted-vs-unquoted-atom"
    n = {re.sub(r"\\\+\((.*)\)$", r"\\+\1", r.replace("'", "").replace("not ", "\\+")) for r in rs}
    if len(n) == 1:
        return "negation-spelling"
    n = {r.replace("'", "").replace("not(", "\\+(").replace("not ", "\\+") for r in rs}
    if len(n) == 1:
        return "negation-spelling"
    if len({r.replace("-0.0", "0.0") for r in rs}) == 1:
        return "negative-zero"
    return "other"


def run(ctx):
    rng = random.Random(ctx.seed + 1818)
    S = specs()
    groups = []
    for (a, b) in itertools.combinations_with_replacement(range(len(S)), 2):
        groups.append([a, b])
    trip = list(itertools.combinations(range(len(S)), 3))
    rng.shuffle(trip)
    groups += [list(t) for t in trip[:ctx.pick(4000, 40000)]]
    cases = [{"id": i, "specs": [S[k] for k in g]} for i, g in enumerate(groups)]
    chunk = 400
    res = pl.run_jobs([("eq_matrix", {"groups": cases[i:i + chunk]}) for i in range(0, len(cases), chunk)],
                      nproc=ctx.nproc, timeout=300, chunksize=1)
    send = []
    info = {}
    for r in res:
        if r.get("error"):
            raise tlc.MachineryError("eq_matrix failed: %s" % r)
        for o in r["results"]:
            info[o["id"]] = o
            send.append({"id": o["id"], "kind": "eq", "eq": o["eq"], "eq0": o["eq0"], "eq2": o["eq2"], "hash": o["hash"], "unif": o["unif"], "ground": o["ground"]})
    J = tlc.judge_batch("JudgeTerms", send, nproc=ctx.nproc, tag="c18")
    seen_sig = set()
    for c in send:
        ctx.evaluations += 1
        j = J[c["id"]]
        if not j["ok"]:
            g = groups[c["id"]]
            if len(g) == 3 and j["why"] != "eq-not-transitive":
                continue          # pair-level clauses are reported on the pair cases
            kinds = "|".join(sorted(kind(S[k]) for k in g))
            o = info[c["id"]]
            sig = {"clause": j["why"], "kinds": kinds, "cause": cause(o["repr"], o.get("erased"))}
            key = (j["why"], kinds)
            detail = "%s among %s (eq=%s hash classes=%s unif=%s)" % (j["why"], o["repr"], o["eq"], o["hash"], o["unif"])
            if key in seen_sig and len(seen_sig) > 60:
                continue
            seen_sig.add(key)
            ctx.violation(sig, detail, {"specs": [S[k] for k in g]})
    ctx.sample({"objects": [S[k] for k in groups[5]], "recorded": info[5]})
    ctx.write_evidence("exploration", {
        "evaluations": ctx.evaluations, "distinct_nontrivial": len(groups),
        "rule": "all pairs and sampled triples of %d objects built with Term / Constant(int|float|str) / Var / Not / "
                "list2term / Term.from_string (atoms vs quoted atoms, 1 vs '1' vs 1.0, \\+ vs not, nested compounds); "
                "every group is distinct and non-trivial (>= 2 objects)" % len(S),
        "objects": len(S),
    }, assumptions=["'identical for unification' is taken from problog.engine_unify.unify_value on the same objects"])


def replay(ctx, path):
    with open(path) as f:
        d = json.load(f)
    sp = d["case"]["specs"]
    o = pl.run_local("eq_matrix", groups=[{"id": 0, "specs": sp}])["results"][0]
    print(o)
    j = tlc.judge_batch("JudgeTerms", [{"id": 0, "kind": "eq", "eq": o["eq"], "eq0": o["eq0"], "eq2": o["eq2"], "hash": o["hash"], "unif": o["unif"],
                                        "ground": o["ground"]}], nproc=1)[0]
    print(j)
    ctx.evaluations = 1
    if not j["ok"]:
        ctx.violation({"clause": j["why"], "kinds": "|".join(sorted(kind(s) for s in sp)), "cause": cause(o["repr"], o.get("erased"))},
                      j["why"], d["case"])
    ctx.write_evidence("exploration", {"evaluations": 1, "distinct_nontrivial": 0, "rule": "replay", "samples": [d["case"]]})

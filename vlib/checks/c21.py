"""C21 - DT-ProbLog returns optimal strategies (exhaustive) / local optima (local search).

(1) LocalSearch.tla: search_local transcribed; TLC explores every score table over N decisions and every start: terminates,
    result has no improving flip.  (2) the real search_local is replayed on scripted score tables and must end where the
    specification's transcription ends (drift) in a local optimum (verdict).  (3) generated decision-theoretic programs:
    exact expected utilities of every strategy from JudgeDT.tla (Semantics.tla); the exhaustive search must return a
    maximiser with its EU as score, the local search a strategy that no single flip improves."""
import itertools
import json
import random

from .. import pl, progs, tlc
from ..core import close
from ..progs import atom, lit
from ..tlc import MachineryError


def model_check(ctx, cov):
    cfg = "LocalSearch_small.cfg" if ctx.quick else "LocalSearch.cfg"
    rc, out, st = tlc.run_tlc("LocalSearch", cfg=cfg, workers=ctx.nproc, timeout=1800, extra=["-coverage", "1"])
    if "No error has been found" not in out:
        raise MachineryError("LocalSearch.tla: property violated in the model:\n" + out[-2000:])
    cov["states"] = st["distinct"]
    cov["transitions"] = st["generated"]
    cov["model_config"] = cfg


def gen(n, seed):
    rng = random.Random(seed * 3001 + 9)
    out, seen, tries = [], set(), 0
    while len(out) < n and tries < 50 * n + 100:
        tries += 1
        p = progs.empty_program(["c1"])
        facts = ["f", "g", "h"][:rng.randint(1, 3)]
        for f in facts:
            p["facts"].append({"p": [rng.randint(1, 9), 10], "atom": atom(f)})
        k = rng.randint(1, 3)
        decs = ["d1", "d2", "d3"][:k]
        der = ["a", "b", "c"][:rng.randint(1, 3)]
        for d in der:
            for _ in range(rng.randint(1, 2)):
                b = []
                for _ in range(rng.randint(1, 3)):
                    x = rng.choice(facts + decs + der[:der.index(d)])
                    neg = (x in facts or x in decs) and rng.random() < 0.25
                    b.append(lit(atom(x), 0 if neg else 1))
                p["rules"].append({"head": atom(d), "body": b})
        p["decisions"] = [atom(d) for d in decs]
        uts = []
        for x in rng.sample(der + decs, rng.randint(1, min(4, len(der + decs)))):
            uts.append({"atom": atom(x), "s": 1 if rng.random() < 0.8 else 0, "u": rng.choice([-5, -3, -2, -1, 1, 2, 3, 5, 8])})
        p["utilities"] = uts
        c = json.dumps(p, sort_keys=True)
        if c in seen:
            continue
        seen.add(c)
        out.append(p)
    return out


def render_dt(p):
    q = {k: p[k] for k in ("consts", "facts", "ads", "rules", "queries", "evidence")}
    t = progs.render(q)
    t += "".join("?::%s.\n" % progs.r_atom(d) for d in p["decisions"])
    for u in p["utilities"]:
        a = progs.r_atom(u["atom"])
        t += "utility(%s, %d).\n" % (a if u["s"] == 1 else "\\+" + a, u["u"])
    return t


def run(ctx):
    cov = {}
    model_check(ctx, cov)
    rng = random.Random(ctx.seed + 2121)
    # ---- (2) replay of the real local search on scripted score tables
    tables = []
    for n in (1, 2, 3):
        strategies = list(itertools.product([0, 1], repeat=n))
        cnt = {1: 9, 2: ctx.pick(150, 256), 3: ctx.pick(600, 6000)}[n]
        seen = set()
        while len(seen) < cnt:
            vals = tuple(rng.randint(0, 3) for _ in strategies)
            if vals in seen:
                continue
            seen.add(vals)
            tables.append({"id": len(tables), "kind": "ls", "n": n, "table": [{"c": list(s), "v": v} for s, v in zip(strategies, vals)]})
    res = pl.run_jobs([("local_search_replay", {"tables": tables[i:i + 100]}) for i in range(0, len(tables), 100)],
                      nproc=ctx.nproc, timeout=45, chunksize=1)      # the property asserts termination of the local search
    cases = []
    for r in res:
        if r.get("error"):
            ctx.violation({"clause": "crash", "error": r["error"], "site": r.get("site", "")}, "search_local raised %s: %s" % (r["error"], r.get("msg")), {"tables": "see check"})
            continue
        for o in r["results"]:
            t = dict(tables[o["id"]])
            t.update({"res": o["res"], "best": o["best"], "evals": o["evals"]})
            cases.append(t)
    J = tlc.judge_batch("JudgeDT", cases, nproc=ctx.nproc, tag="c21ls")
    drift = 0
    for c in cases:
        ctx.evaluations += 1
        j = J[c["id"]]
        if not j["localOptimum"] or not j["scoreOk"]:
            ctx.violation({"clause": "local-search-not-a-local-optimum" if not j["localOptimum"] else "local-search-score"},
                          "score table %s: search_local returned %s (score %s)" % (c["table"], c["res"], c["best"]), {"table": c})
        if not j["sameAsSpec"]:
            drift += 1
    cov["traces_validated_against_impl"] = len(cases)
    cov["local_search_drift"] = drift
    # ---- (3) programs
    P = gen(ctx.pick(120, 1500), ctx.seed)
    pcases = [{"id": i, "kind": "eu", "prog": p} for i, p in enumerate(P)]
    JE = tlc.judge_batch("JudgeDT", pcases, nproc=ctx.nproc, tag="c21eu")
    jobs = []
    for p in P:
        t = render_dt(p)
        jobs.append(("dt", {"text": t, "search": "exhaustive"}))
        jobs.append(("dt", {"text": t, "search": "local"}))
    runs = pl.run_jobs(jobs, nproc=ctx.nproc, timeout=120)
    nontriv = 0
    for i, p in enumerate(P):
        j = JE[i]
        eus = {tuple(e["bits"]): e["eu"] for e in j["eus"]}
        best = max(eus.values())
        if len(set(eus.values())) > 1:
            nontriv += 1
        names = [progs.r_atom(d) for d in p["decisions"]]
        for k, search in enumerate(("exhaustive", "local")):
            r = runs[2 * i + k]
            ctx.evaluations += 1
            text = render_dt(p)
            case = {"program": p, "text": text, "search": search}
            sig0 = {"search": search}
            if r.get("error"):
                if r.get("inconclusive"):
                    ctx.inconclusive += 1
                    continue
                ctx.violation(dict(sig0, clause="crash" if not r.get("problog_error") else "wrong-error", error=r["error"],
                                   site=r.get("site", "")), "%s: %s\n%s" % (r["error"], r.get("msg"), text), case)
                continue
            # decisions that were not grounded are irrelevant: try both values and take the implementation's side
            bits_known = {n: r["choices"][n] for n in names if n in r["choices"]}
            cands = [b for b in eus if all(b[names.index(n)] == v for n, v in bits_known.items())]
            eu_impl = max(eus[b] for b in cands)
            b_impl = [b for b in cands if eus[b] == eu_impl][0]
            detail = "%s search returned %s score %r; exact EU of that strategy %d/%d, optimum %d/%d\n%s" % (
                search, r["choices"], r["score"], eu_impl, j["total"], best, j["total"], text)
            if not close(r["score"], eu_impl, j["total"], 1e-8):
                ctx.violation(dict(sig0, clause="reported-score", no_decision_grounded=not r["choices"]), detail, case)
            if search == "exhaustive":
                if eu_impl != best and not close(eu_impl / j["total"], best, j["total"], 1e-9):
                    ctx.violation(dict(sig0, clause="not-optimal"), detail, case)
            else:
                for d in range(len(names)):
                    if names[d] not in bits_known:
                        continue
                    fl = list(b_impl)
                    fl[d] = 1 - fl[d]
                    if eus[tuple(fl)] > eu_impl and not close(eus[tuple(fl)] / j["total"], eu_impl, j["total"], 1e-9):
                        ctx.violation(dict(sig0, clause="improving-flip-exists"), detail + "\nflipping %s gives %d/%d" % (
                            names[d], eus[tuple(fl)], j["total"]), case)
                        break
            if len(ctx.samples) < 2:
                ctx.sample({"text": text, "search": search, "impl": r, "exact_eu": {str(k2): v for k2, v in eus.items()}, "den": j["total"]})
    cov.update({"evaluations": ctx.evaluations, "distinct_nontrivial": nontriv,
                "rule": "propositional decision-theoretic programs: 1-3 probabilistic facts, 1-3 decisions (?::d), rules with negation, "
                        "integer utilities on atoms and negated atoms, costs on decisions; both searches; plus scripted score tables "
                        "for the local search (all tables over 1 decision, sampled over 2-3); non-trivial = strategies with different EU",
                "samples": ctx.samples or [{"table": tables[0]}]})
    ctx.write_evidence("model_checking", cov, assumptions=[
        "MAP (tasks/map.py) is not decided: its objective is not documented beyond the source",
        "LocalSearch.tla bounds: N = 2 decisions, scores 0..3 (quick) / N = 3, scores 0..2 (thorough), all score tables, all starts"])


def replay(ctx, path):
    with open(path) as f:
        d = json.load(f)
    c = d["case"]
    if "text" in c:
        print(c["text"])
        print(pl.run_local("dt", text=c["text"], search=c["search"]))
    else:
        print(c)
    ctx.evaluations = 1
    ctx.write_evidence("model_checking", {"evaluations": 1, "distinct_nontrivial": 2, "samples": [c.get("text", "table")]})

"""C11 - the ground-program builder preserves Boolean meaning.

(1) Layer B: spec/FormulaBuilder.tla (state machine transcribed from LogicFormula) is model-checked by TLC for five option
    vectors: MeaningPreserved (C11 on the design) holds in every state of every call history within the bound.
(2) spec -> code: EVERY history TLC explored is exported and replayed on the real LogicFormula; returned keys and node
    tables must be the model's.  Where they are, TLC's exhaustive verdict transfers to the code for that history; where
    they are not (drift), the recorded real history is judged by Layer A (JudgeBuilder.tla), which alone can say VIOLATION.
(3) code -> spec: the random / scenario histories below are also validated step by step against the model
    (JudgeBuilderTrace.tla); mismatches are reported as drift.

Histories of add_atom / add_and / add_or (readonly, mutable) / add_disjunct / negate / add_name are executed on a real
LogicFormula under option vectors; after every call the real node table and returned key are recorded and TLC
(spec/JudgeBuilder.tla over spec/AOG.tla) compares, for every assignment of the atoms, the well-founded value of every
key returned so far with the value its call has in the ideal (no folding, no sharing) graph."""
import json
import random

from .. import mc, pl, tlc
from ..tlc import MachineryError

OPTS = [
    {}, {"keep_order": True}, {"keep_duplicates": True}, {"avoid_name_clash": True}, {"keep_all": True},
    {"max_arity": 2}, {"auto_compact": False}, {"keep_order": True, "avoid_name_clash": True},
    {"keep_duplicates": True, "max_arity": 2}, {"keep_all": True, "avoid_name_clash": True, "keep_order": True},
]


def neg_dep(calls, src, dst):
    """does call `src` reach call `dst` along a dependency path that uses at least one negated reference?
    (the engine raises NegativeCycle for any cycle through a negation, even or odd: FormulaBuilder!NegDep)"""
    edges = {}
    for i, c in enumerate(calls, start=1):
        tgt = i
        if c["op"] == "disjunct":
            tgt = c["target"]
        for r in c.get("refs", []):
            if r["k"] == "c":
                edges.setdefault(tgt, set()).add((r["i"], r["s"]))
    seen = set()
    todo = [(src, 0)]
    while todo:
        n, used = todo.pop()
        if (n, used) in seen:
            continue
        seen.add((n, used))
        for (j, s) in edges.get(n, ()):
            todo.append((j, 1 if s == 0 else used))
    return (dst, 1) in seen


def gen_history(rng, maxlen):
    atoms = ["x", "y", "z"]
    calls = []
    mut = []      # call indices of mutable ors
    n = rng.randint(3, maxlen)

    def ref():
        r = rng.random()
        if calls and r < 0.86:
            cands = [i for i, c in enumerate(calls, start=1) if c["op"] in ("atom", "and", "or", "not")]
            if cands:
                return {"k": "c", "i": rng.choice(cands), "s": 0 if rng.random() < 0.3 else 1}
        return {"k": "T"} if rng.random() < 0.5 else {"k": "F"}

    for _ in range(n):
        r = rng.random()
        prev = [c for c in calls if c["op"] in ("and", "or")]
        if prev and rng.random() < 0.15:
            # repeat an earlier compound call with the same arguments (exercises node sharing / reuse)
            c = dict(rng.choice(prev))
            c["refs"] = [dict(x) for x in c["refs"]]
            if c["op"] == "or" and rng.random() < 0.5:
                c["mutable"] = 1 if rng.random() < 0.6 else 0
            c["name"] = rng.choice(["", c.get("name", ""), "n5"])
            calls.append(c)
            if c["op"] == "or" and c.get("mutable"):
                mut.append(len(calls))
            continue
        if r < 0.3 or not calls:
            det = 0 if rng.random() < 0.85 else rng.choice([1, 2])
            calls.append({"op": "atom", "id": rng.choice(atoms) if det == 0 else ("t1" if det == 1 else "f1"), "det": det,
                          "refs": [], "target": 0, "named": 1 if rng.random() < 0.3 else 0})
        elif r < 0.5:
            calls.append({"op": "and", "refs": [ref() for _ in range(rng.randint(1, 3))], "id": "", "det": 0, "target": 0,
                          "name": rng.choice(["", "", "n1", "n2"])})
        elif r < 0.7:
            m = 1 if rng.random() < 0.5 else 0
            calls.append({"op": "or", "refs": [ref() for _ in range(rng.randint(1, 3))], "mutable": m, "id": "",
                          "det": 0, "target": 0, "name": rng.choice(["", "", "n1", "n3"])})
            if m:
                mut.append(len(calls))
        elif r < 0.76:
            x = ref()
            if x["k"] == "c":
                x = {"k": "c", "i": x["i"], "s": 1 - x["s"]}
            calls.append({"op": "not", "refs": [x], "id": "", "det": 0, "target": 0})
        elif r < 0.96 and mut:
            t = rng.choice(mut)
            x = ref()
            trial = calls + [{"op": "disjunct", "target": t, "refs": [x], "id": "", "det": 0}]
            if x["k"] == "c" and (neg_dep(trial, t, t)):
                continue      # would create a cycle through negation: outside the builder's contract
            calls.append(trial[-1])
        else:
            x = ref()
            calls.append({"op": "name", "refs": [x], "name": rng.choice(["n1", "n4"]), "label": rng.choice(["query", "named"]),
                          "id": "", "det": 0, "target": 0})
    return calls


def gen_scenario(rng):
    """Structured histories around node sharing: a mutable disjunction and a readonly node with the same children,
    created in either order, before / after add_disjunct calls; complementary pairs and TRUE under max_arity."""
    calls = []

    def add(c):
        c.setdefault("refs", []); c.setdefault("id", ""); c.setdefault("det", 0); c.setdefault("target", 0)
        calls.append(c)
        return len(calls)
    atoms = [add({"op": "atom", "id": a, "named": 0}) for a in ("x", "y", "z")]
    extra = add({"op": "and", "refs": [{"k": "c", "i": atoms[0], "s": 1}, {"k": "c", "i": atoms[1], "s": 0}], "name": ""})

    def ref(i, s=1):
        return {"k": "c", "i": i, "s": s}

    def rnd_ref():
        r = rng.random()
        if r < 0.08:
            return {"k": "T"}
        if r < 0.14:
            return {"k": "F"}
        return ref(rng.choice(atoms + [extra]), 0 if rng.random() < 0.25 else 1)
    S = []
    for _ in range(rng.randint(1, 3)):
        S.append(rnd_ref())
    t = rng.randint(1, 6)
    c1, c2, c3 = rnd_ref(), rnd_ref(), rnd_ref()
    if t == 1:
        m = add({"op": "or", "refs": S, "mutable": 1, "name": ""})
        r = add({"op": "or", "refs": [dict(x) for x in S], "mutable": 0, "name": ""})
        add({"op": "disjunct", "target": m, "refs": [c1]})
        add({"op": "and", "refs": [ref(r), c2], "name": ""})
    elif t == 2:
        r = add({"op": "or", "refs": S, "mutable": 0, "name": ""})
        m = add({"op": "or", "refs": [dict(x) for x in S], "mutable": 1, "name": ""})
        add({"op": "disjunct", "target": m, "refs": [c1]})
        add({"op": "or", "refs": [ref(r), c2], "mutable": 0, "name": ""})
    elif t == 3:
        m = add({"op": "or", "refs": S, "mutable": 1, "name": ""})
        add({"op": "disjunct", "target": m, "refs": [c1]})
        r = add({"op": "or", "refs": [dict(x) for x in S] + [dict(c1)], "mutable": 0, "name": ""})
        add({"op": "disjunct", "target": m, "refs": [c2]})
        add({"op": "and", "refs": [ref(r), c3], "name": ""})
    elif t == 4:
        a = rng.choice(atoms)
        m = add({"op": "or", "refs": [ref(a)], "mutable": 1, "name": ""})
        add({"op": "disjunct", "target": m, "refs": [ref(a, 0) if rng.random() < 0.6 else {"k": "T"}]})
        add({"op": "disjunct", "target": m, "refs": [c1]})
        add({"op": "and", "refs": [ref(m), c2], "name": ""})
        add({"op": "disjunct", "target": m, "refs": [c3]})
    elif t == 5:
        a1 = add({"op": "and", "refs": S, "name": rng.choice(["", "n1"])})
        a2 = add({"op": "and", "refs": [dict(x) for x in S], "name": rng.choice(["", "n2"])})
        m = add({"op": "or", "refs": [ref(a1)], "mutable": 1, "name": ""})
        add({"op": "or", "refs": [ref(a2), ref(a1, 0)], "mutable": 0, "name": ""})
        add({"op": "disjunct", "target": m, "refs": [ref(a2, rng.randint(0, 1))]})
    else:
        m1 = add({"op": "or", "refs": S, "mutable": 1, "name": ""})
        m2 = add({"op": "or", "refs": [dict(x) for x in S], "mutable": 1, "name": ""})
        add({"op": "disjunct", "target": m1, "refs": [c1]})
        add({"op": "and", "refs": [ref(m2), c2], "name": ""})
        add({"op": "disjunct", "target": m2, "refs": [ref(m1)]})
    # drop histories that would create a cycle through negation
    for i, c in enumerate(calls, start=1):
        if c["op"] == "disjunct" and c["refs"][0]["k"] == "c" and neg_dep(calls[:i], c["target"], c["target"]):
            return None
    return calls


SC_OPTS = [{}, {"max_arity": 1}, {"max_arity": 2}, {"max_arity": 3}, {"keep_order": True}, {"keep_duplicates": True},
           {"avoid_name_clash": True}, {"keep_duplicates": True, "max_arity": 2}]



MC_VARIANTS = [("FormulaBuilder_small.cfg", {}), ("FormulaBuilder_maxarity.cfg", {"max_arity": 2}),
               ("FormulaBuilder_keepdup.cfg", {"keep_duplicates": True, "max_arity": 2}),
               ("FormulaBuilder_keepall.cfg", {"keep_all": True}), ("FormulaBuilder_nocompact.cfg", {"auto_compact": False})]
MC_BIG = [("FormulaBuilder_big.cfg", {}), ("FormulaBuilder_big_maxarity.cfg", {"max_arity": 2})]


def model_and_replay(ctx, cov):
    """(1) + (2): model-check, export every explored history, replay on the real class."""
    runs = [("FormulaBuilderMC", cfg, True) for cfg, _ in MC_VARIANTS]
    if ctx.tier == "thorough":
        runs += [("FormulaBuilderMC", cfg, True) for cfg, _ in MC_BIG]
    R = mc.check_cfgs(runs, nproc=ctx.nproc, timeout=ctx.pick(900, 7200), parallel=ctx.pick(5, 3))
    cov["states"] = sum(r["states"] for r in R.values())
    cov["transitions"] = sum(r["transitions"] for r in R.values())
    cov["model_configs"] = {cfg: {"states": r["states"], "depth": r["depth"]} for cfg, r in R.items()}
    jobs, meta = [], []
    for cfg, opts in MC_VARIANTS:
        for h in mc.exported(R[cfg]["out"]):
            calls = [{k: v for k, v in c.items() if k != "ret"} for c in h["hist"]]
            jobs.append(("builder_history", {"calls": calls, "opts": opts}))
            meta.append((cfg, opts, h))
    if not jobs:
        raise MachineryError("no histories exported by the model-checking runs")
    res = pl.run_jobs(jobs, nproc=ctx.nproc, timeout=60, chunksize=256)
    drift = []
    for (cfg, opts, h), r in zip(meta, res):
        ctx.evaluations += 1
        if r.get("error"):
            if r.get("inconclusive"):
                ctx.inconclusive += 1
                continue
            ctx.violation({"clause": "crash", "error": r["error"], "site": r.get("site", ""), "options": "+".join(sorted(opts))},
                          "builder history explored by TLC raised %s: %s\ncalls=%s opts=%s" % (r["error"], r.get("msg"), h["hist"], opts),
                          {"calls": [{k: v for k, v in c.items() if k != "ret"} for c in h["hist"]], "opts": opts})
            continue
        same = all(a["ret"] == b["ret"] for a, b in zip(h["hist"], r["calls"])) and \
            [(n["t"], n["ch"], n["id"] if n["t"] == "atom" else "") for n in h["nodes"]] == \
            [(n["t"], n["ch"], n["id"] if n["t"] == "atom" else "") for n in r["calls"][-1]["nodes"]]
        if not same:
            drift.append((cfg, opts, h, r))
    cov["spec_histories_replayed_on_impl"] = len(jobs)
    cov["spec_histories_where_impl_differs_from_model"] = len(drift)
    if drift:
        # the model no longer describes the code on these histories: TLC's verdict does not transfer; judge the real data
        cases = [{"id": i, "calls": r["calls"]} for i, (_, _, _, r) in enumerate(drift)]
        J = tlc.judge_batch("JudgeBuilder", cases, nproc=ctx.nproc, tag="c11d")
        for i, (cfg, opts, h, r) in enumerate(drift):
            j = J[i]
            calls = [{k: v for k, v in c.items() if k not in ("ret", "nodes")} for c in r["calls"]]
            if i < 3:
                print("DRIFT property=C11 model FormulaBuilder (%s) and LogicFormula disagree on history %s: model keys %s, real keys %s" % (
                    cfg, json.dumps(calls)[:400], [c["ret"] for c in h["hist"]], [c["ret"] for c in r["calls"]]))
            if not j["ok"]:
                ctx.violation({"clause": "meaning-changed", "options": "+".join(sorted(opts)), "keep_all": bool(opts.get("keep_all"))},
                              "history explored by TLC: after call %d, key returned by call %d differs from its ideal meaning under "
                              "assignment %s\ncalls=%s\nopts=%s\nreal nodes=%s" % (j["prefix"], j["call"], j["asg"], json.dumps(calls), opts,
                                                                                   json.dumps(r["calls"][j["prefix"] - 1]["nodes"])),
                              {"calls": calls, "opts": opts})
    return len(jobs)


def trace_validate(ctx, cov, cases, H):
    """(3): recorded real histories against the model, step by step."""
    tc = []
    for c in cases:
        calls, opts = H[c["id"]]
        if opts.get("avoid_name_clash") or opts.get("keep_order") and False:
            continue
        cc = []
        for x in c["calls"]:
            y = dict(x)
            y.setdefault("mutable", 0); y.setdefault("skipped", 0); y.setdefault("target", 0); y.setdefault("det", 0); y.setdefault("id", "")
            y.setdefault("refs", [])
            y["mutable"] = int(y["mutable"] or 0)
            for k in ("name", "named", "label"):
                y.pop(k, None)
            cc.append(y)
        tc.append({"id": c["id"], "opt": {"ac": bool(opts.get("auto_compact", True)), "kd": bool(opts.get("keep_duplicates", False)),
                                          "ka": bool(opts.get("keep_all", False)), "ma": int(opts.get("max_arity", 0))}, "calls": cc})
    J = tlc.judge_batch("JudgeBuilderTrace", tc, nproc=ctx.nproc, tag="c11t")
    bad = [J[c["id"]] for c in tc if not J[c["id"]]["ok"]]
    cov["traces_validated_against_impl"] = len(tc)
    cov["trace_steps_matched"] = sum(J[c["id"]]["matched"] for c in tc)
    cov["traces_where_impl_differs_from_model"] = len(bad)
    for b in bad[:3]:
        calls, opts = H[b["id"]]
        print("DRIFT property=C11 recorded history %d leaves the model at step %d (%s): calls=%s opts=%s" % (
            b["id"], b["step"], b["what"], json.dumps(calls)[:500], opts))
    return tc, J


def run(ctx):
    cov = {}
    nreplayed = model_and_replay(ctx, cov)
    rng = random.Random(ctx.seed + 1111)
    nh = ctx.pick(1200, 20000)
    H = []
    for i in range(nh):
        H.append((gen_history(rng, ctx.pick(7, 9)), OPTS[i % len(OPTS)] if i % 3 else {}))
    nsc = 0
    while nsc < ctx.pick(900, 12000):
        c = gen_scenario(rng)
        if c is None:
            continue
        H.append((c, SC_OPTS[nsc % len(SC_OPTS)]))
        nsc += 1
    res = pl.run_jobs([("builder_history", {"calls": c, "opts": o}) for c, o in H], nproc=ctx.nproc, timeout=60,
                      chunksize=32)
    cases = []
    for i, ((calls, opts), r) in enumerate(zip(H, res)):
        ctx.evaluations += 1
        if r.get("error"):
            if r.get("inconclusive"):
                ctx.inconclusive += 1
                continue
            ctx.violation({"clause": "crash", "error": r["error"], "site": r.get("site", ""),
                           "options": "+".join(sorted(opts))},
                          "builder history raised %s: %s\ncalls=%s opts=%s" % (r["error"], r.get("msg"), calls, opts),
                          {"calls": calls, "opts": opts})
            continue
        cases.append({"id": i, "calls": r["calls"]})
    J = tlc.judge_batch("JudgeBuilder", cases, nproc=ctx.nproc, tag="c11")
    nontriv = set()
    for c in cases:
        j = J[c["id"]]
        calls, opts = H[c["id"]]
        if any(x["op"] == "disjunct" for x in calls) or len({x["op"] for x in calls}) >= 3:
            nontriv.add(json.dumps(calls))
        if not j["ok"]:
            ctx.violation({"clause": "meaning-changed", "options": "+".join(sorted(opts)),
                           "keep_all": bool(opts.get("keep_all"))},
                          "after call %d, key returned by call %d differs from its ideal meaning under assignment %s\n"
                          "calls=%s\nopts=%s\nreal nodes=%s" % (j["prefix"], j["call"], j["asg"],
                                                               json.dumps(calls), opts,
                                                               json.dumps(c["calls"][j["prefix"] - 1]["nodes"])),
                          {"calls": calls, "opts": opts})
    tc, TJ = trace_validate(ctx, cov, cases, H)
    # binding demonstration: a corrupted recording must leave the model
    if tc:
        import copy
        bad = copy.deepcopy(next(c for c in tc if len(c["calls"]) >= 3))
        bad["id"] = 10 ** 6
        bad["calls"][1]["ret"] = bad["calls"][1]["ret"] + 1 if bad["calls"][1]["ret"] not in (0,) else 7
        bj = tlc.judge_batch("JudgeBuilderTrace", [bad], nproc=1, tag="c11s")[10 ** 6]
        cov["self_test_corrupted_trace_rejected"] = not bj["ok"]
        if bj["ok"]:
            raise MachineryError("self-test: a corrupted builder trace was accepted by JudgeBuilderTrace")
    ctx.sample({"calls": H[0][0], "opts": H[0][1], "recorded_last_nodes": cases[0]["calls"][-1]["nodes"] if cases else None})
    cov.update({
        "evaluations": ctx.evaluations, "distinct_nontrivial": len(nontriv),
        "rule": "every call history of FormulaBuilder.tla within the bound (2 atoms + 2 free calls, <= 2 children, 5 option "
                "vectors) replayed on the real class, plus seeded random builder call histories (<= %d calls over 3 atoms, "
                "TRUE/FALSE, negation, mutable ors with add_disjunct incl. positive cycles) x option vectors; non-trivial = "
                "random history that uses add_disjunct or >= 3 different operations" % ctx.pick(7, 9),
        "option_vectors": ["+".join(sorted(o)) or "(default)" for o in OPTS],
        "tlc_judged_histories": len(cases),
        "exhaustive": False,
    })
    ctx.write_evidence("model_checking", cov,
                       assumptions=["add_disjunct's own return value is not treated as a returned key (it is None on every real update "
                                    "on the pinned tree and all in-tree callers ignore it)",
                                    "histories never create a cycle through negation (outside the builder's contract)",
                                    "node names (add_name, avoid_name_clash) are not part of the Layer-B model; histories with "
                                    "avoid_name_clash are judged by Layer A only",
                                    "TLC bound for the exhaustive part: 2 atoms, 2 further calls (thorough: 3), at most 2 children per call"])


def replay(ctx, path):
    with open(path) as f:
        d = json.load(f)
    case = d["case"]
    r = pl.run_local("builder_history", calls=case["calls"], opts=case["opts"])
    ctx.evaluations = 1
    if r.get("error"):
        ctx.violation({"clause": "crash", "error": r["error"], "site": r.get("site", "")}, r.get("msg", ""), case)
    else:
        j = tlc.judge_batch("JudgeBuilder", [{"id": 1, "calls": r["calls"]}], nproc=1)[1]
        print(json.dumps(r["calls"], indent=0)[:3000])
        print(j)
        if not j["ok"]:
            ctx.violation({"clause": "meaning-changed", "options": "+".join(sorted(case["opts"]))}, str(j), case)
    ctx.write_evidence("exploration", {"evaluations": 1, "distinct_nontrivial": 0, "rule": "replay", "samples": [case]})

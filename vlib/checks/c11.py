"""C11 - the ground-program builder preserves Boolean meaning.

Histories of add_atom / add_and / add_or (readonly, mutable) / add_disjunct / negate / add_name are executed on a real
LogicFormula under option vectors; after every call the real node table and returned key are recorded and TLC
(spec/JudgeBuilder.tla over spec/AOG.tla) compares, for every assignment of the atoms, the well-founded value of every
key returned so far with the value its call has in the ideal (no folding, no sharing) graph."""
import json
import random

from .. import pl, tlc

OPTS = [
    {}, {"keep_order": True}, {"keep_duplicates": True}, {"avoid_name_clash": True}, {"keep_all": True},
    {"max_arity": 2}, {"auto_compact": False}, {"keep_order": True, "avoid_name_clash": True},
    {"keep_duplicates": True, "max_arity": 2}, {"keep_all": True, "avoid_name_clash": True, "keep_order": True},
]


def neg_dep(calls, src, dst):
    """does call `src` depend on call `dst` through an odd number of negations (or through any path if mixed)?"""
    # edges: i -> (j, sign)
    edges = {}
    for i, c in enumerate(calls, start=1):
        tgt = i
        if c["op"] == "disjunct":
            tgt = c["target"]
        for r in c.get("refs", []):
            if r["k"] == "c":
                edges.setdefault(tgt, set()).add((r["i"], r["s"]))
    seen = set()
    todo = [(src, 1)]
    while todo:
        n, pol = todo.pop()
        if (n, pol) in seen:
            continue
        seen.add((n, pol))
        for (j, s) in edges.get(n, ()):
            todo.append((j, pol if s == 1 else 1 - pol))
    return (dst, 0) in seen


def gen_history(rng, maxlen):
    atoms = ["x", "y", "z"]
    calls = []
    mut = []      # call indices of mutable ors
    n = rng.randint(3, maxlen)

    def ref():
        r = rng.random()
        if calls and r < 0.86:
            cands = [i for i, c in enumerate(calls, start=1) if c["op"] in ("atom", "and", "or", "not")]
            if cands:
                return {"k": "c", "i": rng.choice(cands), "s": 0 if rng.random() < 0.3 else 1}
        return {"k": "T"} if rng.random() < 0.5 else {"k": "F"}

    for _ in range(n):
        r = rng.random()
        prev = [c for c in calls if c["op"] in ("and", "or")]
        if prev and rng.random() < 0.15:
            # repeat an earlier compound call with the same arguments (exercises node sharing / reuse)
            c = dict(rng.choice(prev))
            c["refs"] = [dict(x) for x in c["refs"]]
            if c["op"] == "or" and rng.random() < 0.5:
                c["mutable"] = 1 if rng.random() < 0.6 else 0
            c["name"] = rng.choice(["", c.get("name", ""), "n5"])
            calls.append(c)
            if c["op"] == "or" and c.get("mutable"):
                mut.append(len(calls))
            continue
        if r < 0.3 or not calls:
            det = 0 if rng.random() < 0.85 else rng.choice([1, 2])
            calls.append({"op": "atom", "id": rng.choice(atoms) if det == 0 else ("t1" if det == 1 else "f1"), "det": det,
                          "refs": [], "target": 0, "named": 1 if rng.random() < 0.3 else 0})
        elif r < 0.5:
            calls.append({"op": "and", "refs": [ref() for _ in range(rng.randint(1, 3))], "id": "", "det": 0, "target": 0,
                          "name": rng.choice(["", "", "n1", "n2"])})
        elif r < 0.7:
            m = 1 if rng.random() < 0.5 else 0
            calls.append({"op": "or", "refs": [ref() for _ in range(rng.randint(1, 3))], "mutable": m, "id": "",
                          "det": 0, "target": 0, "name": rng.choice(["", "", "n1", "n3"])})
            if m:
                mut.append(len(calls))
        elif r < 0.76:
            x = ref()
            if x["k"] == "c":
                x = {"k": "c", "i": x["i"], "s": 1 - x["s"]}
            calls.append({"op": "not", "refs": [x], "id": "", "det": 0, "target": 0})
        elif r < 0.96 and mut:
            t = rng.choice(mut)
            x = ref()
            trial = calls + [{"op": "disjunct", "target": t, "refs": [x], "id": "", "det": 0}]
            if x["k"] == "c" and (neg_dep(trial, t, t)):
                continue      # would create a cycle through negation: outside the builder's contract
            calls.append(trial[-1])
        else:
            x = ref()
            calls.append({"op": "name", "refs": [x], "name": rng.choice(["n1", "n4"]), "label": rng.choice(["query", "named"]),
                          "id": "", "det": 0, "target": 0})
    return calls


def gen_scenario(rng):
    """Structured histories around node sharing: a mutable disjunction and a readonly node with the same children,
    created in either order, before / after add_disjunct calls; complementary pairs and TRUE under max_arity."""
    calls = []

    def add(c):
        c.setdefault("refs", []); c.setdefault("id", ""); c.setdefault("det", 0); c.setdefault("target", 0)
        calls.append(c)
        return len(calls)
    atoms = [add({"op": "atom", "id": a, "named": 0}) for a in ("x", "y", "z")]
    extra = add({"op": "and", "refs": [{"k": "c", "i": atoms[0], "s": 1}, {"k": "c", "i": atoms[1], "s": 0}], "name": ""})

    def ref(i, s=1):
        return {"k": "c", "i": i, "s": s}

    def rnd_ref():
        r = rng.random()
        if r < 0.08:
            return {"k": "T"}
        if r < 0.14:
            return {"k": "F"}
        return ref(rng.choice(atoms + [extra]), 0 if rng.random() < 0.25 else 1)
    S = []
    for _ in range(rng.randint(1, 3)):
        S.append(rnd_ref())
    t = rng.randint(1, 6)
    c1, c2, c3 = rnd_ref(), rnd_ref(), rnd_ref()
    if t == 1:
        m = add({"op": "or", "refs": S, "mutable": 1, "name": ""})
        r = add({"op": "or", "refs": [dict(x) for x in S], "mutable": 0, "name": ""})
        add({"op": "disjunct", "target": m, "refs": [c1]})
        add({"op": "and", "refs": [ref(r), c2], "name": ""})
    elif t == 2:
        r = add({"op": "or", "refs": S, "mutable": 0, "name": ""})
        m = add({"op": "or", "refs": [dict(x) for x in S], "mutable": 1, "name": ""})
        add({"op": "disjunct", "target": m, "refs": [c1]})
        add({"op": "or", "refs": [ref(r), c2], "mutable": 0, "name": ""})
    elif t == 3:
        m = add({"op": "or", "refs": S, "mutable": 1, "name": ""})
        add({"op": "disjunct", "target": m, "refs": [c1]})
        r = add({"op": "or", "refs": [dict(x) for x in S] + [dict(c1)], "mutable": 0, "name": ""})
        add({"op": "disjunct", "target": m, "refs": [c2]})
        add({"op": "and", "refs": [ref(r), c3], "name": ""})
    elif t == 4:
        a = rng.choice(atoms)
        m = add({"op": "or", "refs": [ref(a)], "mutable": 1, "name": ""})
        add({"op": "disjunct", "target": m, "refs": [ref(a, 0) if rng.random() < 0.6 else {"k": "T"}]})
        add({"op": "disjunct", "target": m, "refs": [c1]})
        add({"op": "and", "refs": [ref(m), c2], "name": ""})
        add({"op": "disjunct", "target": m, "refs": [c3]})
    elif t == 5:
        a1 = add({"op": "and", "refs": S, "name": rng.choice(["", "n1"])})
        a2 = add({"op": "and", "refs": [dict(x) for x in S], "name": rng.choice(["", "n2"])})
        m = add({"op": "or", "refs": [ref(a1)], "mutable": 1, "name": ""})
        add({"op": "or", "refs": [ref(a2), ref(a1, 0)], "mutable": 0, "name": ""})
        add({"op": "disjunct", "target": m, "refs": [ref(a2, rng.randint(0, 1))]})
    else:
        m1 = add({"op": "or", "refs": S, "mutable": 1, "name": ""})
        m2 = add({"op": "or", "refs": [dict(x) for x in S], "mutable": 1, "name": ""})
        add({"op": "disjunct", "target": m1, "refs": [c1]})
        add({"op": "and", "refs": [ref(m2), c2], "name": ""})
        add({"op": "disjunct", "target": m2, "refs": [ref(m1)]})
    # drop histories that would create a cycle through negation
    for i, c in enumerate(calls, start=1):
        if c["op"] == "disjunct" and c["refs"][0]["k"] == "c" and neg_dep(calls[:i], c["target"], c["target"]):
            return None
    return calls


SC_OPTS = [{}, {"max_arity": 1}, {"max_arity": 2}, {"max_arity": 3}, {"keep_order": True}, {"keep_duplicates": True},
           {"avoid_name_clash": True}, {"keep_duplicates": True, "max_arity": 2}]


def run(ctx):
    rng = random.Random(ctx.seed + 1111)
    nh = ctx.pick(1200, 20000)
    H = []
    for i in range(nh):
        H.append((gen_history(rng, ctx.pick(7, 9)), OPTS[i % len(OPTS)] if i % 3 else {}))
    nsc = 0
    while nsc < ctx.pick(900, 12000):
        c = gen_scenario(rng)
        if c is None:
            continue
        H.append((c, SC_OPTS[nsc % len(SC_OPTS)]))
        nsc += 1
    res = pl.run_jobs([("builder_history", {"calls": c, "opts": o}) for c, o in H], nproc=ctx.nproc, timeout=60,
                      chunksize=32)
    cases = []
    for i, ((calls, opts), r) in enumerate(zip(H, res)):
        ctx.evaluations += 1
        if r.get("error"):
            if r.get("inconclusive"):
                ctx.inconclusive += 1
                continue
            ctx.violation({"clause": "crash", "error": r["error"], "site": r.get("site", ""),
                           "options": "+".join(sorted(opts))},
                          "builder history raised %s: %s\ncalls=%s opts=%s" % (r["error"], r.get("msg"), calls, opts),
                          {"calls": calls, "opts": opts})
            continue
        cases.append({"id": i, "calls": r["calls"]})
    J = tlc.judge_batch("JudgeBuilder", cases, nproc=ctx.nproc, tag="c11")
    nontriv = set()
    for c in cases:
        j = J[c["id"]]
        calls, opts = H[c["id"]]
        if any(x["op"] == "disjunct" for x in calls) or len({x["op"] for x in calls}) >= 3:
            nontriv.add(json.dumps(calls))
        if not j["ok"]:
            ctx.violation({"clause": "meaning-changed", "options": "+".join(sorted(opts)),
                           "keep_all": bool(opts.get("keep_all"))},
                          "after call %d, key returned by call %d differs from its ideal meaning under assignment %s\n"
                          "calls=%s\nopts=%s\nreal nodes=%s" % (j["prefix"], j["call"], j["asg"],
                                                               json.dumps(calls), opts,
                                                               json.dumps(c["calls"][j["prefix"] - 1]["nodes"])),
                          {"calls": calls, "opts": opts})
    ctx.sample({"calls": H[0][0], "opts": H[0][1], "recorded_last_nodes": cases[0]["calls"][-1]["nodes"] if cases else None})
    ctx.write_evidence("exploration", {
        "evaluations": ctx.evaluations, "distinct_nontrivial": len(nontriv),
        "rule": "seeded random builder call histories (<= %d calls over 3 atoms, TRUE/FALSE, negation, mutable ors with "
                "add_disjunct incl. positive cycles) x option vectors; non-trivial = uses add_disjunct or >= 3 "
                "different operations" % ctx.pick(7, 9),
        "option_vectors": ["+".join(sorted(o)) or "(default)" for o in OPTS],
        "tlc_judged_histories": len(cases),
    }, assumptions=["add_disjunct's own return value is not treated as a returned key (it is None on every real update "
                    "on the pinned tree and all in-tree callers ignore it)",
                    "histories never create a cycle through negation (outside the builder's contract)"])


def replay(ctx, path):
    with open(path) as f:
        d = json.load(f)
    case = d["case"]
    r = pl.run_local("builder_history", calls=case["calls"], opts=case["opts"])
    ctx.evaluations = 1
    if r.get("error"):
        ctx.violation({"clause": "crash", "error": r["error"], "site": r.get("site", "")}, r.get("msg", ""), case)
    else:
        j = tlc.judge_batch("JudgeBuilder", [{"id": 1, "calls": r["calls"]}], nproc=1)[1]
        print(json.dumps(r["calls"], indent=0)[:3000])
        print(j)
        if not j["ok"]:
            ctx.violation({"clause": "meaning-changed", "options": "+".join(sorted(case["opts"]))}, str(j), case)
    ctx.write_evidence("exploration", {"evaluations": 1, "distinct_nontrivial": 0, "rule": "replay", "samples": [case]})

"""C30 - invalid probability annotations are rejected (validity decided by Semantics!ValidAnnotation in TLC)."""
import copy
import random

from .. import progs, semcheck
from ..progs import atom
from . import common


def expr_for(num, den, rng):
    """an arithmetic expression whose value is num/den (tenths)"""
    a = rng.randint(0, max(0, num)) if num >= 0 else 0
    b = num - a
    if b >= 0:
        return "(%s+%s)" % (progs.r_prob([a, den]), progs.r_prob([b, den]))
    return "(%s-%s)" % (progs.r_prob([a, den]), progs.r_prob([-b, den]))


def poison(p, rng):
    """Return (program, kind) with one invalid annotation whose atom(s) are queried directly."""
    q = copy.deepcopy(p)
    q.pop("order", None)
    q["evidence"] = []
    kinds = ["fact-high", "fact-neg", "fact-expr"]
    if q["ads"]:
        kinds += ["ad-sum-all", "ad-sum-one", "ad-head-high"]
    kind = rng.choice(kinds)
    if kind.startswith("fact") or not q["ads"]:
        if not q["facts"]:
            q["facts"].append({"p": [5, 10], "atom": atom("zz")})
        f = rng.choice(q["facts"])
        den = f["p"][1]
        if kind == "fact-high":
            f["p"] = [den + rng.randint(1, 3), den]
        elif kind == "fact-neg":
            f["p"] = [-rng.randint(1, 3), den]
        else:
            f["p"] = [den + rng.randint(1, 5), den]
            f["ptext"] = expr_for(f["p"][0], den, rng)
        q["queries"] = [copy.deepcopy(f["atom"])]
        return q, kind
    ad = rng.choice(q["ads"])
    # make the AD ground and body-free so that its heads are certainly reached when queried
    ad["body"] = []
    for h in ad["heads"]:
        h["atom"]["a"] = [t if t["k"] == "c" else progs.C(q["consts"][0]) for t in h["atom"]["a"]]
    den = ad["heads"][0]["p"][1]
    if kind == "ad-head-high":
        ad["heads"][0]["p"] = [den + 2, den]
        q["queries"] = [copy.deepcopy(ad["heads"][0]["atom"])]
        return q, kind
    if len(ad["heads"]) < 2:
        ad["heads"].append({"p": [1, den], "atom": atom("zz2")})
    tot = sum(h["p"][0] for h in ad["heads"])
    ad["heads"][0]["p"][0] += den - tot + rng.randint(1, 3)      # sum = 1 + k/den, each head still <= 1 ?
    if ad["heads"][0]["p"][0] > den:
        extra = ad["heads"][0]["p"][0] - den
        ad["heads"][0]["p"][0] = den
        ad["heads"][1]["p"][0] += extra
    if kind == "ad-sum-all":
        q["queries"] = [copy.deepcopy(h["atom"]) for h in ad["heads"]]
    else:
        q["queries"] = [copy.deepcopy(ad["heads"][0]["atom"])]
    return q, kind


def boundary(p, rng):
    """valid programs with annotations on the boundary: 0, 1, AD sums exactly 1, valid expressions"""
    q = copy.deepcopy(p)
    q.pop("order", None)
    for f in q["facts"]:
        r = rng.random()
        if r < 0.25:
            f["p"] = [0, f["p"][1]]
        elif r < 0.5:
            f["p"] = [f["p"][1], f["p"][1]]
        elif r < 0.7:
            f["ptext"] = expr_for(f["p"][0], f["p"][1], rng)
    for ad in q["ads"]:
        den = ad["heads"][0]["p"][1]
        tot = sum(h["p"][0] for h in ad["heads"])
        if rng.random() < 0.7:
            ad["heads"][-1]["p"][0] += den - tot
    return q


def run(ctx):
    rng = random.Random(ctx.seed + 3030)
    base = semcheck.gen_programs(ctx.seed * 7919 + 301, ctx.pick(70, 800), "strat")
    P, kinds = [], {}
    for p in base:
        q, kind = poison(p, rng)
        P.append(q)
        kinds[progs.canon(q)] = kind
        if rng.random() < 0.6:
            P.append(boundary(p, rng))

    def variants(p):
        t = progs.render(p)
        return [("prob", {"text": t, "semiring": "prob"}), ("log", {"text": t, "semiring": "log"}),
                ("default", {"text": t})]

    def sig_extra(p, j, r, vn):
        return {"invalid_kind": kinds.get(progs.canon(p), "valid")}

    J, runs, cov = common.sem_check(ctx, P, variants, level="exploration", write=False, sig_extra=sig_extra)
    # C30-specific clause: an invalid program must raise InvalidValue (not merely some other ProbLogError)
    n_invalid = 0
    for i, rs in runs.items():
        if J[i]["valid"]:
            continue
        n_invalid += 1
        for (vn, kw, r) in rs:
            if r.get("inconclusive"):
                continue
            if r.get("error") and "InvalidValue" not in r.get("mro", [r.get("error")]) and r.get("problog_error"):
                ctx.violation({"clause": "invalid-annotation-other-error", "variant": vn, "error": r["error"],
                               "invalid_kind": kinds.get(progs.canon(P[i]), "?")},
                              "invalid annotation reported as %s instead of InvalidValue\n%s" % (r["error"], kw["text"]),
                              {"kind": "sem", "program": P[i], "variant": vn, "kwargs": kw, "run": r})
    cov["invalid_programs"] = n_invalid
    cov["invalid_kinds"] = sorted(set(kinds.values()))
    ctx.write_evidence("exploration", cov, assumptions=[
        "an invalid annotation is only required to be detected when its atom is queried directly (ground, body-free):"
        " a goal-directed engine never sees unreachable facts"])


def replay(ctx, path):
    common.sem_replay(ctx, path)

"""C05 - all exact compilation back ends and semirings agree (each cell judged by Semantics.tla)."""
import json
import random

from .. import mc, pl, progs, semcheck, tlc
from ..tlc import MachineryError
from . import common


def available_backends():
    r = pl.run_local("backends")
    return r.get("backends", ["ddnnf"])


def run(ctx):
    P = semcheck.gen_programs(ctx.seed * 7919 + 41, ctx.pick(90, 1200), "strat", p_edge=True)
    P += common.family_small(ctx.pick(40, 600), ctx.seed + 4000)
    backends = available_backends()
    cells = []
    for b in backends:
        for sr in ("prob", "log", "custom", "nsp", "symbolic"):
            cells.append((b, sr))

    def variants(p):
        t = progs.render(p)
        vs = [("default", {"text": t})]
        for (b, sr) in cells:
            vs.append(("%s/%s" % (b, sr), {"text": t, "evaluatable": b, "semiring": sr}))
        return vs

    def skip(p, j, r, vn):
        # the property only says the symbolic expression evaluates to the same *number*; with P(evidence)=0 there
        # is no number, and a string-valued semiring cannot detect a zero normalisation constant
        return vn.endswith("/symbolic") and j["valid"] and j["den"] == 0

    def post(P_, J, runs):
        ctx.cov["relational"] = common.relational(ctx, P_, J, runs, clause="backend-dependent", skip=skip)

    J, runs, cov = common.sem_check(ctx, P, variants, level="exploration", post=post, write=False, skip=skip)
    cov["backends_available"] = backends
    cov["backends_unavailable"] = [b for b in ("sdd", "sddx", "fsdd", "fbdd", "bdd") if b not in backends]
    cov["cells"] = ["%s/%s" % c for c in cells]
    cov["relational_comparisons"] = ctx.cov.get("relational", 0)
    cov["evaluator_model"] = evaluator_model(ctx)
    ctx.write_evidence("exploration", cov, assumptions=[
        "SDD/BDD back ends need PySDD, which is not installed in this sandbox: only d-DNNF (dsharp) cells are decided",
        "the symbolic semiring's expression is evaluated as ordinary arithmetic (Python operator precedence)"])


# ------------------------------------------------------------------------------------------------------------------
# Layer B: DDNNFEval.tla (model of SimpleDDNNFEvaluator) - model checking, spec -> code replay, code -> spec validation
FK = 1000000
GRID = [[[1, 2], [1, 2]], [[1, 4], [3, 4]], [[1, 1], [1, 1]], [[0, 1], [1, 1]], [[1, 1], [0, 1]], [[3, 10], [7, 10]], [[1, 5], [1, 1]]]


def shannon(nv, f):
    """smooth decision-DNNF of the boolean function f (set of frozensets of true variables) - as DDNNFEvalMC!Sh"""
    nodes = [{"t": "atom", "ch": [], "id": "", "det": 0} for _ in range(nv)]

    def sh(fs, i):
        if i > nv:
            return 0 if fs else FK
        lo = sh({s for s in fs if i not in s}, i + 1)
        hi = sh({s - {i} for s in fs if i in s}, i + 1)

        def andk(lit, sub):
            if sub == FK:
                return FK
            if sub == 0:
                return lit
            nodes.append({"t": "conj", "ch": [lit, sub], "id": "", "det": 0})
            return len(nodes)
        a = andk(i, hi)
        b = andk(-i, lo)
        if a == FK:
            return b
        if b == FK:
            return a
        nodes.append({"t": "disj", "ch": [a, b], "id": "", "det": 0})
        return len(nodes)
    key = sh(f, 1)
    return nodes if (key == len(nodes) and key > nv) else None


def _close(x, q, tol=1e-9):
    return abs(x - q[0] / q[1]) <= tol * max(1.0, abs(q[0] / q[1]))


def _describe(c):
    return "circuit %s, weights %s, evidence %s, queries %s, %s" % (
        json.dumps([[n["t"], n["ch"]] for n in c["g"]]), json.dumps(c["w0"]), c["ev"], c["qs"], "NSP" if c["nsp"] else "probability")


def _judge_real(ctx, c, o, exp):
    """exp: {'zero', 'expected', 'defined', 'pe'}; Layer-A verdicts on one recorded run"""
    sig = {"level": "evaluator-direct", "nsp": bool(c["nsp"]), "evidence": len(c["ev"])}
    case = {"dd": {k: c[k] for k in ("g", "w0", "ev", "qs", "nsp")}}
    if o.get("error"):
        if exp["zero"] and o["error"].startswith("ZeroDivisionError"):
            cl = "inconsistent-evidence-not-reported"
        else:
            cl = "crash"
        ctx.violation(dict(sig, clause=cl, error=o["error"].split(":")[0], site=o.get("site", "")),
                      "%s: %s" % (_describe(c), o["error"]), case)
        return
    if exp["zero"]:
        if o["pc"] != "inconsistent":
            ctx.violation(dict(sig, clause="inconsistent-evidence-not-reported"),
                          "%s: P(evidence) = 0 but the evaluator answered %s" % (_describe(c), o.get("results")), case)
        return
    if o["pc"] == "inconsistent":
        ctx.violation(dict(sig, clause="consistent-evidence-rejected"),
                      "%s: P(evidence) = %d/%d but InconsistentEvidenceError was raised" % (_describe(c), exp["pe"][0], exp["pe"][1]), case)
        return
    if not _close(o["pev"], exp["pe"]):
        ctx.violation(dict(sig, clause="evidence-probability"),
                      "%s: evaluate_evidence() = %r, P(evidence) = %d/%d" % (_describe(c), o["pev"], exp["pe"][0], exp["pe"][1]), case)
    if exp["defined"]:
        for i, (x, q) in enumerate(zip(o["results"], exp["expected"])):
            if not _close(x, q):
                ctx.violation(dict(sig, clause="evaluator-value", query_kind="true" if c["qs"][i] == 0 else ("false" if c["qs"][i] == FK else "literal"),
                                   position=min(i, 1)),
                              "%s: evaluate(%s) [call %d] = %r, weighted model count ratio = %d/%d" % (
                                  _describe(c), c["qs"][i], i + 1, x, q[0], q[1]), case)
                break


def evaluator_model(ctx):
    runs = [("DDNNFEvalMC", "DDNNFEval_small.cfg", True), ("DDNNFEvalMC", "DDNNFEval_nocacheclear.cfg", False),
            ("DDNNFEvalMC", "DDNNFEval_evcheck.cfg", False)]
    if ctx.tier == "thorough":
        runs += [("DDNNFEvalMC", "DDNNFEval_w2.cfg", True), ("DDNNFEvalMC", "DDNNFEval_big.cfg", True)]
    R = mc.check_cfgs(runs, nproc=ctx.nproc, timeout=ctx.pick(1800, 20000), parallel=3)
    ok_runs = [cfg for _, cfg, e in runs if e]
    cov = {"model_states": sum(R[c]["states"] for c in ok_runs),
           "model_configs": {c: {"states": r["states"], "depth": r["depth"]} for c, r in R.items()},
           "expected_counterexamples_found": ["DDNNFEval_nocacheclear.cfg (set_weight keeps cache_intermediate)",
                                              "DDNNFEval_evcheck.cfg (set_evidence tests the new weight instead of the current one)"]}
    H = mc.exported(R["DDNNFEval_small.cfg"]["out"])
    if not H:
        raise MachineryError("no behaviours exported by DDNNFEval_small.cfg")
    cases = [{"id": i, "g": h["g"], "w0": h["w0"], "ev": h["ev"], "qs": h["qs"], "nsp": h["nsp"], "model": h} for i, h in enumerate(H)]
    nexp = len(cases)
    rng = random.Random(ctx.seed + 50505)
    while len(cases) < nexp + ctx.pick(1200, 15000):
        nv = rng.choice([2, 3, 3, 4])
        allsets = [frozenset(v for v in range(1, nv + 1) if (m >> (v - 1)) & 1) for m in range(2 ** nv)]
        f = {s for s in allsets if rng.random() < rng.choice([0.3, 0.5, 0.8, 1.0])}
        g = shannon(nv, f) if f else None
        if not g:
            continue
        lits = [v if rng.random() < 0.5 else -v for v in rng.sample(range(1, nv + 1), rng.choice([0, 0, 1, 1, 2]))]
        qs = [rng.choice([v, -v]) for v in (rng.randint(1, nv) for _ in range(rng.randint(1, 4)))]
        if rng.random() < 0.3:
            qs.insert(rng.randrange(len(qs) + 1), rng.choice([0, FK]))
        cases.append({"id": len(cases), "g": g, "w0": [rng.choice(GRID) for _ in range(nv)], "ev": lits, "qs": qs,
                      "nsp": int(rng.random() < 0.35)})
    chunk = 500
    res = pl.run_jobs([("ddnnf_eval_replay", {"cases": [{k: c[k] for k in ("id", "g", "w0", "ev", "qs", "nsp")} for c in cases[i:i + chunk]]})
                       for i in range(0, len(cases), chunk)], nproc=ctx.nproc, timeout=600, chunksize=1)
    real = {}
    for r in res:
        if r.get("error"):
            raise MachineryError("ddnnf_eval_replay failed: %s" % r)
        for o in r["results"]:
            real[o["id"]] = o
    # self-test of the binding: a recorded run with one value shifted by 0.01 must be rejected by the comparison with TLC's fractions
    probe = next((c for c in cases[:nexp] if c["model"]["pc"] != "inconsistent" and c["model"]["defined"] == 1 and c["model"]["results"]), None)
    if probe is not None:
        o = dict(real[probe["id"]])
        if o.get("results"):
            o["results"] = [o["results"][0] + 0.01] + list(o["results"][1:])
            before = len(ctx.violations)
            known_before = dict(ctx.known_hits)

            class _Probe:
                def __init__(self):
                    self.hits = 0

                def violation(self, sig, detail, case):
                    self.hits += 1
            pr = _Probe()
            m = probe["model"]
            _judge_real(pr, probe, o, {"zero": False, "expected": m["results"], "defined": True, "pe": m["pev"][0] if m["pev"] else [1, 1]})
            if pr.hits == 0:
                raise MachineryError("self-test: a corrupted evaluator result was accepted")
            cov["selftest_corrupted_run_rejected"] = True
    drift = 0
    # (1) behaviours TLC explored: the model's values are the weighted-model-count ratios (ResultsCorrect was checked on them)
    for c in cases[:nexp]:
        ctx.evaluations += 1
        m = c["model"]
        exp = {"zero": m["pc"] == "inconsistent", "expected": m["results"], "defined": m["defined"] == 1,
               "pe": m["pev"][0] if m["pev"] else [0, 1]}
        _judge_real(ctx, c, real[c["id"]], exp)
    # (2) larger random instances: Layer A and the model are evaluated by TLC on the recorded input
    rc = cases[nexp:]
    J = tlc.judge_batch("JudgeDDNNFEval", [{k: c[k] for k in ("id", "g", "w0", "ev", "qs", "nsp")} for c in rc], nproc=ctx.nproc, tag="c05dd")
    for c in rc:
        ctx.evaluations += 1
        j, o = J[c["id"]], real[c["id"]]
        _judge_real(ctx, c, o, {"zero": j["zero"] == 1, "expected": j["expected"], "defined": j["defined"] == 1, "pe": j["pe"]})
        if not o.get("error"):
            mpc = "inconsistent" if j["mbad"] == 1 else "ready"
            if mpc != o["pc"] or (mpc == "ready" and any(not _close(x, q) for x, q in zip(o["results"], j["model"]))):
                drift += 1
    if drift:
        print("DRIFT property=C05 %d of %d runs of the real SimpleDDNNFEvaluator differ from DDNNFEval.tla (each judged by Layer A)" % (drift, len(rc)))
    cov.update({"model_behaviours_replayed": nexp, "random_instances_validated": len(rc), "model_drift": drift})
    return cov


def replay(ctx, path):
    with open(path) as f:
        d = json.load(f)
    if "dd" in d["case"]:
        c = dict(d["case"]["dd"], id=0)
        o = pl.run_local("ddnnf_eval_replay", cases=[c])["results"][0]
        j = tlc.judge_batch("JudgeDDNNFEval", [c], nproc=1)[0]
        print(_describe(c), "\n->", o, "\nexpected:", j)
        ctx.evaluations = 1
        _judge_real(ctx, c, o, {"zero": j["zero"] == 1, "expected": j["expected"], "defined": j["defined"] == 1, "pe": j["pe"]})
        ctx.write_evidence("exploration", {"evaluations": 1, "distinct_nontrivial": 0, "samples": [d["case"]]})
        return
    common.sem_replay(ctx, path)

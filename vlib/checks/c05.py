"""C05 - all exact compilation back ends and semirings agree (each cell judged by Semantics.tla)."""
from .. import pl, progs, semcheck
from . import common


def available_backends():
    r = pl.run_local("backends")
    return r.get("backends", ["ddnnf"])


def run(ctx):
    P = semcheck.gen_programs(ctx.seed * 7919 + 41, ctx.pick(90, 1200), "strat", p_edge=True)
    P += common.family_small(ctx.pick(40, 600), ctx.seed + 4000)
    backends = available_backends()
    cells = []
    for b in backends:
        for sr in ("prob", "log", "custom", "nsp", "symbolic"):
            cells.append((b, sr))

    def variants(p):
        t = progs.render(p)
        vs = [("default", {"text": t})]
        for (b, sr) in cells:
            vs.append(("%s/%s" % (b, sr), {"text": t, "evaluatable": b, "semiring": sr}))
        return vs

    def skip(p, j, r, vn):
        # the property only says the symbolic expression evaluates to the same *number*; with P(evidence)=0 there
        # is no number, and a string-valued semiring cannot detect a zero normalisation constant
        return vn.endswith("/symbolic") and j["valid"] and j["den"] == 0

    def post(P_, J, runs):
        ctx.cov["relational"] = common.relational(ctx, P_, J, runs, clause="backend-dependent", skip=skip)

    J, runs, cov = common.sem_check(ctx, P, variants, level="exploration", post=post, write=False, skip=skip)
    cov["backends_available"] = backends
    cov["backends_unavailable"] = [b for b in ("sdd", "sddx", "fsdd", "fbdd", "bdd") if b not in backends]
    cov["cells"] = ["%s/%s" % c for c in cells]
    cov["relational_comparisons"] = ctx.cov.get("relational", 0)
    ctx.write_evidence("exploration", cov, assumptions=[
        "SDD/BDD back ends need PySDD, which is not installed in this sandbox: only d-DNNF (dsharp) cells are decided",
        "the symbolic semiring's expression is evaluated as ordinary arithmetic (Python operator precedence)"])


def replay(ctx, path):
    common.sem_replay(ctx, path)

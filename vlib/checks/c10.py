"""C10 - compiled d-DNNF is a valid, equivalent circuit (see c09.py)."""
from . import c09


def run(ctx):
    c09.run_both(ctx, "C10")


def replay(ctx, path):
    c09.replay(ctx, path)

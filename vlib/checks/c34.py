"""C34 - utility containers behave as their abstract models.

(1) TLC model-checks that the concrete representations (Layer B, spec/Containers.tla) refine the abstract
    models for every history in bounds (ContainersOS/UH/BV) - and that the pre-fix __iand__ model does NOT.
(2) Bounded-exhaustive and seeded random histories are executed on the real classes; every recorded call
    (args, result, projected state) is validated by TLC against the abstract model (ContainersTrace.tla);
    a REJECT is a violation, a concrete-representation mismatch is drift only.
(3) Behaviours simulated by TLC from the models are replayed on the real classes (spec -> code)."""
import itertools
import json
import os
import random
import re

from .. import pl, tlc
from ..tlc import MachineryError


def model_check(ctx, cov):
    runs = [("ContainersOS", "ContainersOS.cfg", True), ("ContainersUH", "ContainersUH.cfg", True),
            ("ContainersBV", "ContainersBV.cfg", True), ("ContainersBV", "ContainersBV_oldiand.cfg", False)]
    states = trans = 0
    for mod, cfg, expect_ok in runs:
        rc, out, st = tlc.run_tlc(mod, cfg=cfg, workers=ctx.nproc, extra=["-coverage", "1"], timeout=1200,
                                  tag=cfg.replace(".cfg", ""))
        ok = "Model checking completed. No error has been found." in out
        viol = "is violated" in out
        if expect_ok:
            if viol:
                # the model of the code does not refine the abstract container: the model is a transcription of the
                # pinned code, so this is a spec-level alarm, reported as machinery failure (no implementation data)
                raise MachineryError("%s/%s: refinement violated in the model:\n%s" % (mod, cfg, out[-2000:]))
            if not ok:
                raise MachineryError("%s/%s: TLC failed:\n%s" % (mod, cfg, out[-2000:]))
            covc = tlc.coverage_counts(out)
            never = [a for a, (d, t) in covc.items() if t == 0 and a[0].isupper() and a not in ("Init",)]
            cov.setdefault("actions_never_taken", []).extend(never)
            states += st["distinct"]
            trans += st["generated"]
        else:
            if not viol:
                raise MachineryError("%s/%s: expected counterexample not found (vacuity guard)" % (mod, cfg))
            cov["expected_counterexample_found"] = cfg
    cov["states"] = states
    cov["transitions"] = trans


def gen_histories(ctx):
    rng = random.Random(ctx.seed + 3434)
    H = []
    # --- OrderedSet: exhaustive short prefixes + random
    os_ops = [("add", k) for k in (1, 2, 3)] + [("addy", k) for k in (1, 2, 3)] + [("discard", k) for k in (1, 2)] + \
             [("pop", 0), ("pop", 1), ("ior",), ("iand",), ("isub",), ("or",), ("and",), ("sub",), ("xor",),
              ("contains", 2), ("len",)]
    n = ctx.pick(3, 4)
    for seq in itertools.product(os_ops, repeat=n):
        if rng.random() < ctx.pick(0.25, 0.5):
            H.append(("os", list(seq)))
    for _ in range(ctx.pick(300, 4000)):
        L = rng.randint(5, 14)
        H.append(("os", [rng.choice(os_ops + [("add", rng.randint(1, 6)), ("addy", rng.randint(1, 6))]) for _ in range(L)]))
    # --- UHeap
    items = ["a", "b", "c", "d", "e"]
    for _ in range(ctx.pick(600, 8000)):
        L = rng.randint(3, 16)
        ops = []
        for _ in range(L):
            r = rng.random()
            if r < 0.6:
                ops.append(("push", rng.choice(items), rng.randint(0, 4)))
            elif r < 0.85:
                ops.append(("pop",))
            elif r < 0.95:
                ops.append(("peek",))
            else:
                ops.append(("len",))
        H.append(("uh", ops))
    uh_ops = [("push", it, k) for it in "abc" for k in (0, 1, 2)] + [("pop",)]
    for seq in itertools.product(uh_ops, repeat=ctx.pick(3, 4)):
        if rng.random() < ctx.pick(0.3, 0.5):
            H.append(("uh", list(seq)))
    # --- BitVector (real block size 32: indices around block boundaries)
    idx = [0, 1, 31, 32, 33, 63, 64, 70]
    bv_ops = [("add", i) for i in idx] + [("addy", i) for i in idx] + [("and",), ("or",), ("iand",), ("ior",),
                                                                       ("contains", 32), ("contains", 1), ("len",)]
    for _ in range(ctx.pick(600, 8000)):
        L = rng.randint(3, 12)
        H.append(("bv", [rng.choice(bv_ops) for _ in range(L)]))
    return H


def validate(ctx, recorded, tag):
    """TLC trace validation in batches; returns (rejects [(id, step, why)], drifts, states)."""
    d = tlc.workdir("c34")
    nchunks = min(ctx.nproc, max(1, len(recorded) // 50))
    chunks = [recorded[i::nchunks] for i in range(nchunks)]
    rej, drift, states = [], 0, 0
    from concurrent.futures import ThreadPoolExecutor

    def one(ix):
        fn = os.path.join(d, "%s_%d_%d.json" % (tag, os.getpid(), ix))
        with open(fn, "w") as f:
            json.dump(chunks[ix], f)
        rc, out, st = tlc.run_tlc("ContainersTrace", cfg="ContainersTrace.cfg", env={"TRACE_FILE": fn}, workers=1,
                                  timeout=3000, tag="%s_%d" % (tag, ix))
        os.unlink(fn)
        if "Model checking completed. No error has been found." not in out:
            raise MachineryError("ContainersTrace failed:\n" + out[-3000:])
        r = [(int(m.group(1)), int(m.group(2)), m.group(3)) for m in
             re.finditer(r'<<"REJECT", (\d+), (\d+), "([^"]*)">>', out)]
        dr = len(re.findall(r'<<"DRIFT"', out))
        return r, dr, st["distinct"]

    with ThreadPoolExecutor(max_workers=nchunks) as ex:
        for r, dr, s in ex.map(one, range(nchunks)):
            rej += r
            drift += dr
            states += s
    return rej, drift, states


def run(ctx):
    cov = {}
    model_check(ctx, cov)
    H = gen_histories(ctx)
    res = pl.run_jobs([("container_history", {"kind": k, "ops": ops}) for k, ops in H], nproc=ctx.nproc, timeout=60,
                      chunksize=64)
    recorded = []
    for i, ((k, ops), r) in enumerate(zip(H, res)):
        ctx.evaluations += 1
        if r.get("error"):
            if r.get("inconclusive"):
                ctx.inconclusive += 1
                continue
            ctx.violation({"clause": "crash", "kind": k, "error": r["error"], "site": r.get("site", "")},
                          "%s history %s raised %s: %s" % (k, ops, r["error"], r.get("msg")),
                          {"kind": k, "ops": ops})
            continue
        r["id"] = i
        recorded.append(r)
    rej, drift, tstates = validate(ctx, recorded, "tr")
    byid = {r["id"]: r for r in recorded}
    for (tid, step, why) in rej:
        k, ops = H[tid]
        ctx.violation({"clause": why, "kind": k},
                      "%s history rejected at event %d (%s): ops=%s event=%s" % (
                          k, step, why, ops[:step + 1], byid[tid]["events"][step - 1]),
                      {"kind": k, "ops": ops})
    # self-test: a corrupted recording must be rejected (binding demonstration)
    st_ok = selftest(ctx, recorded)
    cov.update({
        "traces_validated_against_impl": len(recorded),
        "trace_events_validated": sum(len(r["events"]) for r in recorded),
        "trace_states": tstates,
        "drift_events": drift,
        "self_test_corrupted_trace_rejected": st_ok,
        "evaluations": ctx.evaluations,
        "distinct_nontrivial": len({json.dumps(H[r["id"]]) for r in recorded if len(r["events"]) >= 3}),
        "rule": "histories: product of the op alphabet (sampled) + seeded random sequences; non-trivial = >= 3 recorded "
                "calls; distinct = distinct op sequence",
        "exhaustive": False,
    })
    for r in recorded[:2] + recorded[-2:]:
        ctx.sample({"kind": r["kind"], "ops": H[r["id"]][1], "last_event": r["events"][-1] if r["events"] else None})
    if not st_ok:
        raise MachineryError("self-test: corrupted traces were not rejected")
    ctx.write_evidence("model_checking", cov, assumptions=[
        "TLC bounds: OrderedSet 4 keys x 2 sets (all histories), UHeap 4 items x 4 keys x <=7 ops, BitVector block size 2, "
        "indices 0..5 (the real class uses 32-bit blocks; the trace spec uses BS=32)",
        "trusted: the recording wrapper (vlib/pl_tasks.container_history) and JSON transport"])


def selftest(ctx, recorded):
    import copy
    bad = []
    for kind in ("os", "uh", "bv"):
        for r in recorded:
            if r["kind"] == kind and len(r["events"]) >= 3:
                c = copy.deepcopy(r)
                e = c["events"][1]
                if kind == "os":
                    e["x"] = list(reversed(e["x"])) if len(e["x"]) > 1 else e["x"] + [9]
                elif kind == "uh":
                    e["m"] = e["m"] + [["zz", 0]]
                else:
                    e["x"] = e["x"] + [99]
                c["id"] = 100000 + len(bad)
                bad.append(c)
                break
    rej, _, _ = validate(ctx, bad, "st")
    return len(rej) == len(bad)


def replay(ctx, path):
    with open(path) as f:
        d = json.load(f)
    case = d["case"]
    r = pl.run_local("container_history", kind=case["kind"], ops=case["ops"])
    r["id"] = 0
    rej, drift, _ = validate(ctx, [r], "rp")
    print(json.dumps(r)[:2000])
    for (tid, step, why) in rej:
        ctx.violation({"clause": why, "kind": case["kind"]}, "rejected at event %d: %s" % (step, why), case)
    ctx.evaluations = 1
    ctx.write_evidence("model_checking", {"evaluations": 1, "distinct_nontrivial": 0, "samples": [case]})

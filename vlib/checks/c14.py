"""C14 - unification is sound and complete syntactic unification (judged by TermAlgebra!Mgu in TLC)."""
import copy
import json
import random

from .. import pl, tlc
from .. import terms as T


def mutate(t, rng, pool):
    """a term related to t: replace a random subterm by a variable / another term"""
    t = copy.deepcopy(t)
    if t["t"] != "c" or rng.random() < 0.25:
        return rng.choice(pool)
    i = rng.randrange(len(t["a"]))
    r = rng.random()
    if r < 0.45:
        t["a"][i] = T.V(rng.randint(1, 3))
    elif r < 0.7:
        t["a"][i] = rng.choice(pool)
    else:
        t["a"][i] = mutate(t["a"][i], rng, pool)
    return t


def numeric_atoms(t, acc=None):
    """texts of atoms that spell a number ('1', '2.5'): ProbLog's Term.signature strips the quotes, so they look like the number"""
    import re
    acc = set() if acc is None else acc
    if t["t"] == "a" and re.match(r"^-?[0-9]+(\.[0-9]+)?$", T.txt(t["c"])):
        acc.add(T.txt(t["c"]))
    for a in t.get("a", []) if t["t"] == "c" else []:
        numeric_atoms(a, acc)
    return acc


def gen_pairs(ctx, n):
    rng = random.Random(ctx.seed + 1414)
    U1 = T.universe(1, True, rng=rng)
    U2 = T.universe(2, True, cap=ctx.pick(400, 1500), rng=rng)
    pool = T.leaves(True, False)
    pairs = []
    seen = set()
    # occurs-check shapes first
    special = [(T.V(1), T.Cm("f", T.V(1))), (T.Cm("g", T.V(1), T.V(1)), T.Cm("g", T.V(2), T.Cm("f", T.V(2)))),
               (T.V(1), T.L([T.A("a")], T.V(1))), (T.Cm("g", T.V(1), T.V(2)), T.Cm("g", T.V(2), T.Cm("f", T.V(1)))),
               (T.I(1), T.F(4)), (T.A("a"), T.S("a")), (T.A("A b"), T.A("A b")), (T.L([T.V(1)], T.V(2)), T.L([T.A("a"), T.A("b")])),
               (T.Cm("g", T.V(1), T.V(1)), T.Cm("g", T.A("a"), T.A("b"))), (T.Cm("g", T.V(1), T.V(2)), T.Cm("g", T.V(2), T.V(1))),
               (T.Cm("f", T.V(1)), T.Cm("f", T.V(1))), (T.V(1), T.V(2)), (T.V(1), T.V(1)),
               (T.Cm("g", T.Cm("f", T.V(1)), T.V(2)), T.V(3)), (T.Cm("g", T.Cm("g", T.V(1), T.A("b")), T.V(2)), T.V(3)),
               (T.Cm("g", T.Cm("f", T.V(2)), T.V(1)), T.V(3)), (T.L([T.Cm("f", T.V(1)), T.V(2)]), T.V(3)),
               (T.Cm("g", T.Cm("f", T.Cm("f", T.V(1))), T.Cm("f", T.V(2))), T.Cm("g", T.V(3), T.V(1)))]
    for x, y in special:
        pairs.append((x, y))
    # look-alike constants (1 vs 1.0, a vs "a") below a functor, next to an argument that keeps the pair non-ground: the
    # clause index cannot filter the clause, so the head unifier itself has to tell them apart
    qa = dict(T.A("a"), fq=1)          # the atom a written 'a'
    qb = dict(T.A("b"), fq=1)
    alike = [(T.I(n), T.F(4 * n)) for n in (0, 1, 2, -1)] + [(T.A("a"), T.S("a")), (T.A("1"), T.I(1)), (T.A("a"), qa), (qb, T.A("b"))]
    for la, lb in alike:
        for p, q in ((la, lb), (lb, la), (la, la), (lb, lb)):
            pairs += [(T.Cm("g", T.V(1), p), T.Cm("g", T.A("a"), q)), (T.Cm("g", T.A("a"), p), T.Cm("g", T.V(1), q)),
                      (T.Cm("g", p, T.V(1)), T.Cm("g", q, T.V(2))), (T.Cm("f", p), T.Cm("f", q)),
                      (T.Cm("g", T.Cm("f", p), T.V(1)), T.Cm("g", T.Cm("f", q), T.A("b"))),
                      (T.Cm("g", T.Cm("g", T.V(1), p), T.A("b")), T.Cm("g", T.Cm("g", T.A("a"), q), T.V(2))),
                      (T.L([p, T.V(1)]), T.L([q], T.V(2))), (T.L([T.V(1), p]), T.L([T.A("c"), q]))]
    while len(pairs) < n:
        r = rng.random()
        if r < 0.35:
            x, y = rng.choice(U1), rng.choice(U1)
        elif r < 0.75:
            x = rng.choice(U2)
            y = mutate(x, rng, pool)
        else:
            x, y = rng.choice(U2), rng.choice(U2)
        if T.size(x) + T.size(y) > 24:
            continue
        k = json.dumps([x, y], sort_keys=True)
        if k in seen:
            continue
        seen.add(k)
        pairs.append((x, y))
    return pairs


def run(ctx):
    pairs = gen_pairs(ctx, ctx.pick(2500, 40000))
    cases = []
    for i, (x, y) in enumerate(pairs):
        yh = T.rename(y, 100)       # clause heads have their own variables
        cases.append({"id": i, "kind": "unify", "x": T.render(x), "y": T.render(y), "yh": T.render(yh)})
    chunk = 50
    jobs = [("term_cases", {"cases": cases[i:i + chunk]}) for i in range(0, len(cases), chunk)]
    res = pl.run_jobs(jobs, nproc=ctx.nproc, timeout=300, chunksize=1)
    outs = {}
    for r in res:
        if r.get("error"):
            raise tlc.MachineryError("term_cases failed: %s" % r)
        for o in r["results"]:
            outs[o["id"]] = o
    send = []
    for i, (x, y) in enumerate(pairs):
        o = outs[i]
        ctx.evaluations += 1
        if o.get("crash"):
            ctx.violation({"clause": "crash", "error": o.get("error", ""), "site": o.get("site", "")},
                          "%s = %s : %s" % (T.render(x), T.render(y), o["crash"]), {"x": x, "y": y})
            continue
        send.append({"id": i, "kind": "unify", "x": T.unquote(x), "y": T.unquote(y), "yh": T.unquote(T.rename(y, 100)), "eq": o["eq"], "neq": o["neq"],
                     "head": o["head"], "head2": o["head2"], "head3": o["head3"]})
    J = tlc.judge_batch("JudgeTerms", send, nproc=ctx.nproc, tag="c14")
    nunif = 0
    for c in send:
        j = J[c["id"]]
        if c["eq"]["ok"] == 1:
            nunif += 1
        if not j["ok"]:
            x, y = pairs[c["id"]]
            ctx.violation({"clause": j["why"], "numeric_atom": bool(numeric_atoms(x) | numeric_atoms(y)),
                           "quoted_atom": T.has_forced_quote(x) or T.has_forced_quote(y)},
                          "%s  vs  %s : %s (=: %s, \\=: %s, head: %s)" % (
                T.render(x), T.render(y), j["why"], c["eq"]["ok"], c["neq"]["ok"], c["head"]["ok"]), {"x": x, "y": y})
    for c in send[:3]:
        ctx.sample({"x": T.render(pairs[c["id"]][0]), "y": T.render(pairs[c["id"]][1]), "eq": c["eq"]["ok"],
                    "neq": c["neq"]["ok"], "head": c["head"]["ok"]})
    ctx.write_evidence("exploration", {
        "evaluations": ctx.evaluations, "distinct_nontrivial": nunif,
        "rule": "term pairs over atoms, quoted atoms, ints, floats, strings, f/1, g/2, lists, 3 variables (depth <= 2): "
                "universe pairs + mutated copies + occurs-check shapes; each pair run as X = Y, X \\= Y, call vs fact "
                "head, call vs rule head; non-trivial = pairs that unify",
        "pairs": len(pairs), "unifiable_pairs": nunif,
    }, assumptions=["reference: Robinson unification with occurs check, TermAlgebra.tla (TLC)",
                    "bindings compared up to variable renaming (Variant)"])


def replay(ctx, path):
    with open(path) as f:
        d = json.load(f)
    x, y = d["case"]["x"], d["case"]["y"]
    r = pl.run_local("term_cases", cases=[{"id": 0, "kind": "unify", "x": T.render(x), "y": T.render(y),
                                           "yh": T.render(T.rename(y, 100))}])
    o = r["results"][0]
    print(T.render(x), "  vs  ", T.render(y), json.dumps(o)[:1500])
    ctx.evaluations = 1
    if o.get("crash"):
        ctx.violation({"clause": "crash", "error": o.get("error", ""), "site": o.get("site", "")}, o["crash"], d["case"])
    else:
        j = tlc.judge_batch("JudgeTerms", [{"id": 0, "kind": "unify", "x": T.unquote(x), "y": T.unquote(y), "yh": T.unquote(T.rename(y, 100)),
                                            "eq": o["eq"], "neq": o["neq"], "head": o["head"], "head2": o["head2"],
                                            "head3": o["head3"]}], nproc=1)[0]
        print(j)
        if not j["ok"]:
            ctx.violation({"clause": j["why"], "numeric_atom": bool(numeric_atoms(x) | numeric_atoms(y)),
                           "quoted_atom": T.has_forced_quote(x) or T.has_forced_quote(y)}, j["why"], d["case"])
    ctx.write_evidence("exploration", {"evaluations": 1, "distinct_nontrivial": 0, "rule": "replay", "samples": [d["case"]]})

"""C26 - subquery/2,3 computes the same probabilities as top-level inference (judged by Semantics.tla)."""
import copy
import json
import re

from .. import pl, progs, semcheck
from ..core import close
from . import common


def wrapper_text(p, with_evidence):
    q = copy.deepcopy(p)
    q.pop("order", None)
    queries = q["queries"]
    ev = q["evidence"]
    q["queries"] = []
    q["evidence"] = []
    t = progs.render(q)
    lines = []
    for i, a in enumerate(queries):
        goal = progs.r_atom(a)
        vs = progs.atom_vars(a)
        head_args = ",".join(vs + ["P"])
        if with_evidence and ev:
            evl = ",".join((progs.r_atom(e["atom"]) if e["s"] == 1 else "\\+" + progs.r_atom(e["atom"])) for e in ev)
            lines.append("sq%d(%s) :- subquery(%s, P, [%s])." % (i, head_args, goal, evl))
        else:
            lines.append("sq%d(%s) :- subquery(%s, P)." % (i, head_args, goal))
        lines.append("query(sq%d(%s))." % (i, ",".join(["_"] * (len(vs) + 1))))
    return t + "\n".join(lines) + "\n"


def run(ctx):
    base = semcheck.gen_programs(ctx.seed * 7919 + 261, ctx.pick(120, 1500), "strat", p_edge=True)
    P = []          # programs as judged by TLC
    texts = []
    kinds = []
    for p in base:
        p0 = copy.deepcopy(p)
        p0["evidence"] = []
        P.append(p0)
        texts.append(wrapper_text(p, False))
        kinds.append("subquery/2")
        if p["evidence"]:
            P.append(copy.deepcopy(p))
            texts.append(wrapper_text(p, True))
            kinds.append("subquery/3")
    J = semcheck.judge(P, nproc=ctx.nproc)
    runs = pl.run_jobs([("prob", {"text": t}) for t in texts], nproc=ctx.nproc, timeout=60)
    nontriv = 0
    for p, j, r, t, kind in zip(P, J, runs, texts, kinds):
        ctx.evaluations += 1
        sig0 = {"variant": kind}
        sig0.update(semcheck.triggers(p))
        case = {"kind": "sem", "program": p, "variant": kind, "kwargs": {"text": t}, "run": r}
        if r.get("inconclusive"):
            ctx.inconclusive += 1
            continue
        if not j["mustAnswer"] or j["undefPreds"]:
            continue
        if r.get("error"):
            mro = r.get("mro", [])
            if "InconsistentEvidenceError" in mro and j["den"] == 0:
                continue
            cl = "negative-cycle-on-stratified" if "NegativeCycle" in mro else (
                "crash" if not r.get("problog_error") else "wrong-error")
            sig = dict(sig0, clause=cl, error=r["error"],
                       site=r.get("site", ""), chain=r.get("chain", ""))
            ctx.violation(sig, "[%s] %s: %s\n%s" % (kind, r["error"], r.get("msg"), t), case)
            continue
        if j["den"] == 0:
            continue          # subquery with impossible evidence: behaviour not specified by the property
        exp = semcheck.expected_table(j)
        got = {}
        for name, val in r["answers"].items():
            m = re.match(r"^sq(\d+)\((.*)\)$", name)
            if not m or val < 0.5:
                continue
            args = m.group(2).split(",")
            try:
                pv = float(args[-1])
            except ValueError:
                continue      # non-ground probability argument: no answer
            a = p["queries"][int(m.group(1))]
            inst = []
            k = 0
            for term in a["a"]:
                if term["k"] == "c":
                    inst.append(term["v"])
            # rebuild the instance: variables of the query are the leading wrapper arguments, in order of first occurrence
            vs = progs.atom_vars(a)
            binding = dict(zip(vs, args[:-1]))
            gname = progs.r_ground(a["f"], [binding.get(term["v"], term["v"]) if term["k"] == "v" else term["v"] for term in a["a"]])
            got.setdefault(gname, []).append(pv)
        nontriv += 1 if len(exp) > 0 else 0
        for name, num in exp.items():
            if name in got:
                for pv in got[name]:
                    if not close(pv, num, j["den"], 1e-8):
                        ctx.violation(dict(sig0, clause="subquery-prob"),
                                      "[%s] %s: subquery bound P = %r, expected %d/%d\n%s" % (kind, name, pv, num, j["den"], t), case)
            elif num != 0:
                ctx.violation(dict(sig0, clause="subquery-missing-answer"),
                              "[%s] %s has probability %d/%d but subquery returned no answer for it\n%s" % (kind, name, num, j["den"], t), case)
        for name in got:
            if name not in exp and any(abs(pv) > 1e-9 for pv in got[name]):
                ctx.violation(dict(sig0, clause="subquery-spurious-answer"), "[%s] %s returned by subquery\n%s" % (kind, name, t), case)
        if len(ctx.samples) < 2:
            ctx.sample({"text": t, "tlc_expected": j["expected"], "tlc_den": j["den"], "impl": r["answers"]})
    nontriv += combined(ctx, base)
    ctx.write_evidence("exploration", {
        "evaluations": ctx.evaluations, "distinct_nontrivial": nontriv,
        "rule": "generated programs (C01 fragment); every query becomes a deterministic wrapper rule calling subquery/2, and "
                "subquery/3 with the program's evidence as the evidence list; additionally both kinds of wrapper in ONE program, in either "
                "query order (one subquery must not see the evidence or queries of another); non-trivial = program with >= 1 judged instance",
        "programs": len(P)}, assumptions=["subquery with an impossible evidence list is not judged"])


def combined(ctx, base):
    """subquery/3 (with evidence) and subquery/2 wrappers for the same goals in one program, in both query orders"""
    todo = []
    for p in base:
        if not p["evidence"] or not p["queries"]:
            continue
        ground_q = [a for a in p["queries"] if not progs.atom_vars(a)]
        if not ground_q:
            continue
        q = copy.deepcopy(p)
        q.pop("order", None)
        q["queries"], q["evidence"] = [], []
        t = progs.render(q)
        evl = ",".join((progs.r_atom(e["atom"]) if e["s"] == 1 else "\\+" + progs.r_atom(e["atom"])) for e in p["evidence"])
        rules, qc, qp = [], [], []
        for i, a in enumerate(ground_q):
            rules.append("cq%d(P) :- subquery(%s, P, [%s])." % (i, progs.r_atom(a), evl))
            rules.append("pq%d(P) :- subquery(%s, P)." % (i, progs.r_atom(a)))
            qc.append("query(cq%d(_))." % i)
            qp.append("query(pq%d(_))." % i)
        for order, ql in (("cond-first", qc + qp), ("plain-first", qp + qc)):
            todo.append((p, ground_q, order, t + "\n".join(rules + ql) + "\n"))
    if not todo:
        return 0
    plain = []
    for p, gq, order, t in todo:
        p0 = copy.deepcopy(p)
        p0["evidence"] = []
        plain.append(p0)
    JC = semcheck.judge([p for p, _, _, _ in todo], nproc=ctx.nproc)
    JP = semcheck.judge(plain, nproc=ctx.nproc)
    runs = pl.run_jobs([("prob", {"text": t}) for _, _, _, t in todo], nproc=ctx.nproc, timeout=60)
    n = 0
    for (p, gq, order, t), jc, jp, r in zip(todo, JC, JP, runs):
        ctx.evaluations += 1
        if r.get("inconclusive") or r.get("error"):
            continue            # errors are reported by the single-wrapper runs above
        if not jc["mustAnswer"] or jc["undefPreds"] or jc["den"] == 0 or not jp["mustAnswer"]:
            continue
        n += 1
        ec, ep = semcheck.expected_table(jc), semcheck.expected_table(jp)
        sig0 = {"variant": "combined:" + order}
        sig0.update(semcheck.triggers(p))
        case = {"kind": "sem", "program": p, "variant": "combined:" + order, "kwargs": {"text": t}, "run": r}
        for name, val in r["answers"].items():
            m = re.match(r"^([cp])q(\d+)\((.*)\)$", name)
            if not m or val < 0.5:
                continue
            try:
                pv = float(m.group(3))
            except ValueError:
                continue
            a = gq[int(m.group(2))]
            gname = progs.r_ground(a["f"], [x["v"] for x in a["a"]])
            exp, den, what = (ec, jc["den"], "subquery/3") if m.group(1) == "c" else (ep, jp["den"], "subquery/2")
            if gname in exp and not close(pv, exp[gname], den, 1e-8):
                ctx.violation(dict(sig0, clause="subquery-prob"),
                              "[%s in a program that also calls the other kind, %s] %s: bound P = %r, expected %d/%d\n%s" % (
                                  what, order, gname, pv, exp[gname], den, t), case)
    return n


def replay(ctx, path):
    common.sem_replay(ctx, path)

"""C03 - grounding result independent of the order sibling goals are explored (default, buffered engine).

Every all-'e' batch pushed on the message stack is permuted (seeded) through the documented
init_message_stack extension point; each permuted run is judged by Semantics.tla (Layer A) and compared
with the unpermuted run."""
from .. import progs, semcheck
from . import common


def run(ctx):
    k = ctx.pick(6, 16)
    P = semcheck.gen_programs(ctx.seed * 7919 + 21, ctx.pick(120, 1500), "strat", p_edge=True)
    P += semcheck.gen_programs(ctx.seed * 7919 + 22, ctx.pick(40, 500), "negloop")
    P += common.family_small(ctx.pick(80, 1500), ctx.seed + 2000)
    P += common.cyclic_family(ctx.pick(150, 2500), ctx.seed + 2050, evidence=0.2, undefined=0.3)

    def variants(p):
        t = progs.render(p)
        vs = [("default", {"text": t})]
        for s in range(k):
            vs.append(("sched#%d" % s, {"text": t, "engine": "sched:%d" % (ctx.seed * 1000 + s)}))
        return vs

    def post(P_, J, runs):
        ctx.cov["relational"] = common.relational(ctx, P_, J, runs, clause="schedule-dependent")

    J, runs, cov = common.sem_check(ctx, P, variants, level="exploration", post=post, write=False)
    cov["schedules_per_program"] = k
    cov["relational_comparisons"] = ctx.cov.get("relational", 0)
    ctx.write_evidence("exploration", cov, assumptions=[
        "schedule control: MessageFIFO subclass returned from StackBasedEngine.init_message_stack() permutes each "
        "batch of sibling 'e' messages (no source hook)"])


def replay(ctx, path):
    common.sem_replay(ctx, path)

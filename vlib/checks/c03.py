"""C03 - grounding result independent of the order sibling goals are explored (default, buffered engine).

Every all-'e' batch pushed on the message stack is permuted (seeded) through the documented
init_message_stack extension point; each permuted run is judged by Semantics.tla (Layer A) and compared
with the unpermuted run.

Layer B: spec/Engine.tla (stage 1: acyclic propositional programs, buffered mode) models the engine's main loop message by
message; TLC checks ResultCorrect / TableSound for every program of the family, every query sequence and EVERY order of
every sibling batch.  Every terminal behaviour TLC explored is replayed on the real engine with the same schedule and
compared message by message (kind, predicate, pointer, result node, is_last), key by key, node table by node table.  A
difference is drift; the recorded real result is then judged by Layer A (JudgeEngine.tla)."""
import json

from .. import enginemodel, pl, progs, semcheck, tlc
from . import common


def engine_model(ctx, cov):
    fams = ["small", "cyc", "cycneg", "negloop", "nested", "multirec"] if ctx.tier == "quick" else \
        ["small", "cyc", "cycneg", "negloop", "nested", "multirec", "fam3", "big"]
    # configurations that MUST produce a counterexample: the engine before the two repairs (KF4, KF1), the known finding KF2
    # in model form, and the naive KF2 repair that TLC refuted (NoDanglingMessages)
    fail = ["Engine_prefix_tablehit.cfg", "Engine_kf2.cfg", "Engine_kf42.cfg"] + \
        ([] if ctx.tier == "quick" else ["Engine_prefix_falseresult.cfg", "Engine_kf2_linkstop.cfg"])
    ecov, diffs, H = enginemodel.replay(ctx, ["Engine_%s.cfg" % f for f in fams], ["Engine_%s_export.cfg" % f for f in fams + ["kf2"]],
                                        expect_fail=fail, timeout=ctx.pick(1800, 9000))
    cov.update(ecov)
    cov["traces_validated_against_impl"] = ecov["spec_behaviours_replayed_on_impl"]
    if diffs:
        cases = []
        for i, (h, o, d) in enumerate(diffs):
            if i < 3:
                print("DRIFT property=C03 Engine.tla and StackBasedEngine disagree on\n%squeries %s schedule %s: %s" % (
                    enginemodel.text_of(h["prog"]), h["queries"], h["sched"], d))
            if o.get("crash") and not (o.get("error") == "NegativeCycle" and h.get("err") == "NegativeCycle"):
                ctx.violation({"clause": "crash" if o.get("error") != "NegativeCycle" else "negative-cycle-on-stratified",
                               "error": o.get("error", ""), "site": o.get("site", ""), "level": "engine-model"},
                              "%squeries %s schedule %s: %s" % (enginemodel.text_of(h["prog"]), h["queries"], h["sched"], d),
                              {"engine_case": {"prog": h["prog"], "queries": h["queries"], "sched": h["sched"]}})
                continue
            # atom identities of the real formula are database node ids: rename them to the fact names in order of first use
            facts = [c["h"] for c in h["prog"] if c["f"]]
            seen = []
            for m in o["log"]:
                if m["t"] == "e" and m["k"] == "fact" and m["p"] not in seen:
                    seen.append(m["p"])
            nodes, k = [], 0
            for n in o["nodes"]:
                n = dict(n)
                if n["t"] == "atom":
                    n["id"] = seen[k] if k < len(seen) else "?"
                    k += 1
                nodes.append(n)
            cases.append({"id": len(cases), "prog": h["prog"], "queries": h["queries"],
                          "results": [r["key"] for r in o["results"]], "nodes": nodes, "_i": i})
        J = tlc.judge_batch("JudgeEngine", [{k: v for k, v in c.items() if k != "_i"} for c in cases], nproc=ctx.nproc, tag="c03e")
        for c in cases:
            j = J[c["id"]]
            h, o, d = diffs[c["_i"]]
            if not j["ok"]:
                ctx.violation({"clause": "engine-result-wrong-under-schedule", "level": "engine-model"},
                              "%squeries %s schedule %s: the key given to %s does not mean the atom in world %s (%s)" % (
                                  enginemodel.text_of(h["prog"]), h["queries"], h["sched"], j["q"], j["world"], d),
                              {"engine_case": {"prog": h["prog"], "queries": h["queries"], "sched": h["sched"]}})
    ctx.sample({"engine_behaviour": {"program": enginemodel.text_of(H[len(H) // 2]["prog"]), "queries": H[len(H) // 2]["queries"],
                                     "schedule": H[len(H) // 2]["sched"], "messages": len(H[len(H) // 2]["log"])}})


def run(ctx):
    ecov = {}
    engine_model(ctx, ecov)
    k = ctx.pick(6, 16)
    P = semcheck.gen_programs(ctx.seed * 7919 + 21, ctx.pick(120, 1500), "strat", p_edge=True)
    P += semcheck.gen_programs(ctx.seed * 7919 + 22, ctx.pick(40, 500), "negloop")
    P += common.family_small(ctx.pick(80, 1500), ctx.seed + 2000)
    P += common.multirec_family(ctx.pick(60, 800), ctx.seed + 2100)
    P += common.cyclic_family(ctx.pick(150, 2500), ctx.seed + 2050, evidence=0.2, undefined=0.3)

    def variants(p):
        t = progs.render(p)
        vs = [("default", {"text": t})]
        for s in range(k):
            vs.append(("sched#%d" % s, {"text": t, "engine": "sched:%d" % (ctx.seed * 1000 + s)}))
        return vs

    def post(P_, J, runs):
        ctx.cov["relational"] = common.relational(ctx, P_, J, runs, clause="schedule-dependent")

    J, runs, cov = common.sem_check(ctx, P, variants, level="exploration", post=post, write=False)
    cov["schedules_per_program"] = k
    cov["relational_comparisons"] = ctx.cov.get("relational", 0)
    cov.update(ecov)
    ctx.write_evidence("model_checking", cov, assumptions=[
        "Engine.tla covers acyclic propositional programs in buffered mode (stage 1); cyclic, non-ground and AD programs are "
        "covered by the Layer-A judgement of real runs under seeded permutations only",
        "schedule control: MessageFIFO subclass returned from StackBasedEngine.init_message_stack() permutes each "
        "batch of sibling 'e' messages (no source hook)"])


def replay(ctx, path):
    with open(path) as f:
        d = json.load(f)
    if "engine_case" in d.get("case", {}):
        c = d["case"]["engine_case"]
        print(enginemodel.text_of(c["prog"]), c["queries"], c["sched"])
        print(json.dumps(pl.run_local("engine_trace", text=enginemodel.text_of(c["prog"]), queries=c["queries"], schedule=c["sched"]))[:3000])
        ctx.evaluations = 1
        ctx.write_evidence("exploration", {"evaluations": 1, "distinct_nontrivial": 0, "rule": "replay (prints)", "samples": [c]})
        return
    common.sem_replay(ctx, path)

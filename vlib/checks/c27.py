"""C27 - user errors surface as ProbLog errors, never as crashes.

Spec-guided generation: the argument SHAPE classes come from the term algebra of TermAlgebra.tla (variable, atom, integer,
negative integer, float, string, proper list, partial list, compound, callable goal, undefined goal); every builtin the
engine registers (list read from the engine at run time) is called with shape vectors; plus malformed programs (single-token
mutations of valid programs), undefined predicates, non-ground probabilistic clauses and invalid probabilities.  Verdict:
the outcome is a result or an instance of ProbLogError; any other exception is a violation (signature = builtin /
mutation kind + exception class + raise site)."""
import itertools
import json
import random
import re

from .. import pl, progs, semcheck, tlc

SHAPES = {
    "var": "X", "anon": "_", "atom": "a", "int": "1", "negint": "-1", "zero": "0", "float": "1.5", "string": "\"s\"",
    "list": "[a,b]", "emptylist": "[]", "partial": "[a|T]", "compound": "f(a,Y)", "goal": "true", "undefgoal": "zzz(1)",
    "numlist": "[1,2]", "pair": "(a,b)", "nested": "g(f([1]),\"s\")",
}
SKIP = re.compile(r"^(write|writeln|writenl|debugprint|nl|consult|_consult|use_module|_use_module|dbg_printdb|trace|notrace|"
                  r"cmd_args|print_state|error|module)/")


def run(ctx):
    rng = random.Random(ctx.seed + 2727)
    sigs = pl.run_local("builtin_signatures")["sigs"]
    texts = []
    meta = {}

    def add(kind, what, text):
        i = len(texts)
        texts.append({"id": i, "text": text})
        meta[i] = (kind, what)
    names = list(SHAPES)
    for s in sigs:
        if SKIP.match(s):
            continue
        name, ar = s.rsplit("/", 1)
        ar = int(ar)
        if ar > 4:
            continue
        if not re.match(r"^[a-z_][A-Za-z0-9_]*$", name):
            fn = "'%s'" % name if not re.match(r"^[=<>\\@:.]+$|^=\.\.$|^is$", name) else name
        else:
            fn = name
        if ar == 0:
            combos = [()]
        elif ar <= 2:
            combos = list(itertools.product(names, repeat=ar))
            if ar == 2 and ctx.quick:
                combos = rng.sample(combos, 90)
        else:
            combos = [tuple(rng.choice(names) for _ in range(ar)) for _ in range(ctx.pick(40, 300))]
        for cb in combos:
            args = [SHAPES[x] for x in cb]
            if ar == 2 and not re.match(r"^[a-z_']", fn):
                call = "(%s %s %s)" % (args[0], fn, args[1])
            elif ar == 0:
                call = fn
            else:
                call = "%s(%s)" % (fn if re.match(r"^[a-z_']", fn) else "'%s'" % name, ",".join(args))
            add("builtin", "%s:%s" % (s, "+".join(cb)), "t :- %s.\nquery(t).\n" % call)
    # malformed programs: single-token mutations of generated valid programs
    base = semcheck.gen_programs(ctx.seed * 7919 + 271, ctx.pick(60, 500), "strat")
    tok = re.compile(r"\s*([A-Za-z_][A-Za-z0-9_]*|\d+\.\d+|\d+|::|:-|\\\+|[()\[\],.;|]|\S)")
    junk = ["(", ")", "[", "]", ",", ".", ":-", "::", "\\+", ";", "|", "'", "\"", "0.5", "X", "a", "=", "is", "1.1::", "-",
            "0x", "0xg", "1e", "0'", "()", "(,)", "[|]", "{}", "<-", "\\"]
    for p in base:
        t = progs.render(p)
        toks = tok.findall(t)
        for _ in range(ctx.pick(8, 25)):
            k = rng.randrange(len(toks))
            kind = rng.choice(["delete", "duplicate", "swap", "insert", "replace"])
            tt = list(toks)
            if kind == "delete":
                del tt[k]
            elif kind == "duplicate":
                tt.insert(k, tt[k])
            elif kind == "swap" and k + 1 < len(tt):
                tt[k], tt[k + 1] = tt[k + 1], tt[k]
            elif kind == "insert":
                tt.insert(k, rng.choice(junk))
            else:
                tt[k] = rng.choice(junk)
            txt = " ".join(tt).replace(" .", ".").replace(". ", ".\n")
            add("mutation", kind, txt)
    # targeted user errors
    for t in ["0.5::p(X). query(p(a)). query(p(Y)).", "0.5::p(X) :- q(X). q(_). query(p(a)).", "p :- undefined_pred. query(p).",
              "1.5::a. query(a).", "a::b. query(b).", "0.5::a; 0.7::b. query(a). query(b).", "query(X).", "query(1).",
              "evidence(a). query(a).", "a :- b, . query(a).", "query(a)", ":- foo.", "p(X) :- X is foo + 1. query(p(_)).",
              "p(X) :- X is 1/0. query(p(_)).", "p :- call(1). query(p).", "p :- findall(X, Y, L). query(p).",
              "p :- between(a, b, X). query(p).", "p :- X > 1. query(p).", "q :- \\+ X. query(q).",
              "0.5::a. evidence(a, maybe). query(a).", "a :- a. query(a).", "t(_)::a. query(a).", "P::a :- P = 0.3. query(a).",
              "P::a. query(a).", "a :- subquery(b, P). query(a).", "a :- subquery(b, P, c). b. query(a)."]:
        add("targeted", t[:30], t + "\n")
    # number literals in every lexical form, valid and nearly valid (hex, exponents, character codes, radix prefixes)
    LIT = ["0x1e", "0xE", "0xdeadbeef", "0xAB", "0x10", "0X1E", "0x", "0xg", "0x_1", "0x1.5", "1e", "1e5", "1.0e5", "1.5E-3", "1.e5",
           "2.5e+3", "0.5e", "1E5", "0'a", "0' ", "0b101", "0o17", "1_000", "1.2.3", "00012", ".5", "5.", "1e400",
           "123456789012345678901234567890", "1.0e-400", "-0x1e", "0xe+1", "1e5e5", "0xor 5", "0x::a"]
    for lit in LIT:
        for ctx_t in ("p(%s). query(p(_)).", "q(X) :- X = %s. query(q(_)).", "q(X) :- X is %s + 1. query(q(_)).", "%s::a. query(a).",
                      "a :- 1 < %s. query(a).", "query(%s)."):
            add("literal", lit, ctx_t % lit + "\n")
    chunk = 60
    jobs = [("run_texts", {"texts": texts[i:i + chunk], "mode": "infer"}) for i in range(0, len(texts), chunk)]
    jobs += [("run_texts", {"texts": [x for x in texts[i:i + chunk] if meta[x["id"]][0] != "builtin"], "mode": "parse"})
             for i in range(0, len(texts), chunk)]
    res = pl.run_jobs(jobs, nproc=ctx.nproc, timeout=600, chunksize=1)
    outcomes = {}
    crashes = {}
    for r in res:
        if r.get("error"):
            if r.get("inconclusive"):
                ctx.inconclusive += 1
                continue
            raise tlc.MachineryError("run_texts failed: %s" % r)
        for o in r["results"]:
            ctx.evaluations += 1
            outcomes[o["outcome"]] = outcomes.get(o["outcome"], 0) + 1
            if o["outcome"] == "crash":
                kind, what = meta[o["id"]]
                target = what.split(":")[0] if kind == "builtin" else kind
                key = (target, o["error"], o["site"])
                crashes.setdefault(key, []).append((o, texts[o["id"]]["text"], what))
    for (target, err, site), lst in sorted(crashes.items()):
        o, text, what = lst[0]
        ctx.violation({"clause": "crash", "target": target, "error": err, "site": site},
                      "%s raised %s (%s) at %s - %d cases, e.g. %s\n%s" % (target, err, o.get("msg"), site, len(lst), what, text),
                      {"text": text, "target": target})
    ctx.sample({"text": texts[5]["text"], "kind": meta[5]})
    ctx.sample({"text": texts[-40]["text"], "kind": meta[len(texts) - 40]})
    ctx.write_evidence("exploration", {
        "evaluations": ctx.evaluations, "distinct_nontrivial": len(texts),
        "rule": "every registered builtin (arity <= 4, I/O and file-system builtins excluded) x argument shape vectors (all vectors for "
                "arity <= 2, sampled above); single-token mutations (delete / duplicate / swap / insert / replace) of generated valid "
                "programs, parsed and run; targeted user errors; every text is distinct and non-trivial by construction",
        "builtins": len([s for s in sigs if not SKIP.match(s)]), "outcomes": outcomes, "distinct_crash_signatures": len(crashes)},
        assumptions=["totality over ALL strings is approximated by this structured bounded set",
                     "RecursionError / time-outs are inconclusive, not violations"])


def replay(ctx, path):
    with open(path) as f:
        d = json.load(f)
    t = d["case"]["text"]
    print(t)
    print(pl.run_local("run_texts", texts=[{"id": 0, "text": t}], mode="infer"))
    ctx.evaluations = 1
    ctx.write_evidence("exploration", {"evaluations": 1, "distinct_nontrivial": 0, "rule": "replay", "samples": [t]})

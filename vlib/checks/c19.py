"""C19 - findall/3 and all/3 in probabilistic programs follow the possible-world semantics (JudgeFindall.tla)."""
import json
import random

from .. import pl, tlc
from .. import terms as T
from ..core import close
from .c13 import r_clause

CONST = [T.A("a"), T.A("b"), T.A("c")]


def gen_case(rng):
    den = 10
    clauses, choices, text, pairs = [], [], [], []

    def add_clause(h, b, c=0, v=0, ptxt=None):
        clauses.append({"h": h, "b": b, "c": c, "v": v})
        line = r_clause({"h": h, "b": b})
        text.append((ptxt + "::" + line) if ptxt else line)
        pairs.append((clauses[-1], text[-1]))
    # probabilistic facts g/1 (ground), possibly the same atom twice, and deterministic e/1
    for _ in range(rng.randint(2, 4)):
        p = rng.randint(1, 9)
        choices.append([p])
        add_clause(T.Cm("g", rng.choice(CONST)), [], len(choices), 1, "0.%d" % p)
    ne = 0
    for cst in CONST:
        if rng.random() < 0.6 or (cst is CONST[-1] and ne == 0):
            add_clause(T.Cm("e", cst), [])
            ne += 1
    # a ground AD
    if rng.random() < 0.5:
        k = rng.randint(2, 3)
        nums = []
        rem = 10
        for i in range(k):
            v = rng.randint(1, max(1, rem - (k - i - 1)))
            v = min(v, 5)
            rem -= v
            nums.append(v)
        choices.append(nums)
        heads = rng.sample(CONST, k)
        for i, (hc, nv) in enumerate(zip(heads, nums)):
            clauses.append({"h": T.Cm("m", hc), "b": [], "c": len(choices), "v": i + 1})
        text.append("; ".join("0.%d::%s" % (nv, T.render(T.Cm("m", hc))) for hc, nv in zip(heads, nums)) + ".")
    preds = ["g", "e"] + (["m"] if any(c["h"]["c"] == T.codes("m") for c in clauses) else [])
    # non-recursive rules h/1
    for _ in range(rng.randint(0, 2)):
        b = [{"k": "call", "t": T.Cm(rng.choice(preds), T.V(1))}]
        if rng.random() < 0.5:
            g2 = {"k": "call", "t": T.Cm(rng.choice(preds), T.V(1))}
            b.append(g2 if rng.random() < 0.7 else {"k": "not", "g": [g2]})
        add_clause(T.Cm("h", T.V(1)), b)
    if any(c["h"]["c"] == T.codes("h") for c in clauses):
        preds.append("h")
        # the same clause twice: one solution reached twice through the identical proof
        if rng.random() < 0.35:
            hc = [(c, t) for c, t in pairs if c["h"]["c"] == T.codes("h")]
            c0, t0 = rng.choice(hc)
            clauses.append(json.loads(json.dumps(c0)))
            text.append(t0)
    # a second layer: a derived goal negated on its own in one solution and used positively inside another negated derived
    # goal (the same compound node with both polarities inside one findall)
    if "h" in preds and rng.random() < 0.5:
        call = lambda f: {"k": "call", "t": T.Cm(f, T.V(1))}
        add_clause(T.Cm("k", T.V(1)), [call("h"), call(rng.choice(["g", "e"] + (["m"] if "m" in preds else [])))])
        dom = call("e")
        js = [[dom, {"k": "not", "g": [call("h")]}], [dom, {"k": "not", "g": [call("k")]}], [call("k")], [dom, {"k": "not", "g": [call("h"), call("g")]}]]
        rng.shuffle(js)
        for b in js[:rng.randint(2, 3)]:
            add_clause(T.Cm("j", T.V(1)), b)
        preds += ["k", "j", "j", "j"]
    goal = [{"k": "call", "t": T.Cm(rng.choice(preds), T.V(2))}]
    if rng.random() < 0.3:
        goal.append({"k": "call", "t": T.Cm(rng.choice(preds), T.V(2))})
    kind = "all" if rng.random() < 0.35 else "findall"
    tmpl = T.V(2) if rng.random() < 0.8 else T.Cm("f", T.V(2))
    add_clause(T.Cm("w", T.V(9)), [{"k": kind, "tmpl": tmpl, "g": goal, "res": T.V(9)}])
    extra = ""
    if rng.random() < 0.5:
        # the same call with the result argument bound to a list PATTERN (variables inside): judged from the same distribution
        call = T.render({"t": "c", "c": T.codes("w"), "a": []}) if False else None
        body = text[-1].split(":-", 1)[1].strip().rstrip(".")
        inner = body[:body.rindex(",")]                      # "<kind>(Tmpl, Goal"  - the result variable is the last argument
        extra = "wp(A,B) :- %s, [A,B]).\nwq(A,R) :- %s, [A|R]).\nquery(wp(_,_)).\nquery(wq(_,_)).\n" % (inner, inner)
    return {"clauses": clauses, "choices": choices, "den": den, "q": T.Cm("w", T.V(1)), "kind": kind, "patterns": bool(extra),
            "text": "\n".join(text) + "\nquery(w(_)).\n" + extra}


def run(ctx):
    rng = random.Random(ctx.seed + 1919)
    cases = []
    seen = set()
    while len(cases) < ctx.pick(260, 3500):
        c = gen_case(rng)
        if c["text"] in seen:
            continue
        seen.add(c["text"])
        c["id"] = len(cases)
        cases.append(c)
    J = tlc.judge_batch("JudgeFindall", [{k: c[k] for k in ("id", "clauses", "choices", "den", "q")} for c in cases],
                        nproc=ctx.nproc, tag="c19")
    runs = pl.run_jobs([("prob_terms", {"text": c["text"]}) for c in cases], nproc=ctx.nproc, timeout=ctx.pick(25, 120))
    nontriv = 0
    for c, r in zip(cases, runs):
        ctx.evaluations += 1
        j = J[c["id"]]
        sig0 = {"kind": c["kind"]}
        if j["ovf"]:
            continue
        if r.get("error"):
            if r.get("inconclusive"):
                ctx.inconclusive += 1
                continue
            ctx.violation(dict(sig0, clause="crash" if not r.get("problog_error") else "wrong-error", error=r["error"],
                               site=r.get("site", ""), chain=r.get("chain", "")),
                          "%s: %s\n%s" % (r["error"], r.get("msg"), c["text"]), {"case": c})
            continue
        exp = {T.render(e["ans"]): e["num"] for e in j["expected"] if e["num"] > 0}
        got, gotp = {}, {}
        for t, p in r["answers"]:
            if p > 1e-12 and not T.vars_of(t):
                if T.txt(t["c"]) == "w":
                    got[T.render(t)] = p
                else:
                    gotp[T.render(t)] = p
        r = dict(r, answers=[(t, p) for t, p in r["answers"] if T.txt(t["c"]) == "w"])
        if len(exp) > 2:
            nontriv += 1

        def elems_of(t):
            out, x = [], t["a"][0]
            while x["t"] == "c" and len(x["a"]) == 2:
                out.append(T.render(x["a"][0]))
                x = x["a"][1]
            return out

        def dist(pairs, key):
            d = {}
            for t, w in pairs:
                k = key(elems_of(t))
                d[k] = d.get(k, 0) + w
            return d

        def same(dg, de):
            return set(dg) == set(de) and all(close(dg[k], v, j["total"], 1e-9) for k, v in de.items())
        gp = [(t, pv) for t, pv in r["answers"] if pv > 1e-12 and not T.vars_of(t)]
        ep = [(e["ans"], e["num"]) for e in j["expected"] if e["num"] > 0]
        strict_ok = same(got, exp)
        if not strict_ok and same(dist(gp, lambda l: tuple(sorted(l))), dist(ep, lambda l: tuple(sorted(l)))):
            ctx.violation(dict(sig0, clause="findall-order", mode="seq"),
                          "right distribution over solution multisets, but the element order inside the lists is not Prolog's: "
                          "implementation %s, Prolog distribution %s\n%s" % (got, exp, c["text"]), {"case": c})
            continue
        if not strict_ok and same(dist(gp, lambda l: tuple(sorted(set(l)))), dist(ep, lambda l: tuple(sorted(set(l))))):
            ctx.violation(dict(sig0, clause="findall-duplicates-merged", mode="seq"),
                          "right distribution over solution SETS, but a solution that holds in several ways is listed once: "
                          "implementation %s, Prolog distribution %s\n%s" % (got, exp, c["text"]), {"case": c})
            continue
        for name, num in exp.items():
            if name not in got:
                # is it only the ORDER of the list that differs?
                cand = [g for g in got if sorted(g) == sorted(name)]
                cl = "findall-order" if cand else "list-missing"
                ctx.violation(dict(sig0, clause=cl, mode="seq"), "%s (probability %d/%d) not reported\n%s\nimplementation: %s" % (
                    name, num, j["total"], c["text"], got), {"case": c})
            elif not close(got[name], num, j["total"], 1e-9):
                ctx.violation(dict(sig0, clause="list-probability"), "%s: reported %r, exact %d/%d\n%s" % (
                    name, got[name], num, j["total"], c["text"]), {"case": c})
        for name in got:
            if name not in exp:
                cand = [e for e in exp if sorted(e) == sorted(name)]
                if not cand:
                    ctx.violation(dict(sig0, clause="list-spurious"), "%s: %r reported\n%s\nexpected %s" % (
                        name, got[name], c["text"], exp), {"case": c})
        if c.get("patterns") and strict_ok:
            # w(L) has exactly Prolog's distribution: the calls with a bound list pattern must be consistent with it
            expp = {}
            for e in j["expected"]:
                if e["num"] <= 0:
                    continue
                lst = e["ans"]["a"][0]
                if lst["t"] == "c" and len(lst["a"]) == 2:
                    h, tl = lst["a"]
                    k = "wq(%s,%s)" % (T.render(h), T.render(tl))
                    expp[k] = expp.get(k, 0) + e["num"]
                    if tl["t"] == "c" and len(tl["a"]) == 2 and tl["a"][1]["t"] == "a":
                        k = "wp(%s,%s)" % (T.render(h), T.render(tl["a"][0]))
                        expp[k] = expp.get(k, 0) + e["num"]
            for name, num in expp.items():
                if name not in gotp or not close(gotp[name], num, j["total"], 1e-9):
                    ctx.violation(dict(sig0, clause="bound-result-pattern"), "%s: reported %r, exact %d/%d (from the distribution of w(L))\n%s" % (
                        name, gotp.get(name), num, j["total"], c["text"]), {"case": c})
                    break
            for name in gotp:
                if name not in expp:
                    ctx.violation(dict(sig0, clause="bound-result-pattern"), "%s: %r reported, no result list has that shape\n%s" % (
                        name, gotp[name], c["text"]), {"case": c})
                    break
        if len(ctx.samples) < 2:
            ctx.sample({"text": c["text"], "tlc": {k: "%d/%d" % (v, j["total"]) for k, v in exp.items()}, "impl": got})
    ctx.write_evidence("exploration", {
        "evaluations": ctx.evaluations, "distinct_nontrivial": nontriv,
        "rule": "programs with 2-4 ground probabilistic facts (duplicates allowed), an optional ground AD, deterministic facts and "
                "non-recursive rules (with negation); a wrapper w(L) built by findall/3 or all/3 over one or two goals; every "
                "result list's probability compared with the exact per-world value; non-trivial = > 2 result lists"},
        assumptions=["reference: per-world SLD answers (SLD.tla) weighted by exact world weights (JudgeFindall.tla, TLC)"])


def replay(ctx, path):
    with open(path) as f:
        d = json.load(f)
    c = d["case"]["case"]
    print(c["text"])
    print(pl.run_local("prob_terms", text=c["text"]))
    print(tlc.judge_batch("JudgeFindall", [{k: c[k] for k in ("id", "clauses", "choices", "den", "q")}], nproc=1))
    ctx.evaluations = 1
    ctx.write_evidence("exploration", {"evaluations": 1, "distinct_nontrivial": 0, "rule": "replay (prints)", "samples": [c["text"]]})

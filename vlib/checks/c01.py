"""C01 - exact inference computes the distribution semantics (verdict: Semantics.tla via JudgeSem)."""
from .. import pl, progs, semcheck
from . import common


def run(ctx):
    n_strat = ctx.pick(220, 3000)
    n_loop = ctx.pick(60, 600)
    P = semcheck.gen_programs(ctx.seed * 7919 + 1, n_strat, "strat", p_edge=True)
    P += semcheck.gen_programs(ctx.seed * 7919 + 2, n_loop, "negloop")
    P += common.family_small(ctx.pick(150, 2500), ctx.seed)
    common.sem_check(ctx, P, variants=lambda p: [("default", {"text": progs.render(p)})],
                     level="exploration")


def replay(ctx, path):
    common.sem_replay(ctx, path)

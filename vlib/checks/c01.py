"""C01 - exact inference computes the distribution semantics (verdict: Semantics.tla via JudgeSem)."""
from .. import pl, progs, semcheck
from . import common


def run(ctx):
    n_strat = ctx.pick(220, 3000)
    n_loop = ctx.pick(60, 600)
    P = semcheck.gen_programs(ctx.seed * 7919 + 1, n_strat, "strat", p_edge=True)
    P += semcheck.gen_programs(ctx.seed * 7919 + 2, n_loop, "negloop")
    P += common.family_small(ctx.pick(150, 2500), ctx.seed)
    P += common.multirec_family(ctx.pick(40, 500), ctx.seed + 100)
    P += common.cyclic_family(ctx.pick(150, 2500), ctx.seed + 100)
    P += common.repvar_family(ctx.pick(80, 1000), ctx.seed + 150)
    P += common.ad_family(ctx.pick(120, 2000), ctx.seed + 200)

    def variants(p):
        t = progs.render(p)
        # 'cli': the options the command line uses by default (evidence propagation on, log space)
        return [("default", {"text": t}), ("cli", {"text": t, "gopts": {"propagate_evidence": True}, "semiring": "log"})]
    common.sem_check(ctx, P, variants=variants, level="exploration")


def replay(ctx, path):
    common.sem_replay(ctx, path)

"""C31 - Bayesian-network export preserves the distribution (JudgeBN.tla over Semantics.tla)."""
import json
from fractions import Fraction

from .. import pl, progs, semcheck, tlc
from . import common


import hashlib
import os

CORPUS_SEED = 313131
KNOWN_CASES = os.path.join(os.path.dirname(os.path.dirname(os.path.dirname(os.path.abspath(__file__)))), "tools", "c31_corpus_known.json")


def corpus():
    """A FIXED set of programs (independent of the run's seed): the bn export of the pinned tree crashes or drops / misroutes
    variables on many programs (KF25, KF26, KF36: broad signatures); on this corpus the failing programs are listed one by one
    in tools/c31_corpus_known.json, so that any OTHER program that starts to fail is reported."""
    P = semcheck.gen_programs(CORPUS_SEED, 140, "strat", evidence=False, max_worlds=128, nonground=False)
    P += common.ad_family(90, CORPUS_SEED)
    P += common.family_small(70, CORPUS_SEED)
    return P


def case_key(p):
    q = {k: v for k, v in p.items() if k != "id"}
    return hashlib.sha1(progs.canon(q).encode()).hexdigest()[:12]


def run_corpus(ctx):
    P = corpus()
    unstable = set(json.load(open(KNOWN_CASES)).get("unstable_programs", [])) if os.path.exists(KNOWN_CASES) else set()
    P = [p for p in P if case_key(p) not in unstable]
    before = ctx.evaluations
    cases, nontriv, skipped = judge_programs(ctx, P, sigx=lambda p: {"corpus": True, "corpus_case": case_key(p) + "/bn"})
    return {"programs": len(P), "judged": len(cases), "runs": ctx.evaluations - before, "excluded_unstable_programs": len(unstable)}


def judge_programs(ctx, P, sigx=None):
    """run the bn export on every program, let TLC multiply the network out, compare with the semantics; sigx(p) adds fields to
    every violation signature"""
    for p in P:
        p["evidence"] = []
    P = [p for p in P if all(not progs.atom_vars(q) for q in p["queries"])]
    J = semcheck.judge(P, nproc=ctx.nproc)
    runs = pl.run_jobs([("bn_export", {"text": progs.render(p)}) for p in P], nproc=ctx.nproc, timeout=120)
    cases, keep = [], []
    skipped = {"not_must_answer": 0, "too_large": 0, "not_tenths": 0, "grounding_error": 0}
    for i, (p, j, r) in enumerate(zip(P, J, runs)):
        ctx.evaluations += 1
        t = progs.render(p)
        sig0 = dict(semcheck.triggers(p))
        if sigx:
            sig0.update(sigx(p))
        sig0["has_ad"] = bool(p["ads"])
        adh = {h["atom"]["f"] for ad in p["ads"] for h in ad["heads"]}
        sig0["ad_head_in_conj"] = any(len(r_["body"]) >= 2 and any(l["atom"]["f"] in adh for l in r_["body"]) for r_ in p["rules"])
        if not j["valid"] or not j["mustAnswer"] or j["undefPreds"]:
            skipped["not_must_answer"] += 1
            continue
        if r.get("error"):
            if r.get("inconclusive"):
                ctx.inconclusive += 1
            elif not r.get("problog_error"):
                ctx.violation(dict(sig0, clause="crash", error=r["error"], site=r.get("site", ""), chain=r.get("chain", "")),
                              "%s: %s\n%s" % (r["error"], r.get("msg"), t), {"text": t, "program": p})
            else:
                skipped["grounding_error"] += 1
            continue
        if not r["tenths"]:
            skipped["not_tenths"] += 1
            continue
        nd = sum(1 for f in r["factors"] if f["d"] == 10)
        if nd > 8 or len(r["vars"]) > 22:
            skipped["too_large"] += 1
            continue
        qs = [{"name": progs.r_ground(q["f"], [a["v"] for a in q["a"]]), "f": q["f"], "a": [a["v"] for a in q["a"]], "tv": "1"}
              for q in p["queries"]]
        prog = {k: p[k] for k in ("consts", "facts", "ads", "rules", "queries", "evidence")}
        cases.append({"id": len(cases), "prog": prog, "vars": r["vars"], "factors": r["factors"], "queries": qs})
        keep.append((p, t, sig0, r))
    JB = tlc.judge_batch("JudgeBN", cases, nproc=ctx.nproc, tag="c31")
    nontriv = 0
    for c, (p, t, sig0, r) in zip(cases, keep):
        jb = JB[c["id"]]
        case = {"text": t, "program": p}
        if len(c["factors"]) > 4:
            nontriv += 1
        if not jb["wellFormed"]:
            ctx.violation(dict(sig0, clause="network-not-well-formed"), "a variable has no CPT or a CPT refers to an unknown parent\n%s\n%s" % (t, r["factors"]), case)
            continue
        if not jb["rowsOk"]:
            ctx.violation(dict(sig0, clause="cpt-row-not-a-distribution"), "a CPT row does not sum to one\n%s\n%s" % (t, r["factors"]), case)
            continue
        for q in jb["queries"]:
            if not q["present"]:
                # a query that is deterministically true/false may have no variable; it must then have probability 0 or 1
                if q["plNum"] not in (0, q["plDen"]):
                    ctx.violation(dict(sig0, clause="query-variable-missing"), "%s (P = %d/%d) has no variable in the network\n%s" % (
                        q["name"], q["plNum"], q["plDen"], t), case)
                continue
            if q["bnNum"] < 0:
                ctx.violation(dict(sig0, clause="network-cyclic"), "the exported network is not acyclic\n%s" % t, case)
                continue
            if Fraction(q["bnNum"], q["bnDen"]) != Fraction(q["plNum"], q["plDen"]):
                ctx.violation(dict(sig0, clause="marginal-differs"), "%s: network marginal %d/%d, ProbLog semantics %d/%d\n%s" % (
                    q["name"], q["bnNum"], q["bnDen"], q["plNum"], q["plDen"], t), case)
        if len(ctx.samples) < 2:
            ctx.sample({"text": t, "network": {"vars": c["vars"], "factors": c["factors"][:6]}, "tlc": jb})
    return cases, nontriv, skipped


def run(ctx):
    P = semcheck.gen_programs(ctx.seed * 7919 + 311, ctx.pick(120, 1500), "strat", evidence=False, max_worlds=128, nonground=False)
    P += common.ad_family(ctx.pick(100, 1200), ctx.seed + 31000)
    P += common.family_small(ctx.pick(60, 800), ctx.seed + 31100)
    # probabilistic clauses (annotated disjunctions WITH a body, one or two heads) whose annotations include the boundary values 0 and 1
    import random as _rnd
    rb = _rnd.Random(ctx.seed + 31415)
    for k in range(ctx.pick(80, 800)):
        p = progs.empty_program(("c1",))
        for f in ("d", "e"):
            p["facts"].append({"p": [rb.randint(2, 8), 10], "atom": progs.atom(f)})
        for _ in range(rb.randint(1, 2)):
            hs = rb.sample(["a", "b"], rb.randint(1, 2))
            vals = [rb.choice([0, 0, 10, 3, 5]) for _ in hs]
            if sum(vals) > 10:
                vals = [0 if i else vals[0] for i in range(len(vals))]
            body = [progs.lit(progs.atom(rb.choice(["d", "e"])), 0 if rb.random() < 0.3 else 1) for _ in range(rb.randint(1, 2))]
            p["ads"].append({"heads": [{"p": [v, 10], "atom": progs.atom(h)} for h, v in zip(hs, vals)], "body": body})
        p["queries"] = [progs.atom(h) for h in sorted({h["atom"]["f"] for ad in p["ads"] for h in ad["heads"]})]
        P.append(p)
    # one annotated disjunction reaching one exported atom through several of its outcomes: a rule head over a
    # non-ground call of the AD's heads, and an AD that repeats a head atom
    import random
    rng = random.Random(ctx.seed + 313131)
    for k in range(ctx.pick(60, 600)):
        p = progs.empty_program(("c1", "c2", "c3"))
        nh = rng.randint(2, 3)
        ws = [rng.randint(1, 3) for _ in range(nh)]
        if rng.random() < 0.5:
            heads = [{"p": [w, 10], "atom": progs.atom("p", "c%d" % (i + 1))} for i, w in enumerate(ws)]
            p["ads"].append({"heads": heads, "body": []})
            p["rules"].append({"head": progs.atom("q"), "body": [progs.lit(progs.atom("p", "X"))]})
            if rng.random() < 0.5:
                p["facts"].append({"p": [rng.randint(1, 9), 10], "atom": progs.atom("f")})
                p["rules"].append({"head": progs.atom("q"), "body": [progs.lit(progs.atom("f"))]})
                p["queries"].append(progs.atom("f"))
            if rng.random() < 0.4:
                p["rules"].append({"head": progs.atom("r"), "body": [progs.lit(progs.atom("p", "c1"))]})
                p["queries"].append(progs.atom("r"))
            p["queries"].append(progs.atom("q"))
        else:
            names = ["a", "a", "b"][:nh] if rng.random() < 0.7 else ["a", "b", "a"][:nh]
            heads = [{"p": [w, 10], "atom": progs.atom(n)} for n, w in zip(names, ws)]
            body = []
            if rng.random() < 0.4:
                p["facts"].append({"p": [rng.randint(1, 9), 10], "atom": progs.atom("f")})
                body = [progs.lit(progs.atom("f"))]
            p["ads"].append({"heads": heads, "body": body})
            p["queries"].append(progs.atom("a"))
            if "b" in names:
                p["queries"].append(progs.atom("b"))
        P.append(p)
    cases, nontriv, skipped = judge_programs(ctx, P)
    corpus_cov = run_corpus(ctx)
    ctx.write_evidence("translation_validation", {
        "programs": len(cases), "disagreements_checked": sum(len(c["queries"]) for c in cases),
        "evaluations": ctx.evaluations, "distinct_nontrivial": nontriv,
        "rule": "evidence-free generated programs (ground queries; facts, ADs with bodies, rules, stratified negation, cycles); the "
                "network's CPTs are multiplied out exactly by TLC; non-trivial = more than 4 CPTs",
        "skipped": skipped, "corpus": corpus_cov}, assumptions=["CPT entries must be multiples of 0.1 (programs use tenths); other programs are skipped and counted",
                                          "the two exact fractions (network marginal, semantics) are compared by the harness (cross "
                                          "multiplication would overflow TLC's 32-bit integers)"])


def replay(ctx, path):
    with open(path) as f:
        d = json.load(f)
    c = d["case"]
    print(c["text"])
    print(json.dumps(pl.run_local("bn_export", text=c["text"]))[:3000])
    ctx.evaluations = 1
    ctx.write_evidence("translation_validation", {"evaluations": 1, "distinct_nontrivial": 0, "samples": [c["text"]]})

"""C20 - MPE returns a most probable world consistent with the evidence (JudgeMPE.tla over Semantics.tla)."""
import copy
import json
import random

from .. import pl, progs, semcheck, tlc
from ..core import close
from ..progs import atom, lit
from . import common


def gen(n, seed):
    """facts and body-free ADs with pairwise distinct atoms, rules over them (negation of facts), evidence on rule atoms
    and on choice atoms; every choice atom is queried (so that the MPE output lists its value)"""
    rng = random.Random(seed * 4001 + 7)
    out, seen, tries = [], set(), 0
    while len(out) < n and tries < 50 * n + 100:
        tries += 1
        p = progs.empty_program(["c1"])
        names = ["a", "b", "c", "d", "e", "f", "g"]
        rng.shuffle(names)
        nf = rng.randint(1, 3)
        choice_atoms = []
        for f in names[:nf]:
            p["facts"].append({"p": [rng.randint(1, 9), 10], "atom": atom(f)})
            choice_atoms.append(f)
        rest = names[nf:]
        if rng.random() < 0.6 and len(rest) >= 2:
            k = rng.randint(2, min(3, len(rest)))
            hs = rest[:k]
            rem = 10
            heads = []
            for i, h in enumerate(hs):
                v = rng.randint(1, max(1, min(6, rem - (k - i - 1))))
                rem -= v
                heads.append({"p": [v, 10], "atom": atom(h)})
                choice_atoms.append(h)
            if rng.random() < 0.4:
                heads[-1]["p"][0] += rem
            p["ads"].append({"heads": heads, "body": []})
        der = ["q", "r", "s"][:rng.randint(1, 3)]
        for d in der:
            for _ in range(rng.randint(1, 2)):
                b = []
                for _ in range(rng.randint(1, 2)):
                    x = rng.choice(choice_atoms + der[:der.index(d)])
                    b.append(lit(atom(x), 0 if (x in choice_atoms and rng.random() < 0.3) else 1))
                p["rules"].append({"head": atom(d), "body": b})
        for c in choice_atoms:
            p["queries"].append(atom(c))
        ne = rng.randint(1, 2)
        for e in rng.sample(der + choice_atoms, min(ne, len(der + choice_atoms))):
            p["evidence"].append({"atom": atom(e), "s": 1 if rng.random() < 0.6 else 0})
        c = progs.canon(p)
        if c in seen:
            continue
        seen.add(c)
        out.append(p)
    return out


def structure(p):
    """structural class of a program for the semiring mode: which facts each atom depends on"""
    facts = {f["atom"]["f"] for f in p["facts"]} | {h["atom"]["f"] for ad in p["ads"] for h in ad["heads"]}
    sup = {f: {f} for f in facts}
    changed = True
    while changed:
        changed = False
        for r in p["rules"]:
            h = r["head"]["f"]
            s = set(sup.get(h, set()))
            for l in r["body"]:
                s |= sup.get(l["atom"]["f"], set())
            if s != sup.get(h, set()):
                sup[h] = s
                changed = True
    disjoint = True
    for r in p["rules"]:
        seen = set()
        for l in r["body"]:
            x = sup.get(l["atom"]["f"], set())
            if seen & x:
                disjoint = False
            seen |= x
    rel = set()
    for e in p["evidence"]:
        x = sup.get(e["atom"]["f"], set())
        if rel & x:
            disjoint = False          # the evidence atoms are conjoined too
        rel |= x
    return {"has_ad": bool(p["ads"]), "conj_disjoint": disjoint, "all_choices_relevant": rel == facts,
            "negation": any(l["s"] == 0 for r in p["rules"] for l in r["body"]) or any(e["s"] == 0 for e in p["evidence"])}


def gen_readonce(n, seed):
    """facts only, every fact below the evidence, conjunctions over disjoint supports, derived atoms shared between rules"""
    rng = random.Random(seed * 5003 + 11)
    out = []
    while len(out) < n:
        p = progs.empty_program(["c1"])
        positive = rng.random() < 0.7
        k = rng.randint(3, 6)
        fs = ["f%d" % i for i in range(k)]
        for f in fs:
            p["facts"].append({"p": [rng.randint(1, 9), 10], "atom": atom(f)})
        rng.shuffle(fs)
        cut = rng.randint(1, min(3, k - 1))
        dfs, rest = fs[:cut], fs[cut:]
        for f in dfs:                                   # d: a disjunction of facts (a shared compound subformula)
            p["rules"].append({"head": atom("d"), "body": [lit(atom(f), 1 if positive or rng.random() < 0.8 else 0)]})
        used = []
        for f in rest:
            if rng.random() < 0.7:
                b = [lit(atom("d")), lit(atom(f), 1 if positive or rng.random() < 0.8 else 0)]
                if rng.random() < 0.5:
                    b.reverse()
                p["rules"].append({"head": atom("e"), "body": b})
            else:
                p["rules"].append({"head": atom("e"), "body": [lit(atom(f))]})
            used.append(f)
        for f in fs:
            p["queries"].append(atom(f))
        p["evidence"].append({"atom": atom("e"), "s": 1 if positive or rng.random() < 0.8 else 0})
        out.append(p)
    return out


def gen_contradict(n, seed):
    """programs of gen() plus two evidence statements of opposite sign on the same choice atom (a fact or an AD head), in either
    order: no world satisfies the evidence, MPE must report the model as unsatisfiable (seeded defect c20-6)"""
    import copy
    rng = random.Random(seed * 4001 + 99)
    out = []
    for p in gen(n, seed + 5000):
        p = copy.deepcopy(p)
        x = rng.choice([f["atom"] for f in p["facts"]] + [h["atom"] for ad in p["ads"] for h in ad["heads"]])
        p["evidence"] = [e for e in p["evidence"] if e["atom"] != x]
        s = rng.randint(0, 1)
        pair = [{"atom": x, "s": s}, {"atom": x, "s": 1 - s}]
        if rng.random() < 0.5 or not p["evidence"]:
            p["evidence"] = p["evidence"] + pair
        else:
            p["evidence"] = [pair[0]] + p["evidence"] + [pair[1]]
        out.append(p)
    return out


def run(ctx):
    P = gen(ctx.pick(160, 2000), ctx.seed) + gen_readonce(ctx.pick(120, 1500), ctx.seed) + gen_contradict(ctx.pick(40, 500), ctx.seed)
    jobs, idx = [], []
    for i, p in enumerate(P):
        t = progs.render(p)
        for mode in (False, True):
            jobs.append(("mpe", {"text": t, "use_semiring": mode}))
            idx.append((i, mode))
    runs = pl.run_jobs(jobs, nproc=ctx.nproc, timeout=120)
    cases, keep = [], []
    for (i, mode), r in zip(idx, runs):
        p = P[i]
        ctx.evaluations += 1
        sig0 = {"mode": "semiring" if mode else "maxsat"}
        if mode:
            sig0.update(structure(p))
        case = {"program": p, "text": progs.render(p), "use_semiring": mode}
        if r.get("error"):
            if r.get("inconclusive"):
                ctx.inconclusive += 1
                continue
            if "InconsistentEvidenceError" in r.get("mro", []) or "UnsatisfiableError" in r.get("mro", []):
                r = {"unsat": True, "prob": None, "facts": []}
            else:
                ctx.violation(dict(sig0, clause="crash" if not r.get("problog_error") else "wrong-error", error=r["error"],
                                   site=r.get("site", ""), chain=r.get("chain", "")),
                              "%s: %s\n%s" % (r["error"], r.get("msg"), case["text"]), case)
                continue
        asg = []
        ok = True
        for name, v in r["facts"]:
            if "(" in name:
                ok = False
            asg.append({"f": name, "a": [], "v": v})
        q = {k: p[k] for k in ("consts", "facts", "ads", "rules", "queries", "evidence")}
        cases.append({"id": len(cases), "prog": q, "asg": asg})
        keep.append((i, mode, r, case, sig0))
    J = tlc.judge_batch("JudgeMPE", cases, nproc=ctx.nproc, tag="c20")
    nontriv = 0
    for c, (i, mode, r, case, sig0) in zip(cases, keep):
        j = J[c["id"]]
        if j["den"] > 0 and j["maxW"] < j["den"]:
            nontriv += 1
        detail = "returned %s probability %s; TLC: P(evidence)=%d/%d, most probable world %d/%d, best world consistent with the answer %d/%d\n%s" % (
            r["facts"], r["prob"], j["den"], j["total"], j["maxW"], j["total"], j["bestCons"], j["total"], case["text"])
        if r["unsat"]:
            if j["den"] > 0:
                ctx.violation(dict(sig0, clause="reported-unsatisfiable"), detail, case)
            continue
        if j["den"] == 0:
            ctx.violation(dict(sig0, clause="answered-unsatisfiable-evidence", zero_probability=(r["prob"] == 0.0)), detail, case)
            continue
        if j["bestCons"] == 0:
            ctx.violation(dict(sig0, clause="assignment-violates-evidence"), detail, case)
            continue
        # MaxSAT weights are quantised (log weights x 10^4): accept a world within that quantisation of the optimum
        if j["bestCons"] * 1000 < j["maxW"] * 999:
            ctx.violation(dict(sig0, clause="not-most-probable"), detail, case)
            continue
        if r["prob"] is not None:
            if not (close(r["prob"], j["bestCons"], j["total"], 1e-6) or close(r["prob"], j["margCons"], j["total"], 1e-6)):
                ctx.violation(dict(sig0, clause="reported-probability"), detail, case)
        if len(ctx.samples) < 2:
            ctx.sample({"text": case["text"], "mode": sig0["mode"], "impl": r, "tlc": j})
    ctx.write_evidence("exploration", {
        "evaluations": ctx.evaluations, "distinct_nontrivial": nontriv,
        "rule": "propositional programs: 1-3 probabilistic facts, an optional body-free AD (sum <= 1 or = 1) with pairwise distinct "
                "atoms, rules with negation, positive / negative evidence on derived and on choice atoms, every choice atom "
                "queried; both MPE modes; non-trivial = evidence satisfiable and the optimum is not the only world",
    }, assumptions=["the returned assignment may leave ungrounded choices open: it must be extendable to a most probable "
                    "evidence-satisfying world; the reported probability may be that world's or the assignment's marginal",
                    "MaxSAT weight quantisation: a world within 0.1% of the optimum is accepted"])


def replay(ctx, path):
    with open(path) as f:
        d = json.load(f)
    c = d["case"]
    print(c["text"])
    print(pl.run_local("mpe", text=c["text"], use_semiring=c["use_semiring"]))
    ctx.evaluations = 1
    ctx.write_evidence("exploration", {"evaluations": 1, "distinct_nontrivial": 0, "rule": "replay (prints)", "samples": [c["text"]]})

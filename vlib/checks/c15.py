"""C15 - compare/3, ==, \\==, @<, @=<, @>, @>= and sort/2 follow the standard order of terms (TermAlgebra!StdCmp)."""
import json
import random

from .. import pl, tlc
from .. import terms as T


def universe(ctx, rng):
    U = [t for t in T.universe(2, True, cap=ctx.pick(500, 2500), rng=rng, rich=True)]
    # strings are left out: the property does not place them (SWI: after atoms; ProbLog: before atoms)
    def nostr(t):
        if t["t"] == "s":
            return False
        return all(nostr(x) for x in t["a"]) if t["t"] == "c" else True
    return [t for t in U if nostr(t)]


def has_two_vars(x, y):
    return bool(T.vars_of(x)) and bool(T.vars_of(y))


def run(ctx):
    rng = random.Random(ctx.seed + 1515)
    U = universe(ctx, rng)
    G = [t for t in U if T.ground(t)]
    nums = [T.I(v) for v in (-10, -2, -1, 0, 1, 2, 3, 9, 10, 11, 100)] + [T.F(q) for q in (-4, 0, 2, 4, 5, 8, 36, 40, 44)]
    pairs = []
    for x in nums:
        for y in nums:
            pairs.append((x, y))
    n = ctx.pick(2200, 30000)
    while len(pairs) < n:
        r = rng.random()
        if r < 0.7:
            x, y = rng.choice(G), rng.choice(G)
        elif r < 0.85:
            x = rng.choice(G)
            y = x
        else:
            x, y = rng.choice(U), rng.choice(G)
            if rng.random() < 0.5:
                x, y = y, x
        if has_two_vars(x, y) or T.size(x) + T.size(y) > 24:
            continue
        # a variable may only be compared as a whole term (order among distinct variables is unspecified)
        if (T.vars_of(x) and x["t"] != "v") or (T.vars_of(y) and y["t"] != "v"):
            continue
        pairs.append((x, y))
    lists = []
    for _ in range(ctx.pick(400, 5000)):
        k = rng.randint(0, 7)
        src = nums if rng.random() < 0.4 else G
        lists.append([rng.choice(src) for _ in range(k)])
    lists.append([T.I(10), T.I(9), T.I(2), T.I(1)])
    cases = [{"id": i, "kind": "cmp", "x": T.render(x), "y": T.render(y)} for i, (x, y) in enumerate(pairs)]
    off = len(cases)
    cases += [{"id": off + i, "kind": "sort", "list": T.render(T.L(l))} for i, l in enumerate(lists)]
    chunk = 60
    jobs = [("term_cases", {"cases": cases[i:i + chunk]}) for i in range(0, len(cases), chunk)]
    res = pl.run_jobs(jobs, nproc=ctx.nproc, timeout=300, chunksize=1)
    outs = {}
    for r in res:
        if r.get("error"):
            raise tlc.MachineryError("term_cases failed: %s" % r)
        for o in r["results"]:
            outs[o["id"]] = o
    send = []
    desc = {}
    for i, (x, y) in enumerate(pairs):
        o = outs[i]
        ctx.evaluations += 1
        desc[i] = ("cmp", x, y)
        if o.get("crash"):
            ctx.violation({"clause": "crash", "error": o.get("error", ""), "site": o.get("site", "")},
                          "compare %s , %s : %s" % (T.render(x), T.render(y), o["crash"]), {"kind": "cmp", "x": x, "y": y})
            continue
        c = {"id": i, "kind": "cmp", "x": x, "y": y}
        c.update({k: o[k] for k in ("cmp", "lt", "le", "gt", "ge", "eq", "ne")})
        send.append(c)
    for i, l in enumerate(lists):
        o = outs[off + i]
        ctx.evaluations += 1
        desc[off + i] = ("sort", l, None)
        if o.get("crash"):
            ctx.violation({"clause": "crash", "error": o.get("error", ""), "site": o.get("site", "")},
                          "sort %s : %s" % (T.render(T.L(l)), o["crash"]), {"kind": "sort", "list": l})
            continue
        send.append({"id": off + i, "kind": "sort", "list": l, "ok": o["ok"], "res": o["res"]})
    J = tlc.judge_batch("JudgeTerms", send, nproc=ctx.nproc, tag="c15")
    for c in send:
        j = J[c["id"]]
        if not j["ok"]:
            k, a, b = desc[c["id"]]
            if k == "cmp":
                ctx.violation({"clause": j["why"]}, "%s  vs  %s : %s disagrees with the standard order (impl: %s)" % (
                    T.render(a), T.render(b), j["why"], {q: c[q] for q in ("cmp", "lt", "le", "gt", "ge", "eq", "ne")}),
                    {"kind": "cmp", "x": a, "y": b})
            else:
                ctx.violation({"clause": j["why"]}, "sort(%s) = %s" % (T.render(T.L(a)), T.render(T.L(c["res"]))),
                              {"kind": "sort", "list": a})
    ctx.sample({"cmp": [T.render(pairs[200][0]), T.render(pairs[200][1])], "impl": outs[200]})
    ctx.sample({"sort": T.render(T.L(lists[-1])), "impl": T.render(T.L(outs[off + len(lists) - 1]["res"]))})
    ctx.write_evidence("exploration", {
        "evaluations": ctx.evaluations,
        "distinct_nontrivial": len({json.dumps([a, b], sort_keys=True) for (a, b) in pairs if a != b}),
        "rule": "all pairs of a number grid (ints incl. multi-digit/negative, dyadic floats) + sampled pairs of ground terms "
                "(atoms, quoted atoms, compounds, lists, depth <= 2) + variable vs non-variable; random lists for sort/2; "
                "non-trivial = distinct pair of different terms",
        "pairs": len(pairs), "lists": len(lists),
    }, assumptions=["reference: TermAlgebra!StdCmp / SortUnique (TLC); strings and the order among distinct variables are "
                    "not judged (unspecified by the property / differs between Prolog systems)"])


def replay(ctx, path):
    with open(path) as f:
        d = json.load(f)
    c = d["case"]
    if c["kind"] == "cmp":
        case = {"id": 0, "kind": "cmp", "x": T.render(c["x"]), "y": T.render(c["y"])}
    else:
        case = {"id": 0, "kind": "sort", "list": T.render(T.L(c["list"]))}
    o = pl.run_local("term_cases", cases=[case])["results"][0]
    print(case, o)
    ctx.evaluations = 1
    if o.get("crash"):
        ctx.violation({"clause": "crash"}, o["crash"], c)
    else:
        if c["kind"] == "cmp":
            s = {"id": 0, "kind": "cmp", "x": c["x"], "y": c["y"]}
            s.update({k: o[k] for k in ("cmp", "lt", "le", "gt", "ge", "eq", "ne")})
        else:
            s = {"id": 0, "kind": "sort", "list": c["list"], "ok": o["ok"], "res": o["res"]}
        j = tlc.judge_batch("JudgeTerms", [s], nproc=1)[0]
        print(j)
        if not j["ok"]:
            ctx.violation({"clause": j["why"]}, j["why"], c)
    ctx.write_evidence("exploration", {"evaluations": 1, "distinct_nontrivial": 0, "rule": "replay", "samples": [c]})

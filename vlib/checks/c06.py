"""C06 - semantics-neutral inference options do not change the answer (each vector judged by Semantics.tla)."""
import random

from .. import progs, semcheck
from . import common

OPTS = ["propagate_evidence", "propagate_weights", "label_all", "avoid_name_clash", "keep_order", "keep_all",
        "keep_duplicates", "hide_builtins"]


def vectors(rng, k):
    """all single options, the all-on vector, and k random vectors (pairwise coverage is measured, not assumed)"""
    vs = [dict()]
    for o in OPTS:
        vs.append({o: True})
    vs.append({o: True for o in OPTS if o != "keep_all"})
    vs.append({o: True for o in OPTS})
    for _ in range(k):
        vs.append({o: True for o in OPTS if rng.random() < (0.5 if o != "keep_all" else 0.15)})
    return vs


def run(ctx):
    rng = random.Random(ctx.seed + 606)
    P = semcheck.gen_programs(ctx.seed * 7919 + 51, ctx.pick(80, 900), "strat", p_edge=True)
    P += common.family_small(ctx.pick(40, 500), ctx.seed + 5000)
    P += common.cyclic_family(ctx.pick(60, 800), ctx.seed + 5100, evidence=1.0)
    P += common.ad_family(ctx.pick(80, 1000), ctx.seed + 5200)
    vecs = vectors(rng, ctx.pick(4, 28))
    pairs = set()

    def variants(p):
        out = [("default", {"text": progs.render(p)})]
        for i, v in enumerate(vecs[1:]):
            style = i % 2
            sr = "log" if i % 3 == 0 else ("prob" if i % 3 == 1 else None)
            name = "opts#" + "+".join(sorted(v)) + ("|ev%d" % style) + ("|%s" % sr)
            kw = {"text": progs.render(p, ev_style=style), "gopts": dict(v)}
            if sr:
                kw["semiring"] = sr
            out.append((name, kw))
            for a in v:
                for b in v:
                    if a < b:
                        pairs.add((a, b))
        return out

    def sig_extra(p, j, r, vn):
        o = vn.split("#", 1)[1].split("|")[0] if "#" in vn else ""
        return {"options": o, "keep_all": "keep_all" in o.split("+")}

    def post(P_, J, runs):
        ctx.cov["relational"] = common.relational(ctx, P_, J, runs, clause="option-dependent", sig_extra=sig_extra)

    J, runs, cov = common.sem_check(ctx, P, variants, level="exploration", post=post, write=False,
                                    sig_extra=sig_extra)
    cov["option_vectors"] = ["+".join(sorted(v)) or "(none)" for v in vecs]
    cov["option_pairs_covered"] = len(pairs)
    cov["option_pairs_total"] = len(OPTS) * (len(OPTS) - 1) // 2
    cov["relational_comparisons"] = ctx.cov.get("relational", 0)
    ctx.write_evidence("exploration", cov)


def replay(ctx, path):
    common.sem_replay(ctx, path)

"""C06 - semantics-neutral inference options do not change the answer (each vector judged by Semantics.tla)."""
import json
import random

from .. import mc, pl, progs, semcheck, tlc
from ..tlc import MachineryError
from . import common

OPTS = ["propagate_evidence", "propagate_weights", "label_all", "avoid_name_clash", "keep_order", "keep_all",
        "keep_duplicates", "hide_builtins"]


def vectors(rng, k):
    """all single options, the all-on vector, and k random vectors (pairwise coverage is measured, not assumed)"""
    vs = [dict()]
    for o in OPTS:
        vs.append({o: True})
    vs.append({"propagate_evidence": True, "propagate_weights": True})
    vs.append({o: True for o in OPTS if o != "keep_all"})
    vs.append({o: True for o in OPTS})
    for _ in range(k):
        vs.append({o: True for o in OPTS if rng.random() < (0.5 if o != "keep_all" else 0.15)})
    return vs


def run(ctx):
    rng = random.Random(ctx.seed + 606)
    P = semcheck.gen_programs(ctx.seed * 7919 + 51, ctx.pick(80, 900), "strat", p_edge=True)
    P += common.family_small(ctx.pick(40, 500), ctx.seed + 5000)
    P += common.cyclic_family(ctx.pick(60, 800), ctx.seed + 5100, evidence=1.0)
    P += common.ad_family(ctx.pick(80, 1000), ctx.seed + 5200)
    P += common.evidence_family(ctx.pick(150, 2000), ctx.seed + 5300)
    vecs = vectors(rng, ctx.pick(4, 28))
    pairs = set()

    def variants(p):
        out = [("default", {"text": progs.render(p)})]
        for i, v in enumerate(vecs[1:]):
            style = i % 2
            sr = "log" if i % 3 == 0 else ("prob" if i % 3 == 1 else None)
            name = "opts#" + "+".join(sorted(v)) + ("|ev%d" % style) + ("|%s" % sr)
            kw = {"text": progs.render(p, ev_style=style), "gopts": dict(v)}
            if sr:
                kw["semiring"] = sr
            out.append((name, kw))
            for a in v:
                for b in v:
                    if a < b:
                        pairs.add((a, b))
        return out

    def sig_extra(p, j, r, vn):
        o = vn.split("#", 1)[1].split("|")[0] if "#" in vn else ""
        return {"options": o, "keep_all": "keep_all" in o.split("+")}

    def post(P_, J, runs):
        ctx.cov["relational"] = common.relational(ctx, P_, J, runs, clause="option-dependent", sig_extra=sig_extra)

    J, runs, cov = common.sem_check(ctx, P, variants, level="exploration", post=post, write=False,
                                    sig_extra=sig_extra)
    cov["option_vectors"] = ["+".join(sorted(v)) or "(none)" for v in vecs]
    cov["option_pairs_covered"] = len(pairs)
    cov["option_pairs_total"] = len(OPTS) * (len(OPTS) - 1) // 2
    cov["relational_comparisons"] = ctx.cov.get("relational", 0)
    cov["propagate_model"] = propagate_model(ctx)
    cov["ad_constraint_model"] = adconstraint_model(ctx)
    ctx.write_evidence("exploration", cov)


# ------------------------------------------------------------------------------------------------------------------
# Layer B: Propagate.tla (model of LogicFormula.propagate, the code behind propagate_evidence)
FK = 1000000


def _rand_graph(rng):
    na = rng.randint(1, 3)
    nc = rng.randint(2, 6)
    while True:
        g = [{"t": "atom", "ch": [], "id": "abc"[i], "det": 0} for i in range(na)]
        comp = list(range(na + 1, na + nc + 1))
        for k in comp:
            ch = []
            for _ in range(rng.choice([1, 2, 2, 3])):
                c = rng.randint(1, na) if rng.random() < 0.45 else rng.choice(comp)
                ch.append(c if rng.random() < 0.75 else -c)
            g.append({"t": rng.choice(["conj", "disj"]), "ch": ch, "id": "", "det": 0})

        def reach(k):
            seen, todo = set(), [abs(c) for c in g[k - 1]["ch"]]
            while todo:
                x = todo.pop()
                if x not in seen:
                    seen.add(x)
                    todo += [abs(c) for c in g[x - 1]["ch"]]
            return seen
        if all(not (c < 0 and (-c == k or k in reach(-c))) for k in comp for c in g[k - 1]["ch"]):
            lits = rng.sample(range(1, na + nc + 1), rng.randint(1, min(3, na + nc)))
            return g, [l if rng.random() < 0.5 else -l for l in lits]


def propagate_model(ctx):
    runs = [("PropagateMC", "Propagate_small.cfg", True), ("PropagateMC", "Propagate_guard.cfg", False)]
    if ctx.tier == "thorough":
        runs.append(("PropagateMC", "Propagate_full.cfg", True))
    R = mc.check_cfgs(runs, nproc=ctx.nproc, timeout=ctx.pick(1500, 10000), parallel=2)
    ok_runs = [cfg for _, cfg, e in runs if e]
    cov = {"model_states": sum(R[c]["states"] for c in ok_runs),
           "model_configs": {c: {"states": r["states"], "depth": r["depth"]} for c, r in R.items()},
           "expected_counterexample_found": "Propagate_guard.cfg (a true disjunction makes all its children true)"}
    H = mc.exported(R["Propagate_small.cfg"]["out"])
    if not H:
        raise MachineryError("no behaviours exported by Propagate_small.cfg")
    groups = {}
    for h in H:
        key = json.dumps([h["g"], sorted(h["ev"])], sort_keys=True)
        groups.setdefault(key, {"g": h["g"], "ev": sorted(h["ev"]), "ends": set()})
        groups[key]["ends"].add((h["status"], tuple(h["current"])))
    cases = [{"id": i, "g": v["g"], "ev": v["ev"], "ends": v["ends"]} for i, v in enumerate(groups.values())]
    nexp = len(cases)
    rng = random.Random(ctx.seed + 60606)
    for _ in range(ctx.pick(2000, 30000)):
        g, ev = _rand_graph(rng)
        cases.append({"id": len(cases), "g": g, "ev": ev})
    chunk = 800
    res = pl.run_jobs([("propagate_replay", {"cases": [{k: c[k] for k in ("id", "g", "ev")} for c in cases[i:i + chunk]]})
                       for i in range(0, len(cases), chunk)], nproc=ctx.nproc, timeout=600, chunksize=1)
    judge, drift = [], 0
    for r in res:
        if r.get("error"):
            raise MachineryError("propagate_replay failed: %s" % r)
        for o in r["results"]:
            ctx.evaluations += 1
            c = cases[o["id"]]
            what = "LogicFormula.propagate(%s) on node table %s" % (c["ev"], json.dumps([[n["t"], n["ch"] or n["id"]] for n in c["g"]]))
            if o.get("error") or o["status"] == "malformed":
                ctx.violation({"clause": "crash", "level": "propagate-direct", "error": (o.get("error") or "malformed result").split(":")[0]},
                              "%s: %s" % (what, o.get("error") or o), {"prop": {"g": c["g"], "ev": c["ev"]}})
                continue
            if "ends" in c:
                if (o["status"], tuple(o["current"])) in c["ends"]:
                    continue                  # the real run IS one of the verified model behaviours
                drift += 1
            judge.append({"id": o["id"], "g": c["g"], "ev": c["ev"], "current": o["current"], "status": o["status"]})
    # self-test of the binding: a recorded run with one propagated value flipped must be rejected by the Layer-A judge
    probe = next((c for c in judge if c["status"] == "done" and len(c["ev"]) == 1 and abs(c["ev"][0]) <= 3
                  and c["g"][abs(c["ev"][0]) - 1]["t"] == "atom"), None)
    if probe is not None:
        bad = json.loads(json.dumps(probe))
        bad["id"] = 0
        k = abs(bad["ev"][0]) - 1
        bad["current"][k] = 0 if bad["current"][k] == FK else FK
        if tlc.judge_batch("JudgePropagate", [bad], nproc=1, tag="c06st")[0]["ok"]:
            raise MachineryError("self-test: JudgePropagate accepted a corrupted run")
        cov["selftest_corrupted_run_rejected"] = True
    J = tlc.judge_batch("JudgePropagate", judge, nproc=ctx.nproc, tag="c06p")
    for c in judge:
        if not J[c["id"]]["ok"]:
            ctx.violation({"clause": "propagated-value-not-entailed", "level": "propagate-direct"},
                          "LogicFormula.propagate(%s) on node table %s returned %s (%s): some assignment that satisfies the evidence gives a "
                          "node another value, so answers differ with propagate_evidence on and off" % (
                              c["ev"], json.dumps([[n["t"], n["ch"] or n["id"]] for n in c["g"]]), c["current"], c["status"]),
                          {"prop": {"g": c["g"], "ev": c["ev"]}})
    if drift:
        print("DRIFT property=C06 %d of %d runs of the real LogicFormula.propagate are not behaviours of Propagate.tla (each judged by Layer A)" % (drift, nexp))
    cov.update({"model_inputs_replayed": nexp, "model_behaviours": len(H), "random_graphs_judged": len(cases) - nexp, "model_drift": drift})
    return cov


def adconstraint_model(ctx):
    """ADConstraint.tla: ConstraintAD.add under propagated evidence values / weights"""
    R = mc.check_cfgs([("ADConstraint", "ADConstraint.cfg", True), ("ADConstraint", "ADConstraint_any.cfg", False)],
                      nproc=ctx.nproc, timeout=ctx.pick(900, 3000), parallel=2)
    H = mc.exported(R["ADConstraint.cfg"]["out"])
    if not H:
        raise MachineryError("no behaviours exported by ADConstraint.cfg")
    cases = [dict(h, id=i) for i, h in enumerate(H)]
    rng = random.Random(ctx.seed + 61616)
    nexp = len(cases)
    for _ in range(ctx.pick(1500, 15000)):        # larger disjunctions (4-5 heads), random orders
        K = rng.randint(4, 5)
        while True:
            w = [rng.randint(1, 4) for _ in range(K)]
            if sum(w) <= 10:
                break
        if rng.random() < 0.6:
            w[rng.randrange(K)] += 10 - sum(w)
        pre = [int(rng.random() < 0.5) for _ in range(K)]
        evv0 = [""] * K
        ph = [h for h in range(K) if pre[h]]
        if ph and rng.random() < 0.3:
            evv0[rng.choice(ph)] = "T"
            for h in ph:
                if not evv0[h] and rng.random() < 0.5:
                    evv0[h] = "F"
        else:
            for h in ph:
                if rng.random() < 0.4:
                    evv0[h] = "F"
        if all(evv0[h] == "F" for h in range(K)) and sum(w) == 10:
            continue                                # unsatisfiable evidence values
        order = [h + 1 for h in range(K) if not pre[h]]
        rng.shuffle(order)
        cases.append({"id": len(cases), "w": w, "pre": pre, "evv0": evv0, "sr": int(rng.random() < 0.7), "order": order})
    chunk = 1000
    res = pl.run_jobs([("adconstraint_replay", {"cases": [{k: c[k] for k in ("id", "w", "pre", "evv0", "sr", "order")} for c in cases[i:i + chunk]]})
                       for i in range(0, len(cases), chunk)], nproc=ctx.nproc, timeout=600, chunksize=1)
    judge, drift = [], 0
    for r in res:
        if r.get("error"):
            raise MachineryError("adconstraint_replay failed: %s" % r)
        for o in r["results"]:
            ctx.evaluations += 1
            c = cases[o["id"]]
            what = "annotated disjunction with head weights %s/10: heads %s added before propagation with values %s, then heads %s%s" % (
                c["w"], [h + 1 for h in range(len(c["w"])) if c["pre"][h]], c["evv0"], c["order"], " (propagate_weights)" if c["sr"] else "")
            if o.get("error"):
                ctx.violation({"clause": "crash", "level": "adconstraint-direct", "error": o["error"].split(":")[0]}, "%s: %s" % (what, o["error"]),
                              {"adc": {k: c[k] for k in ("w", "pre", "evv0", "sr", "order")}})
                continue
            if "evv" in c and "ret" in c:
                if c["evv"] == o["evv"] and c["ret"] == o["ret"]:
                    continue
                drift += 1
            judge.append({"id": o["id"], "w": c["w"], "evv0": c["evv0"], "evv": o["evv"], "ret": o["ret"], "_what": what})
    J = tlc.judge_batch("JudgeADConstraint", [{k: v for k, v in c.items() if k != "_what"} for c in judge], nproc=ctx.nproc, tag="c06ad")
    for c in judge:
        if not J[c["id"]]["ok"]:
            cc = cases[c["id"]]
            ctx.violation({"clause": "propagated-value-not-entailed", "level": "adconstraint-direct"},
                          "%s: evidence table %s, add() returned FALSE for %s - not entailed by the annotated disjunction and the given values" % (
                              c["_what"], c["evv"], [h + 1 for h, v in enumerate(c["ret"]) if v == "F"]),
                          {"adc": {k: cc[k] for k in ("w", "pre", "evv0", "sr", "order")}})
    if drift:
        print("DRIFT property=C06 %d of %d runs of the real ConstraintAD.add differ from ADConstraint.tla (each judged by Layer A)" % (drift, nexp))
    return {"model_states": R["ADConstraint.cfg"]["states"], "expected_counterexample_found": "ADConstraint_any.cfg (completion rule with 'any' instead of 'all')",
            "model_behaviours_replayed": nexp, "random_instances_judged": len(cases) - nexp, "model_drift": drift}


def replay(ctx, path):
    with open(path) as f:
        d = json.load(f)
    if "adc" in d["case"]:
        c = dict(d["case"]["adc"], id=0)
        o = pl.run_local("adconstraint_replay", cases=[c])["results"][0]
        print(json.dumps(c), "\n->", o)
        ctx.evaluations = 1
        if o.get("error"):
            ctx.violation({"clause": "crash", "level": "adconstraint-direct", "error": o["error"].split(":")[0]}, o["error"], d["case"])
        else:
            j = tlc.judge_batch("JudgeADConstraint", [{"id": 0, "w": c["w"], "evv0": c["evv0"], "evv": o["evv"], "ret": o["ret"]}], nproc=1)[0]
            if not j["ok"]:
                ctx.violation({"clause": "propagated-value-not-entailed", "level": "adconstraint-direct"}, "not entailed", d["case"])
        ctx.write_evidence("exploration", {"evaluations": 1, "distinct_nontrivial": 0, "samples": [d["case"]]})
        return
    if "prop" in d["case"]:
        c = dict(d["case"]["prop"], id=0)
        o = pl.run_local("propagate_replay", cases=[c])["results"][0]
        print(json.dumps(c), "\n->", o)
        ctx.evaluations = 1
        if o.get("error") or o["status"] == "malformed":
            ctx.violation({"clause": "crash", "level": "propagate-direct", "error": (o.get("error") or "malformed result").split(":")[0]}, str(o), d["case"])
        else:
            j = tlc.judge_batch("JudgePropagate", [{"id": 0, "g": c["g"], "ev": c["ev"], "current": o["current"], "status": o["status"]}], nproc=1)[0]
            if not j["ok"]:
                ctx.violation({"clause": "propagated-value-not-entailed", "level": "propagate-direct"}, "not entailed", d["case"])
        ctx.write_evidence("exploration", {"evaluations": 1, "distinct_nontrivial": 0, "samples": [d["case"]]})
        return
    common.sem_replay(ctx, path)

"""C28 - Python and Prolog values convert losslessly (PyPl.tla: encoding model; JudgePyPl: recorded round trips)."""
import itertools
import json
import random

from .. import pl, tlc
from ..tlc import MachineryError


def universe(ctx, rng):
    # floats are in quarters: 4 = 1.0, 0 = 0.0, 48 = 12.0 are integral floats EQUAL (==, hash) to the ints 1, 0, 12
    leaves = [{"t": "int", "v": v} for v in (0, 1, -2, 12)] + [{"t": "flt", "v": q} for q in (2, 6, -10)] + \
             [{"t": "str", "c": [ord(c) for c in s]} for s in ("", "a", "it's", 'say "hi"', "A b", "'q'", "1")] + \
             [{"t": "flt", "v": q} for q in (4, 0, 48)]
    vals = list(leaves)

    def seqs(pool, maxlen):
        out = [[]]
        for k in range(1, maxlen + 1):
            for tpl in itertools.product(pool, repeat=k):
                out.append(list(tpl))
        return out
    small = leaves[:3] + leaves[7:11] + leaves[14:16]
    l1 = []
    for s in seqs(small, 2):
        l1.append({"t": "list", "a": s})
        if len(s) != 1:
            l1.append({"t": "tup", "a": s})
    vals += l1
    pool2 = small[:3] + rng.sample(l1, min(len(l1), ctx.pick(10, 30)))
    for s in seqs(pool2, 2):
        if rng.random() < ctx.pick(0.5, 1.0):
            vals.append({"t": "list", "a": s})
            if len(s) != 1:
                vals.append({"t": "tup", "a": s})
    # three levels, random
    for _ in range(ctx.pick(300, 4000)):
        def mk(d):
            if d == 0 or rng.random() < 0.35:
                return rng.choice(leaves)
            n = rng.choice([0, 2, 2, 3])
            kind = rng.choice(["list", "tup"])
            if kind == "list":
                n = rng.choice([0, 1, 2, 3])
            return {"t": kind, "a": [mk(d - 1) for _ in range(n)]}
        vals.append(mk(3))
    seen, out = set(), []
    for v in vals:
        k = json.dumps(v, sort_keys=True)
        if k not in seen:
            seen.add(k)
            out.append(v)
    return out


def model_check(cov):
    rc, out, st = tlc.run_tlc("PyPlMC", cfg="PyPlMC.cfg", workers=4, timeout=600)
    if "No error has been found" not in out:
        raise MachineryError("PyPlMC: encoding does not round-trip on its domain:\n" + out[-1500:])
    rc, out2, st2 = tlc.run_tlc("PyPlMC", cfg="PyPlMC_all.cfg", workers=4, timeout=600)
    if "is violated" not in out2:
        raise MachineryError("PyPlMC_all: expected counterexample (tuple nested in last position) not found")
    cov["spec_encoding_roundtrips_on_domain_without_nested_last_tuple"] = True
    cov["spec_counterexample_nested_last_tuple"] = True


def run(ctx):
    rng = random.Random(ctx.seed + 2828)
    cov = {}
    model_check(cov)
    V = universe(ctx, rng)
    cases = [{"id": i, "v": v} for i, v in enumerate(V)]
    chunk = 200
    jobs = [("pypl_roundtrip", {"values": cases[i:i + chunk]}) for i in range(0, len(cases), chunk)]
    def exportable(v):
        return v["t"] in ("int", "flt", "str") or (v["t"] == "list" and all(x["t"] in ("int", "flt", "str") for x in v["a"]))
    sub = [c for c in cases if exportable(c["v"])]
    jobs += [("pypl_roundtrip", {"values": sub[i:i + 50], "via_export": True}) for i in range(0, len(sub), 50)]
    res = pl.run_jobs(jobs, nproc=ctx.nproc, timeout=300, chunksize=1)
    send = []
    n1 = (len(cases) + chunk - 1) // chunk
    for k, r in enumerate(res):
        if r.get("error"):
            raise MachineryError("pypl_roundtrip failed: %s" % r)
        for o in r["results"]:
            via = k >= n1
            send.append({"id": len(send), "v": V[o["id"]], "out": o["out"], "ok": o["ok"], "via": "export" if via else "pypl"})
    J = tlc.judge_batch("JudgePyPl", [{k: c[k] for k in ("id", "v", "out", "ok")} for c in send], nproc=ctx.nproc, tag="c28")
    for c in send:
        ctx.evaluations += 1
        j = J[c["id"]]
        if not j["ok"]:
            ctx.violation({"clause": j["why"], "via": c["via"]},
                          "%s round trip of %s gave %s" % (c["via"], json.dumps(c["v"]), json.dumps(c["out"])),
                          {"v": c["v"], "via": c["via"]})
    ctx.sample({"value": send[20]["v"], "roundtrip": send[20]["out"]})
    cov.update({"evaluations": ctx.evaluations, "distinct_nontrivial": sum(1 for v in V if v["t"] in ("list", "tup")),
                "rule": "ints, dyadic floats, strings (empty, with ' and \", with spaces, digit strings), lists and tuples of "
                        "length != 1, nested up to depth 3 (bounded-exhaustive at depth <= 2, random at depth 3); "
                        "non-trivial = list or tuple value", "values": len(V)})
    # exported functions with several outputs under every call mode: ProbLog must report exactly the Python results
    # that agree with the bound output arguments
    em = pl.run_jobs([("export_modes", {"uid": 1})], nproc=1, timeout=300)[0]
    if em.get("error"):
        raise tlc.MachineryError("export_modes failed: %s" % em)
    nmodes = 0
    for c in em["calls"]:
        ctx.evaluations += 1
        nmodes += 1
        want = sorted(r for r in c["py"] if all(b is None or b == v for b, v in zip(c["bound"], r)))
        desc = "%s(%s | outputs bound as %s): Python returns %s" % (c["f"], c["in"], c["bound"], c["py"])
        sig = {"via": "export-modes", "function": c["f"], "outputs_bound": sum(1 for b in c["bound"] if b is not None),
               "outputs": len(c["bound"])}
        if c.get("crash"):
            ctx.violation(dict(sig, clause="crash"), "%s; call raised %s" % (desc, c["crash"]), {"call": c})
        elif c.get("err"):
            ctx.violation(dict(sig, clause="call-raised-error"), "%s; call raised %s" % (desc, c["err"]), {"call": c})
        elif sorted(c["ans"]) != want:
            ctx.violation(dict(sig, clause="exported-result-differs"), "%s; ProbLog reports %s, expected %s" % (desc, c["ans"], want), {"call": c})
    cov["export_call_modes"] = nmodes
    ctx.write_evidence("exploration", cov, assumptions=["floats on the quarter grid only (exactly representable)"])


def replay(ctx, path):
    with open(path) as f:
        d = json.load(f)
    c = d["case"]
    if "call" in c:
        want = c["call"]
        for x in pl.run_local("export_modes", uid=2)["calls"]:
            if (x["f"], x["in"], x["bound"]) == (want["f"], want["in"], want["bound"]):
                print(x)
        ctx.evaluations = 1
        ctx.write_evidence("exploration", {"evaluations": 1, "distinct_nontrivial": 0, "rule": "replay (prints)", "samples": [c]})
        return
    o = pl.run_local("pypl_roundtrip", values=[{"id": 0, "v": c["v"]}], via_export=(c["via"] == "export"))["results"][0]
    print(c, o)
    j = tlc.judge_batch("JudgePyPl", [{"id": 0, "v": c["v"], "out": o["out"], "ok": o["ok"]}], nproc=1)[0]
    ctx.evaluations = 1
    if not j["ok"]:
        ctx.violation({"clause": j["why"], "via": c["via"]}, j["why"], c)
    ctx.write_evidence("exploration", {"evaluations": 1, "distinct_nontrivial": 0, "rule": "replay", "samples": [c]})

"""C13 - deterministic programs agree with standard Prolog, including findall order.

(a) non-recursive programs over constants, integers, small compounds, non-ground facts, with conjunction, disjunction,
    negation, =/2 and findall/3: the answers of the real engine are judged by TLC against SLD!Answers (answer SET for
    top-level queries; ORDER and duplicates for the list built by findall/3);
(b) recursive (tabled) programs: probability-free programs of the C01 generator judged by Semantics.tla - every
    instance must be reported with probability 1 iff it is in the least model."""
import json
import random

from .. import pl, progs, semcheck, tlc
from .. import terms as T
from . import common

CONST = [T.A("a"), T.A("b"), T.A("c"), T.I(1), T.I(2), T.Cm("f", T.A("a")), T.Cm("f", T.A("b"))]


def r_goal(g):
    k = g["k"]
    if k == "call":
        return T.render(g["t"])
    if k == "not":
        return "\\+(" + ", ".join(r_goal(x) for x in g["g"]) + ")"
    if k == "or":
        return "((" + ", ".join(r_goal(x) for x in g["l"]) + ") ; (" + ", ".join(r_goal(x) for x in g["r"]) + "))"
    if k == "unify":
        return "%s = %s" % (T.render(g["x"]), T.render(g["y"]))
    if k == "all":
        return "all(%s, (%s), %s)" % (T.render(g["tmpl"]), ", ".join(r_goal(x) for x in g["g"]), T.render(g["res"]))
    if k == "findall":
        return "findall(%s, (%s), %s)" % (T.render(g["tmpl"]), ", ".join(r_goal(x) for x in g["g"]), T.render(g["res"]))
    raise ValueError(k)


def r_clause(c):
    if not c["b"]:
        return T.render(c["h"]) + "."
    return T.render(c["h"]) + " :- " + ", ".join(r_goal(g) for g in c["b"]) + "."


def gen_case(rng):
    prog = []
    # layer 0: facts p/2 and e/1 with constants, compounds and variables in argument positions
    nf = rng.randint(3, 7)
    for _ in range(nf):
        def arg():
            r = rng.random()
            if r < 0.18:
                return T.V(rng.randint(1, 2))
            return rng.choice(CONST)
        prog.append({"h": T.Cm("p", arg(), arg()), "b": []})
    for _ in range(rng.randint(1, 3)):
        prog.append({"h": T.Cm("e", rng.choice(CONST)), "b": []})
    rng.shuffle(prog)

    def call(pred_layer):
        if pred_layer == 0:
            if rng.random() < 0.7:
                return {"k": "call", "t": T.Cm("p", pick_arg(), pick_arg())}
            return {"k": "call", "t": T.Cm("e", pick_arg())}
        return {"k": "call", "t": T.Cm("q", pick_arg(), pick_arg())}

    def pick_arg():
        r = rng.random()
        if r < 0.6:
            return T.V(rng.randint(1, 4))
        return rng.choice(CONST)

    def body(layer, n):
        gs = []
        for _ in range(n):
            r = rng.random()
            if r < 0.62 or not gs:
                gs.append(call(rng.randint(0, layer)))
            elif r < 0.74:
                gs.append({"k": "or", "l": [call(rng.randint(0, layer))], "r": [call(rng.randint(0, layer))]})
            elif r < 0.86:
                # negation of a goal whose variables are bound by earlier positive calls
                bound = []
                for g in gs:
                    if g["k"] == "call":
                        bound += T.vars_of(g["t"])
                if bound:
                    v = T.V(rng.choice(bound))
                    gs.append({"k": "not", "g": [{"k": "call", "t": T.Cm("e", v)}]})
            else:
                gs.append({"k": "unify", "x": pick_arg(), "y": rng.choice(CONST)})
        return gs

    # layer 1: q/2 rules
    for _ in range(rng.randint(1, 3)):
        b = body(0, rng.randint(1, 3))
        hv = []
        for g in b:
            if g["k"] == "call":
                hv += T.vars_of(g["t"])
        ha = [T.V(rng.choice(hv)) if hv and rng.random() < 0.75 else rng.choice(CONST) for _ in range(2)]
        prog.append({"h": T.Cm("q", *ha), "b": b})
    # query
    kind = rng.random()
    if kind < 0.45:
        q = rng.choice([T.Cm("p", pick_arg(), pick_arg()), T.Cm("q", pick_arg(), pick_arg())])
        return prog, q, "set"
    # findall wrapper: w(L) :- findall(T, G, L)
    g = body(1, rng.randint(1, 2))
    gv = []
    for x in g:
        if x["k"] == "call":
            gv += T.vars_of(x["t"])
    tmpl = T.V(rng.choice(gv)) if gv and rng.random() < 0.7 else (T.Cm("g", T.V(gv[0]), T.V(gv[-1])) if gv else T.A("x"))
    # the findall goal must not leave free variables that floundering negation could see: keep simple positive calls
    g = [x for x in g if x["k"] in ("call", "or", "unify")] or [call(0)]
    prog.append({"h": T.Cm("w", T.V(9)), "b": [{"k": "findall", "tmpl": tmpl, "g": g, "res": T.V(9)}]})
    return prog, T.Cm("w", T.V(1)), "seq"


def run(ctx):
    rng = random.Random(ctx.seed + 1313)
    cases = []
    # the ClauseIndex shape from the design notes, and relatives
    fixed = [("p(_,1). p(a,2). p(b,3). p(_,4).", [("p", [T.V(1), T.I(1)]), ("p", [T.A("a"), T.I(2)]), ("p", [T.A("b"), T.I(3)]),
                                                  ("p", [T.V(1), T.I(4)])])]
    n = ctx.pick(900, 12000)
    seen = set()
    while len(cases) < n:
        prog, q, mode = gen_case(rng)
        k = json.dumps([prog, q], sort_keys=True)
        if k in seen:
            continue
        seen.add(k)
        cases.append({"id": len(cases), "prog": prog, "q": q, "mode": mode})
    # top-level answer ORDER for predicates that consist of facts only (ground and non-ground, arity 3): this is where the
    # clause index decides the order in which candidate clauses are tried
    for _ in range(ctx.pick(400, 5000)):
        prog = []
        for _ in range(rng.randint(3, 7)):
            def arg3():
                r = rng.random()
                if r < 0.25:
                    return T.V(rng.randint(1, 2))
                return rng.choice(CONST[:4])
            prog.append({"h": T.Cm("t", arg3(), arg3(), rng.choice(CONST + [T.I(i) for i in range(3, 9)])), "b": []})
        q = T.Cm("t", *[rng.choice(CONST[:4] + [T.V(5), T.V(6)]) for _ in range(2)], T.V(7))
        k = json.dumps([prog, q], sort_keys=True)
        if k in seen:
            continue
        seen.add(k)
        cases.append({"id": len(cases), "prog": prog, "q": q, "mode": "seqtop"})
    # add the fixed index shape as findall cases
    for a in ("a", "b", "c"):
        prog = [{"h": T.Cm("p", *args), "b": []} for (_, args) in fixed[0][1]]
        prog.append({"h": T.Cm("w", T.V(9)), "b": [{"k": "findall", "tmpl": T.V(5), "g": [
            {"k": "call", "t": T.Cm("p", T.A(a), T.V(5))}], "res": T.V(9)}]})
        cases.append({"id": len(cases), "prog": prog, "q": T.Cm("w", T.V(1)), "mode": "seq"})
    jobs = []
    chunk = 40
    for i in range(0, len(cases), chunk):
        jobs.append(("det_queries", {"cases": [{"id": c["id"], "text": "\n".join(r_clause(cl) for cl in c["prog"]) + "\n",
                                                "query": T.render(c["q"])} for c in cases[i:i + chunk]]}))
    res = pl.run_jobs(jobs, nproc=ctx.nproc, timeout=300, chunksize=1)
    outs = {}
    for r in res:
        if r.get("error"):
            raise tlc.MachineryError("det_queries failed: %s" % r)
        for o in r["results"]:
            outs[o["id"]] = o
    send = []
    for c in cases:
        o = outs[c["id"]]
        ctx.evaluations += 1
        if o.get("skip"):
            continue
        if o.get("crash"):
            ctx.violation({"clause": "crash", "error": o.get("error", ""), "site": o.get("site", "")},
                          "%s\n?- %s : %s" % ("\n".join(r_clause(cl) for cl in c["prog"]), T.render(c["q"]), o["crash"]),
                          {"prog": c["prog"], "q": c["q"], "mode": c["mode"]})
            continue
        send.append({"id": c["id"], "prog": c["prog"], "q": c["q"], "mode": c["mode"], "impl": {"ok": o["ok"], "ans": o["ans"]}})
    J = tlc.judge_batch("JudgeSLD", send, nproc=ctx.nproc, tag="c13")
    skipped = 0
    nontriv = 0
    for c in send:
        j = J[c["id"]]
        if j["skipped"]:
            skipped += 1
            continue
        if j["nexp"] >= 2:
            nontriv += 1
        if not j["ok"]:
            qv = T.vars_of(c["q"])
            rep = len(qv) != len(json.dumps(c["q"]).split('"t": "v"')) - 1
            ngf = any(T.vars_of(cl["h"]) and not cl["b"] for cl in c["prog"])
            ctx.violation({"clause": j["why"], "mode": c["mode"], "repeated_var_query": rep, "nonground_fact": ngf},
                          "%s\n?- %s : %s\nimplementation: %s\nexpected (SLD.tla): %s" % (
                              "\n".join(r_clause(cl) for cl in c["prog"]), T.render(c["q"]),
                              j["why"], [T.render(a) for a in c["impl"]["ans"]], [T.render(a) for a in j["exp"]]),
                          {"prog": c["prog"], "q": c["q"], "mode": c["mode"]})
    c = send[0]
    ctx.sample({"program": [r_clause(cl) for cl in c["prog"]], "query": T.render(c["q"]), "mode": c["mode"],
                "impl": [T.render(a) for a in c["impl"]["ans"]]})
    # (b) recursive / tabled: probability-free programs of the C01 generator
    P = semcheck.gen_programs(ctx.seed * 7919 + 131, ctx.pick(150, 2000), "strat", ads=False, evidence=False)
    for p in P:
        for f in p["facts"]:
            f["p"] = [f["p"][1], f["p"][1]] if rng.random() < 0.7 else [0, f["p"][1]]
    ev0 = ctx.evaluations
    Jb, runs, cov = common.sem_check(ctx, P, lambda p: [("default", {"text": progs.render(p)})], write=False)
    cov.update({
        "evaluations": ctx.evaluations, "distinct_nontrivial": nontriv + cov["distinct_nontrivial"],
        "rule": "(a) generated non-recursive Prolog programs (facts with constants, ints, f/1 compounds and variables; rules "
                "with conjunction, disjunction, negation, =/2; findall wrappers), non-trivial = >= 2 expected answers; "
                "(b) probability-free recursive programs of the C01 generator (tabling), non-trivial by the C01 rule",
        "sld_cases": len(send), "sld_skipped_budget": skipped, "tabled_programs": len(P)})
    ctx.write_evidence("exploration", cov, assumptions=[
        "no SWI-Prolog in the sandbox: spec/SLD.tla (TLC) is the reference for answer sets and findall order; "
        "Semantics.tla (least model) for recursive programs",
        "top-level queries are compared as answer sets; order and duplicates are judged for findall/3 lists"])


def replay(ctx, path):
    with open(path) as f:
        d = json.load(f)
    c = d["case"]
    if c.get("kind") == "sem":
        return common.sem_replay(ctx, path)
    text = "\n".join(r_clause(cl) for cl in c["prog"]) + "\n"
    o = pl.run_local("det_queries", cases=[{"id": 0, "text": text, "query": T.render(c["q"])}])["results"][0]
    print(text, "?-", T.render(c["q"]), o)
    ctx.evaluations = 1
    if o.get("crash"):
        ctx.violation({"clause": "crash"}, o["crash"], c)
    else:
        j = tlc.judge_batch("JudgeSLD", [{"id": 0, "prog": c["prog"], "q": c["q"], "mode": c["mode"],
                                          "impl": {"ok": o["ok"], "ans": o["ans"]}}], nproc=1)[0]
        print(j)
        if not j["ok"]:
            ctx.violation({"clause": j["why"], "mode": c["mode"]}, j["why"], c)
    ctx.write_evidence("exploration", {"evaluations": 1, "distinct_nontrivial": 0, "rule": "replay", "samples": [text]})

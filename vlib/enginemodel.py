"""Binding of spec/Engine.tla to the real engine: replay of TLC-explored behaviours (programs x query sequences x
sibling schedules) on StackBasedEngine, message by message."""
import json

from . import mc, pl, tlc
from .tlc import MachineryError

FKEY = 1000000
NORES = -FKEY - 1


def text_of(prog):
    lines = []
    probs = {"f": "0.3", "g": "0.6", "q": "0.2", "p": "0.7", "r": "0.4"}
    for c in prog:
        if c["f"] and c["h"] == "t":
            lines.append("t.")
        elif c["f"]:
            lines.append("%s::%s." % (probs.get(c["h"], "0.5"), c["h"]))
        else:
            lines.append("%s :- %s." % (c["h"], ", ".join(("" if l["s"] == 1 else "\\+") + l["a"] for l in c["b"])))
    return "\n".join(lines) + "\n"


def compare(h, r):
    """first difference between the model's behaviour h and the recorded real run r, or None"""
    if h.get("err"):
        # the model predicts that the engine raises: the real run must raise the same exception class
        if not r.get("crash"):
            return "model: engine raises %s; engine answered %s" % (h["err"], [x["key"] for x in r["results"]])
        if r.get("error") != h["err"]:
            return "model: engine raises %s; engine raised %s" % (h["err"], r.get("error"))
        return None
    if r.get("crash"):
        return "engine raised %s: %s" % (r.get("error"), r.get("msg"))
    ml, rl = h["log"], r["log"]
    for i, (a, b) in enumerate(zip(ml, rl)):
        if any(a[k] != b[k] for k in ("t", "k", "p", "a", "node", "last")):
            return "message %d: model %s, engine %s" % (i + 1, a, b)
    if len(ml) != len(rl):
        return "model pops %d messages, engine %d" % (len(ml), len(rl))
    mres = [x if x != NORES else FKEY for x in h["results"]]      # a query without a result is named FALSE by ground()
    rres = [x["key"] for x in r["results"]]
    if mres != rres:
        return "query keys: model %s, engine %s" % (mres, rres)
    mn = [(n["t"], n["ch"]) for n in h["nodes"]]
    rn = [(n["t"], n["ch"]) for n in r["nodes"]]
    if mn != rn:
        return "node tables: model %s, engine %s" % (mn, rn)
    if r.get("bad_schedule"):
        return "the engine produced sibling batches the model's schedule does not fit: %s" % r["bad_schedule"]
    return None


def replay(ctx, cfgs, export_cfg, timeout=3000):
    """model-check `cfgs`, export the terminal behaviours of `export_cfg`, replay them on the real engine.
    Returns (coverage dict, list of (behaviour, real run, difference))."""
    runs = [("EngineMC", c, True) for c in cfgs] + [("EngineMC", export_cfg, True)]
    R = mc.check_cfgs(runs, nproc=ctx.nproc, timeout=timeout, parallel=2)
    cov = {"states": sum(R[c]["states"] for c in cfgs + [export_cfg]),
           "transitions": sum(R[c]["transitions"] for c in cfgs + [export_cfg]),
           "model_configs": {c: {"states": r["states"], "depth": r["depth"]} for c, r in R.items()}}
    H = mc.exported(R[export_cfg]["out"])
    if not H:
        raise MachineryError("Engine export produced no behaviours")
    cases = [{"id": i, "text": text_of(h["prog"]), "queries": h["queries"], "schedule": h["sched"]} for i, h in enumerate(H)]
    chunk = 200
    res = pl.run_jobs([("engine_traces", {"cases": cases[i:i + chunk]}) for i in range(0, len(cases), chunk)],
                      nproc=ctx.nproc, timeout=600, chunksize=1)
    diffs = []
    n = 0
    # behaviours that differ only in the order in which a cycle's completion messages were delivered (a Python set is
    # iterated there) share program, queries and schedule: the real run must equal ONE of them
    groups = {}
    for i, h in enumerate(H):
        groups.setdefault(json.dumps([h["prog"], h["queries"], h["sched"]], sort_keys=True), []).append(i)
    done = set()
    byid = {}
    for r in res:
        if r.get("error"):
            raise MachineryError("engine_traces failed: %s" % r)
        for o in r["results"]:
            byid[o["id"]] = o
    for key, ids in groups.items():
        n += 1
        o = byid[ids[0]]
        ds = [compare(H[i], o) for i in ids]
        if all(ds):
            diffs.append((H[ids[0]], o, ds[0] + (" (and %d more model behaviours with other completion orders)" % (len(ids) - 1) if len(ids) > 1 else "")))
    cov["spec_behaviours_replayed_on_impl"] = n
    cov["messages_compared"] = sum(len(h["log"]) for h in H)
    cov["behaviours_where_impl_differs_from_model"] = len(diffs)
    return cov, diffs, H

"""Binding of spec/Engine.tla to the real engine: replay of TLC-explored behaviours (programs x query sequences x
sibling schedules) on StackBasedEngine, message by message."""
import json

from . import mc, pl, tlc
from .tlc import MachineryError

FKEY = 1000000
NORES = -FKEY - 1


def text_of(prog):
    lines = []
    probs = {"f": "0.3", "g": "0.6", "q": "0.2", "p": "0.7", "r": "0.4"}
    for c in prog:
        if c["f"] and c["h"] == "t":
            lines.append("t.")
        elif c["f"]:
            lines.append("%s::%s." % (probs.get(c["h"], "0.5"), c["h"]))
        else:
            lines.append("%s :- %s." % (c["h"], ", ".join(("" if l["s"] == 1 else "\\+") + l["a"] for l in c["b"])))
    return "\n".join(lines) + "\n"


def compare(h, r):
    """first difference between the model's behaviour h and the recorded real run r, or None"""
    if h.get("err"):
        # the model predicts that the engine raises: the real run must raise the same exception class
        if not r.get("crash"):
            return "model: engine raises %s; engine answered %s" % (h["err"], [x["key"] for x in r["results"]])
        if r.get("error") != h["err"]:
            return "model: engine raises %s; engine raised %s" % (h["err"], r.get("error"))
        return None
    if r.get("crash"):
        return "engine raised %s: %s" % (r.get("error"), r.get("msg"))
    ml, rl = h["log"], r["log"]
    for i, (a, b) in enumerate(zip(ml, rl)):
        if any(a[k] != b[k] for k in ("t", "k", "p", "a", "node", "last")):
            return "message %d: model %s, engine %s" % (i + 1, a, b)
    if len(ml) != len(rl):
        return "model pops %d messages, engine %d" % (len(ml), len(rl))
    mres = [x if x != NORES else FKEY for x in h["results"]]      # a query without a result is named FALSE by ground()
    rres = [x["key"] for x in r["results"]]
    if mres != rres:
        return "query keys: model %s, engine %s" % (mres, rres)
    mn = [(n["t"], n["ch"]) for n in h["nodes"]]
    rn = [(n["t"], n["ch"]) for n in r["nodes"]]
    if mn != rn:
        return "node tables: model %s, engine %s" % (mn, rn)
    if r.get("bad_schedule"):
        return "the engine produced sibling batches the model's schedule does not fit: %s" % r["bad_schedule"]
    return None


def replay(ctx, check_cfgs, export_cfgs, expect_fail=(), timeout=3000):
    """model-check `check_cfgs` (must pass) and `expect_fail` (pre-fix engines: must produce a counterexample), export the
    terminal behaviours of `export_cfgs`, replay them on the real engine.
    Returns (coverage dict, list of (behaviour, real run, difference), exported behaviours)."""
    runs = [("EngineMC", c, True) for c in check_cfgs] + [("EngineMC", c, True) for c in export_cfgs] + \
           [("EngineMC", c, False) for c in expect_fail]
    R = mc.check_cfgs(runs, nproc=ctx.nproc, timeout=timeout, parallel=3)
    okc = list(check_cfgs) + list(export_cfgs)
    cov = {"states": sum(R[c]["states"] for c in okc), "transitions": sum(R[c]["transitions"] for c in okc),
           "model_configs": {c: {"states": r["states"], "depth": r["depth"]} for c, r in R.items()},
           "expected_counterexamples_found": list(expect_fail)}
    H = []
    for c in export_cfgs:
        H += mc.exported(R[c]["out"])
    if not H:
        raise MachineryError("Engine export produced no behaviours")
    # behaviours that differ only in the order in which a cycle's completion messages were delivered (a Python set is
    # iterated there) share program, queries and schedule: the real run must equal ONE of them
    groups = {}
    for i, h in enumerate(H):
        groups.setdefault(json.dumps([h["prog"], h["queries"], h["sched"]], sort_keys=True), []).append(i)
    keys = list(groups)
    cases = [{"id": k, "text": text_of(H[groups[key][0]]["prog"]), "queries": H[groups[key][0]]["queries"],
              "schedule": H[groups[key][0]]["sched"]} for k, key in enumerate(keys)]
    chunk = 200
    res = pl.run_jobs([("engine_traces", {"cases": cases[i:i + chunk]}) for i in range(0, len(cases), chunk)],
                      nproc=ctx.nproc, timeout=900, chunksize=1)
    diffs = []
    nmsg = 0
    for r in res:
        if r.get("error"):
            raise MachineryError("engine_traces failed: %s" % r)
        for o in r["results"]:
            ids = groups[keys[o["id"]]]
            nmsg += len(o.get("log", []))
            ds = [compare(H[i], o) for i in ids]
            if all(ds):
                diffs.append((H[ids[0]], o, ds[0] + (" (and %d more model behaviours with other completion orders)" % (len(ids) - 1)
                                                   if len(ids) > 1 else "")))
    cov["spec_behaviours_replayed_on_impl"] = len(keys)
    cov["model_behaviours_exported"] = len(H)
    cov["messages_compared"] = nmsg
    cov["behaviours_where_impl_differs_from_model"] = len(diffs)
    cov["model_behaviours_ending_in_an_exception"] = sum(1 for h in H if h.get("err"))
    return cov, diffs, H

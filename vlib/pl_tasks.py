"""Worker-side functions that call the real ProbLog (imported from /repo). Results are JSON-able."""
import random


def _names(result):
    return {str(k): float(v) for k, v in result.items()}


def make_engine(kind, **kw):
    """kind: 'default' | 'unbuf' | 'rc' | 'rand:<seed>' | 'sched:<seed>'"""
    from problog.engine_stack import StackBasedEngine, MessageAnyOrder, MessageFIFO
    if kind in (None, "default"):
        return StackBasedEngine(**kw)
    if kind == "unbuf":
        return StackBasedEngine(unbuffered=True, **kw)
    if kind == "rc":
        return StackBasedEngine(unbuffered=True, rc_first=True, **kw)
    if kind.startswith("rand:"):
        seed = int(kind.split(":")[1])
        rng = random.Random(seed)

        # the random choice-point order documented in docs/source/engine.rst (verbatim, seeded)
        class MessageOrderRandom(MessageAnyOrder):
            def __init__(self, engine):
                MessageAnyOrder.__init__(self, engine)
                self.messages_rc = []
                self.messages_e = []

            def append(self, message):
                if message[0] == "e":
                    self.messages_e.append(message)
                else:
                    self.messages_rc.append(message)

            def pop(self):
                if self.messages_rc:
                    return self.messages_rc.pop(-1)
                i = rng.randint(0, len(self.messages_e) - 1)
                return self.messages_e.pop(i)

            def __nonzero__(self):
                return bool(self.messages_e) or bool(self.messages_rc)

            def __bool__(self):
                return bool(self.messages_e) or bool(self.messages_rc)

            def __len__(self):
                return len(self.messages_e) + len(self.messages_rc)

            def __iter__(self):
                return iter(self.messages_e + self.messages_rc)

        class RandomOrderEngine(StackBasedEngine):
            def __init__(self, **k):
                StackBasedEngine.__init__(self, unbuffered=True, **k)

            def init_message_stack(self):
                return MessageOrderRandom(self)

        return RandomOrderEngine(**kw)
    if kind.startswith("sched:"):
        seed = int(kind.split(":")[1])
        rng = random.Random(seed)

        # default (buffered) engine; every batch of sibling 'e' messages is pushed in a random order
        class ShuffledFIFO(MessageFIFO):
            def __iadd__(self, messages):
                messages = list(messages)
                if len(messages) > 1 and all(m[0] == "e" for m in messages):
                    rng.shuffle(messages)
                    self.nshuffled = getattr(self, "nshuffled", 0) + 1
                return MessageFIFO.__iadd__(self, messages)

        class SchedEngine(StackBasedEngine):
            def init_message_stack(self):
                return ShuffledFIFO(self)

        return SchedEngine(**kw)
    raise ValueError(kind)


def make_semiring(name):
    from problog.evaluator import SemiringProbability, SemiringLogProbability, SemiringSymbolic
    if name in (None, "prob"):
        return SemiringProbability()
    if name == "log":
        return SemiringLogProbability()
    if name == "symbolic":
        return SemiringSymbolic()
    if name == "custom":
        class MyProb(SemiringProbability):
            def is_dsp(self):
                return False
        return MyProb()
    if name == "nsp":
        class NSP(SemiringProbability):
            def is_nsp(self):
                return True

            def is_dsp(self):
                return False
        return NSP()
    raise ValueError(name)


def prob(text, engine="default", evaluatable=None, semiring=None, gopts=None, eopts=None, engine_args=None):
    """Default inference pipeline. Returns {'answers': {name: p}} or raises (caught by dispatcher)."""
    from problog.program import PrologString
    from problog import get_evaluatable
    gopts = dict(gopts or {})
    eopts = dict(eopts or {})
    sr = make_semiring(semiring) if semiring else None
    if gopts.pop("propagate_weights", False):
        gopts["propagate_weights"] = sr if sr is not None else make_semiring("prob")
    model = PrologString(text)
    eng = make_engine(engine, **(engine_args or {}))
    knowledge = get_evaluatable(evaluatable, semiring=sr)
    formula = knowledge.create_from(model, engine=eng, **gopts)
    if sr is not None:
        result = formula.evaluate(semiring=sr, **eopts)
    else:
        result = formula.evaluate(**eopts)
    if semiring == "symbolic":
        # the symbolic semiring yields an arithmetic expression; evaluate it as ordinary arithmetic
        ans = {}
        for k, v in result.items():
            ans[str(k)] = float(eval(str(v), {"__builtins__": {}}, {}))
        return {"answers": ans, "symbolic": {str(k): str(v) for k, v in result.items()}}
    return {"answers": _names(result)}


def backends():
    """Exact evaluatables that can run in this sandbox."""
    from problog import get_evaluatables, get_evaluatable
    from problog.program import PrologString
    ok = []
    for name in ("ddnnf", "sdd", "sddx", "fsdd", "fbdd", "bdd"):
        try:
            k = get_evaluatable(name)
            k.create_from(PrologString("0.5::a. query(a).")).evaluate()
            ok.append(name)
        except BaseException:
            pass
    return {"backends": ok}


def history(text, steps, mode="shared", engine="default"):
    """C08: ground queries / evidence step by step.

    text : program text WITHOUT query/evidence statements
    steps: list of [kind, atom_text] with kind in 'query' | 'ev+' | 'ev-' | 'probe'
           ('probe' = engine.query(db, term) on a throw-away formula in between)
    mode 'shared': one prepared db, one shared target formula, steps in the given order, one evaluation at the end
    mode 'fresh' : one prepared db; for every query a fresh target with the evidence steps + that query"""
    from problog.program import PrologString
    from problog.logic import Term
    from problog.formula import LogicFormula
    from problog import get_evaluatable
    eng = make_engine(engine)
    db = eng.prepare(PrologString(text))

    def do(target, kind, atxt):
        t = Term.from_string(atxt)
        if kind == "query":
            return eng.ground(db, t, target, label=LogicFormula.LABEL_QUERY)
        if kind == "ev+":
            return eng.ground(db, t, target, label=LogicFormula.LABEL_EVIDENCE_POS, is_root=True)
        if kind == "ev-":
            return eng.ground(db, t, target, label=LogicFormula.LABEL_EVIDENCE_NEG, is_root=True)
        if kind == "probe":
            eng.query(db, t)
            return target
        raise ValueError(kind)

    if mode == "shared":
        target = LogicFormula()
        for kind, atxt in steps:
            target = do(target, kind, atxt)
        res = get_evaluatable().create_from(target).evaluate()
        return {"answers": _names(res)}
    answers = {}
    for kind, atxt in steps:
        if kind != "query":
            continue
        target = LogicFormula()
        for k2, a2 in steps:
            if k2 in ("ev+", "ev-"):
                target = do(target, k2, a2)
        target = do(target, "query", atxt)
        res = get_evaluatable().create_from(target).evaluate()
        for k, v in _names(res).items():
            answers[k] = v
    return {"answers": answers}


# ------------------------------------------------------------------ C34 containers
def container_history(kind, ops):
    """Run a history of public calls on the real util class; log args, result and projected state per call."""
    from problog.util import OrderedSet, UHeap, BitVector
    ev = []
    if kind == "os":
        x, y = OrderedSet(), OrderedSet()
        for op in ops:
            name = op[0]
            e = {"op": name, "k": 0, "b": 0, "res": 0}
            if name == "add":
                e["k"] = op[1]; x.add(op[1])
            elif name == "addy":
                e["k"] = op[1]; y.add(op[1])
            elif name == "discard":
                e["k"] = op[1]; x.discard(op[1])
            elif name == "pop":
                e["b"] = op[1]
                try:
                    e["res"] = x.pop(last=bool(op[1]))
                except KeyError:
                    e["res"] = -1
            elif name == "contains":
                e["k"] = op[1]; e["res"] = 1 if op[1] in x else 0
            elif name == "len":
                e["res"] = len(x)
            elif name == "ior":
                x |= y
            elif name == "iand":
                x &= y
            elif name == "isub":
                x -= y
            elif name == "or":
                y = x | y
            elif name == "and":
                y = x & y
            elif name == "sub":
                y = x - y
            elif name == "xor":
                y = x ^ y
            e["x"] = list(x); e["y"] = list(y)
            if not isinstance(y, OrderedSet) or not isinstance(x, OrderedSet):
                e["res"] = -99
            ev.append(e)
    elif kind == "uh":
        keys = {}
        h = UHeap(key=lambda it: keys[it])
        for op in ops:
            name = op[0]
            e = {"op": name, "it": "", "k": 0, "res": 0}
            if name == "push":
                keys[op[1]] = op[2]
                e["it"] = op[1]; e["k"] = op[2]
                e["res"] = 1 if h.push(op[1]) else 0
            elif name == "pop":
                if len(h) == 0:
                    continue
                k, it = h.pop_with_key()
                e["it"] = it; e["k"] = k
            elif name == "peek":
                if len(h) == 0:
                    continue
                e["it"] = h.peek()
            elif name == "len":
                e["res"] = len(h)
            e["m"] = sorted([[it, k] for (k, it) in h._heap])
            e["heap"] = [[k, it] for (k, it) in h._heap]
            ev.append(e)
    elif kind == "bv":
        x, y = BitVector(), BitVector()

        def blocks(v):
            return [[i for i in range(v.binsize) if (b >> i) & 1] for b in v.blocks]
        for op in ops:
            name = op[0]
            e = {"op": name, "k": 0, "res": 0}
            if name == "add":
                e["k"] = op[1]; x.add(op[1])
            elif name == "addy":
                e["k"] = op[1]; y.add(op[1])
            elif name == "contains":
                e["k"] = op[1]; e["res"] = 1 if op[1] in x else 0
            elif name == "len":
                e["res"] = len(x)
            elif name == "and":
                y = x & y
            elif name == "or":
                y = x | y
            elif name == "iand":
                x &= y
            elif name == "ior":
                x |= y
            e["x"] = list(x); e["y"] = list(y); e["lenx"] = len(x)
            e["bx"] = blocks(x); e["by"] = blocks(y)
            ev.append(e)
    return {"kind": kind, "events": ev}


# ------------------------------------------------------------------ C11 builder histories
FKEY = 1000000


def _enc_key(k):
    return FKEY if k is None else int(k)


def _dump_nodes(f):
    out = []
    for key, node, t in f:
        if t == "atom":
            det = 1 if node.probability is None else (2 if node.probability is False else 0)
            out.append({"t": "atom", "ch": [], "id": str(node.identifier), "det": det})
        else:
            out.append({"t": t, "ch": [_enc_key(c) for c in node.children], "id": "", "det": 0})
    return out


def builder_history(calls, opts=None, cls="LogicFormula"):
    """Execute a history of builder calls on a real LogicFormula; record returned keys and node tables."""
    from problog import formula as F
    from problog.logic import Term
    f = getattr(F, cls)(**(opts or {}))
    rets = {}
    out = []

    def key_of(ref):
        if ref["k"] == "T":
            return f.TRUE
        if ref["k"] == "F":
            return f.FALSE
        k = rets[ref["i"]]
        return k if ref["s"] == 1 else f.negate(k)

    for i, c in enumerate(calls, start=1):
        c = dict(c)
        op = c["op"]
        ret = -FKEY
        if op == "atom":
            prob = {0: 0.5, 1: None, 2: False}[c["det"]]
            ret = _enc_key(f.add_atom(c["id"], prob, name=Term(c["id"]) if c.get("named") else None))
            rets[i] = None if ret == FKEY else ret
        elif op == "and":
            r = f.add_and([key_of(x) for x in c["refs"]], name=Term(c["name"]) if c.get("name") else None)
            rets[i] = r
            ret = _enc_key(r)
        elif op == "or":
            r = f.add_or([key_of(x) for x in c["refs"]], readonly=not c.get("mutable"),
                         name=Term(c["name"]) if c.get("name") else None)
            rets[i] = r
            ret = _enc_key(r)
        elif op == "not":
            # refs holds the already-negated reference; the real call negates the positive one
            x = c["refs"][0]
            pos = {"k": x["k"], "i": x.get("i", 0), "s": 1 - x.get("s", 1)} if x["k"] == "c" else \
                ({"k": "F"} if x["k"] == "T" else {"k": "T"})
            r = f.negate(key_of(pos))
            rets[i] = r
            ret = _enc_key(r)
        elif op == "disjunct":
            tk = rets[c["target"]]
            comp = key_of(c["refs"][0])
            skipped = 0
            if tk is None or tk < 0 or (tk > 0 and type(f.get_node(tk)).__name__ != "disj"):
                skipped = 1      # not an updatable node in the real formula: the engine never does this
            else:
                f.add_disjunct(tk, comp)
            c["skipped"] = skipped
        elif op == "name":
            k = key_of(c["refs"][0])
            f.add_name(Term(c["name"]), k, c.get("label", "query"))
        c["ret"] = ret
        c["nodes"] = _dump_nodes(f)
        out.append(c)
    return {"calls": out}


# ------------------------------------------------------------------ C09 / C10 pipeline artefacts
def _dump_graph(f, var_of_identifier=False):
    out = []
    for key, node, t in f:
        if t == "atom":
            det = 1 if node.probability is None or node.probability is True else (2 if node.probability is False else 0)
            if var_of_identifier:
                det = 0
            out.append({"t": "atom", "ch": [], "id": str(node.identifier), "det": det,
                        "var": int(node.identifier) if var_of_identifier else 0})
        else:
            out.append({"t": t, "ch": [_enc_key(c) for c in node.children], "id": "", "det": 0, "var": 0})
    return out


def _label_names(f):
    d = {}
    for name, key, label in f.get_names_with_label():
        d[(str(name), str(label))] = _enc_key(key)
    return d


def parse_dimacs(txt):
    nvars = 0
    clauses = []
    for line in txt.splitlines():
        line = line.strip()
        if not line or line.startswith("c"):
            continue
        if line.startswith("p"):
            nvars = int(line.split()[2])
            continue
        lits = [int(x) for x in line.split()]
        assert lits[-1] == 0
        clauses.append(lits[:-1])
    return {"nvars": nvars, "clauses": clauses}


def pipeline_dump(text, gopts=None, with_nnf=True):
    from problog.program import PrologString
    from problog.formula import LogicFormula, LogicDAG
    from problog.cnf_formula import CNF
    from problog.ddnnf_formula import DDNNF
    from problog.constraint import ConstraintAD
    try:
        lf = LogicFormula.create_from(PrologString(text), **(gopts or {}))
    except Exception as e:      # grounding is not the subject of C09/C10 (see C01/C02)
        return {"ground_error": type(e).__name__}
    dag = LogicDAG.create_from(lf)
    cnf = CNF.create_from(dag)
    res = {"src": _dump_graph(lf), "dag": _dump_graph(dag), "cnf": parse_dimacs(cnf.to_dimacs())}
    res["cnf_atomcount"] = cnf.atomcount
    ns, nd, nc = _label_names(lf), _label_names(dag), _label_names(cnf)
    cons = []
    for c in dag.constraints():
        if isinstance(c, ConstraintAD) and c.is_nontrivial():
            cons.append(sorted(c.nodes) + [c.extra_node])
    res["constraints"] = cons
    res["weights_equal"] = 1
    wd, wc = dag.get_weights(), cnf.get_weights()
    if {k: str(v) for k, v in wd.items()} != {k: str(v) for k, v in wc.items()}:
        res["weights_equal"] = 0
    nn = {}
    res["hasnnf"] = 0
    res["nnf"] = []
    res["cc"], res["nc"] = [], []

    def enc_cons(c, var_of):
        nodes = [n for n in c.get_nodes() if n is not None]
        extra = getattr(c, "extra_node", None)
        body = sorted(var_of(n) for n in nodes if n != extra)
        return [1 if isinstance(c, ConstraintAD) else 2, var_of(extra) if extra is not None else 0] + body
    if with_nnf:
        nnf = DDNNF.create_from(cnf)
        res["cc"] = sorted(enc_cons(c, lambda n: n) for c in cnf.constraints())

        def nnf_var(k):
            nd_ = nnf.get_node(abs(k))
            return (int(nd_.identifier) if type(nd_).__name__ == "atom" else -abs(k) - 100000) * (1 if k > 0 else -1)
        res["nc"] = sorted(enc_cons(c, nnf_var) for c in nnf.constraints())
        res["nnf"] = _dump_graph(nnf, var_of_identifier=True)
        res["hasnnf"] = 1
        nn = _label_names(nnf)
        wn = nnf.get_weights()
        # weights of the circuit's atoms must be the CNF weights of the variables they stand for
        for key, node, t in nnf:
            if t == "atom":
                if str(wn.get(key)) != str(wc.get(node.identifier, True)):
                    res["weights_equal"] = 0
    names = []
    for (n, l), k in ns.items():
        if l not in ("query", "evidence+", "evidence-", "evidence?"):
            continue
        names.append({"name": n, "label": l, "src": k, "dag": nd.get((n, l), -FKEY), "cnf": nc.get((n, l), -FKEY),
                      "nnf": nn.get((n, l), -FKEY) if with_nnf else 0})
    res["names"] = names
    res["sizes"] = {"src": len(res["src"]), "dag": len(res["dag"]), "cnfvars": res["cnf"]["nvars"],
                    "nnf": len(res["nnf"]), "cyclic": 0}
    return res


# ------------------------------------------------------------------ TermAlgebra family
def _q(db, eng, goal):
    """Run goal (a Term) -> (code, results) with code 1 success / 0 failure / 2 ProbLog error."""
    from problog.errors import ProbLogError
    from problog.engine import DefaultEngine
    eng = DefaultEngine()       # a fresh engine per goal: an engine that raised is not reused
    try:
        res = eng.query(db, goal)
    except ProbLogError as e:
        return 2, type(e).__name__
    return (1 if res else 0), res


def term_cases(cases):
    """cases: list of dicts with 'kind' and already-rendered texts; returns outcomes (see vlib/checks/c14.py)."""
    from problog.program import PrologString
    from problog.engine import DefaultEngine
    from problog.logic import Term
    from . import terms as T
    out = []
    for c in cases:
        eng = DefaultEngine()
        r = {"id": c["id"], "kind": c["kind"]}
        try:
            if c["kind"] == "unify":
                prog = ("r(p(%(x)s,%(y)s)) :- %(x)s = %(y)s.\nn :- %(x)s \\= %(y)s.\nh(%(yh)s).\nrh(%(x)s) :- h(%(x)s).\n"
                        "h2(%(yh)s) :- true.\nrh2(%(x)s) :- h2(%(x)s).\n"
                        "kk(zz). kk2(f(yy),ww).\nh3(%(yh)s) :- kk(Zb1), kk2(f(Zb2),Zb3).\nrh3(%(x)s) :- h3(%(x)s).\n" % c)
                db = eng.prepare(PrologString(prog))
                code, res = _q(db, eng, Term("r", None))
                r["eq"] = {"ok": code, "res": T.from_problog(res[0][0]) if code == 1 else T.A("none")}
                if code == 1 and len(res) != 1:
                    r["crash"] = "=/2 returned %d answers" % len(res)
                code, res = _q(db, eng, Term("n"))
                r["neq"] = {"ok": code}
                code, res = _q(db, eng, Term("rh", None))
                r["head"] = {"ok": code, "res": T.from_problog(res[0][0]) if code == 1 else T.A("none")}
                code2, res2 = _q(db, eng, Term("rh2", None))
                r["head2"] = {"ok": code2, "res": T.from_problog(res2[0][0]) if code2 == 1 else T.A("none")}
                code3, res3 = _q(db, eng, Term("rh3", None))
                r["head3"] = {"ok": code3, "res": T.from_problog(res3[0][0]) if code3 == 1 else T.A("none")}
            elif c["kind"] == "cmp":
                prog = ("c(O) :- compare(O, %(x)s, %(y)s).\nlt :- %(x)s @< %(y)s.\nle :- %(x)s @=< %(y)s.\n"
                        "gt :- %(x)s @> %(y)s.\nge :- %(x)s @>= %(y)s.\neq :- %(x)s == %(y)s.\nne :- %(x)s \\== %(y)s.\n" % c)
                db = eng.prepare(PrologString(prog))
                code, res = _q(db, eng, Term("c", None))
                if code != 1:
                    r["crash"] = "compare/3 outcome %s %s" % (code, res)
                else:
                    o = str(res[0][0])
                    r["cmp"] = {"<": -1, "=": 0, ">": 1}.get(o.strip("'"), 99)
                for nm in ("lt", "le", "gt", "ge", "eq", "ne"):
                    code, res = _q(db, eng, Term(nm))
                    r[nm] = code
            elif c["kind"] == "sort":
                db = eng.prepare(PrologString("s(L) :- sort(%(list)s, L).\n" % c))
                code, res = _q(db, eng, Term("s", None))
                r["ok"] = code
                lst = []
                if code == 1:
                    t = T.from_problog(res[0][0])
                    while t["t"] == "c" and len(t["a"]) == 2:
                        lst.append(t["a"][0])
                        t = t["a"][1]
                r["res"] = lst
        except Exception as e:
            from .pl import err_info
            info = err_info(e)
            r["crash"] = "%s: %s" % (info["error"], info["msg"])
            r["site"] = info["site"]
            r["error"] = info["error"]
        out.append(r)
    return {"results": out}


# ------------------------------------------------------------------ C18 term equality / hashing
def _build_obj(spec):
    from problog.logic import Term, Constant, Var, Not
    from problog.parser import PrologParser
    from problog.program import ExtendedPrologFactory
    k = spec[0]
    if k == "Term":
        return Term(spec[1], *[_build_obj(a) for a in (spec[2] if len(spec) > 2 else [])])
    if k == "Constant":
        return Constant(spec[1])
    if k == "Var":
        return Var(spec[1])
    if k == "Not":
        return Not(spec[1], _build_obj(spec[2]))
    if k == "parse":
        return Term.from_string(spec[1])
    if k == "neg":
        return -_build_obj(spec[1])
    if k == "list":
        from problog.logic import list2term
        return list2term([_build_obj(a) for a in spec[1]])
    raise ValueError(spec)


def eq_matrix(groups):
    """groups: list of {'id', 'specs': [spec...]} -> eq matrix, hash classes, unification matrix per group"""
    from problog.engine_unify import unify_value, UnifyError
    from problog.logic import is_ground
    out = []
    for g in groups:
        objs = [_build_obj(s) for s in g["specs"]]
        n = len(objs)
        eq0 = [[1 if (objs[i] == objs[j]) else 0 for j in range(n)] for i in range(n)]
        hs = []
        for o in objs:
            hs.append(hash(o))
        # hashing caches state inside the objects (also in their arguments): == is observed again afterwards
        eq = [[1 if (objs[i] == objs[j]) else 0 for j in range(n)] for i in range(n)]
        ids = {}
        hcls = [ids.setdefault(h, len(ids) + 1) for h in hs]
        un = []
        for i in range(n):
            row = []
            for j in range(n):
                try:
                    unify_value(objs[i], objs[j], {})
                    row.append(1)
                except UnifyError:
                    row.append(0)
                except Exception:
                    row.append(2)
            un.append(row)
        gr = [1 if is_ground(o) else 0 for o in objs]

        def erased(o):
            """the term with the Python classes erased: functor text (without quotes) and arguments"""
            try:
                f = str(o.functor).strip("'")
                args = getattr(o, "args", ())
                return f + ("(" + ",".join(erased(a) for a in args) + ")" if args else "")
            except Exception:
                return repr(o)
        reprs = [repr(o) for o in objs]
        strs = [str(o) for o in objs]
        # printing caches state inside the objects as well: == is observed a third time
        eq2 = [[1 if (objs[i] == objs[j]) else 0 for j in range(n)] for i in range(n)]
        out.append({"id": g["id"], "eq": eq, "eq0": eq0, "eq2": eq2, "hash": hcls, "unif": un, "ground": gr, "erased": [erased(o) for o in objs],
                    "repr": [repr(o) for o in objs], "types": [type(o).__name__ for o in objs]})
    return {"results": out}


# ------------------------------------------------------------------ C16 arithmetic
def arith_cases(cases):
    from problog.program import PrologString
    from problog.logic import Term, Constant
    out = []
    for c in cases:
        r = {"id": c["id"], "kind": c["kind"]}
        try:
            from problog.engine import DefaultEngine
            eng = DefaultEngine()
            if c["kind"] == "is":
                db = eng.prepare(PrologString("r(X) :- X is %s.\n" % c["text"]))
                code, res = _q(db, eng, Term("r", None))
                o = {"ok": code, "k": "i", "q": 0, "rep": 1}
                if code == 1:
                    v = res[0][0]
                    val = v.functor if isinstance(v, Constant) else None
                    if isinstance(val, bool) or not isinstance(val, (int, float)):
                        o["rep"] = 0
                        o["raw"] = repr(v)
                    else:
                        o["k"] = "i" if isinstance(val, int) else "f"
                        q = val * 4
                        if q != int(q) or abs(q) > 2 ** 30:
                            o["rep"] = 0
                        else:
                            o["q"] = int(q)
                        o["raw"] = repr(val)
                elif code == 2:
                    o["raw"] = res
                r["out"] = o
            elif c["kind"] == "isb":
                # is/2 with the left-hand side already bound to a number (directly, or through a variable bound earlier)
                tmpl = "t :- %s is %s.\n" if not c.get("via_var") else "t :- X = %s, X is %s.\n"
                db = eng.prepare(PrologString(tmpl % (c["nt"], c["text"])))
                code, res = _q(db, eng, Term("t"))
                r["out"] = code
            elif c["kind"] == "cmp":
                db = eng.prepare(PrologString("t :- %s %s %s.\n" % (c["xt"], c["op"], c["yt"])))
                code, res = _q(db, eng, Term("t"))
                r["out"] = code
            elif c["kind"] == "between":
                x = "X" if not c["xbound"] else str(c["x"])
                db = eng.prepare(PrologString("r(X) :- X = %s, between(%d, %d, X).\n" % (x, c["l"], c["h"])))
                code, res = _q(db, eng, Term("r", None))
                r["ok"] = code
                r["sols"] = [int(a[0]) for a in res] if code == 1 else []
        except Exception as e:
            from .pl import err_info
            info = err_info(e)
            r["crash"] = "%s: %s" % (info["error"], info["msg"])
            r["site"] = info["site"]
            r["error"] = info["error"]
        out.append(r)
    return {"results": out}


# ------------------------------------------------------------------ C25 export
def ground_export(text, break_cycles=False, compact=False, fmt="pl", keep_duplicates=False):
    """What `problog ground` does (tasks/ground.py main), then re-evaluate the exported text."""
    from problog.program import PrologString, ExtendedPrologFactory
    from problog.parser import DefaultPrologParser
    from problog.formula import LogicFormula, LogicDAG
    from problog.cnf_formula import CNF
    target = LogicDAG if (break_cycles or fmt == "cnf") else LogicFormula
    gp = target.createFrom(PrologString(text, parser=DefaultPrologParser(ExtendedPrologFactory())),
                           label_all=True, avoid_name_clash=not compact, keep_order=True, keep_all=False,
                           keep_duplicates=keep_duplicates, hide_builtins=False, propagate_evidence=False, propagate_weights=None)
    if fmt == "cnf":
        cnf = CNF.createFrom(gp)
        txt = cnf.to_dimacs()
        internal = []
        for cl in cnf.clauses:
            if cl and cl[0] == "c":
                continue
            internal.append([int(x) for x in cl if isinstance(x, int) and not isinstance(x, bool)])
        return {"dimacs": parse_dimacs(txt), "internal": {"nvars": cnf.atomcount, "clauses": internal}}
    out = gp.to_prolog()
    from problog import get_evaluatable
    res = get_evaluatable().create_from(PrologString(out)).evaluate()
    return {"answers": {str(k): float(v) for k, v in res.items()}, "exported": out}


# ------------------------------------------------------------------ C29 prepared database extension
def extend_history(base_text, steps):
    """steps: ['extend'] | ['add', clause_text] | ['q', level, atom_text]   (level 0 = base db, k = k-th extension)"""
    from problog.program import PrologString
    from problog.engine import DefaultEngine
    from problog.logic import Term
    from problog import get_evaluatable
    from problog.errors import ProbLogError
    from .pl import err_info
    eng = DefaultEngine()
    dbs = [eng.prepare(PrologString(base_text))]
    out = []
    for st in steps:
        if st[0] == "extend":
            dbs.append(dbs[-1].extend())
            out.append({"op": "extend"})
        elif st[0] == "add":
            for cl in PrologString(st[1]):
                dbs[-1] += cl
            out.append({"op": "add"})
        elif st[0] == "q":
            db = dbs[st[1]]
            try:
                e2 = DefaultEngine()
                lf = e2.ground_all(db, queries=[Term.from_string(st[2])], evidence=[])
                res = get_evaluatable().create_from(lf).evaluate()
                out.append({"op": "q", "answers": {str(k): float(v) for k, v in res.items()}})
            except Exception as e:
                info = err_info(e)
                info["op"] = "q"
                out.append(info)
    return {"steps": out}


# ------------------------------------------------------------------ C13 / C33 deterministic queries
def det_queries(cases):
    """cases: [{'id', 'text', 'query'}] -> ordered answers (full instantiated query terms) of engine.query"""
    from problog.program import PrologString
    from problog.engine import DefaultEngine
    from problog.logic import Term
    from problog.errors import ProbLogError
    from . import terms as T
    from .pl import err_info
    out = []
    for c in cases:
        r = {"id": c["id"]}
        try:
            eng = DefaultEngine()
            db = eng.prepare(PrologString(c["text"]))
            q = Term.from_string(c["query"])
            try:
                res = eng.query(db, q)
                vmap = {}
                r["ok"] = 1
                try:
                    r["ans"] = [T.from_problog(q.with_args(*a), {}) for a in res]
                except T.TooLarge:
                    r["ans"] = []
                    r["skip"] = 1
            except ProbLogError as e:
                r["ok"] = 2
                r["ans"] = []
                r["err"] = type(e).__name__
        except Exception as e:
            info = err_info(e)
            r["crash"] = "%s: %s" % (info["error"], info["msg"])
            r["error"] = info["error"]
            r["site"] = info["site"]
        out.append(r)
    return {"results": out}


# ------------------------------------------------------------------ C22 sampler with controlled randomness
class _ScriptedRandom(object):
    """Stands in for the `random` module inside problog.tasks.sample.  Every random() call is answered so that the
    caller's comparison comes out as the scripted decision, with a value JUST below/above (or exactly at) the
    threshold the caller is about to use - so the threshold and the comparison operator themselves are tested."""

    def __init__(self, real, prefix):
        self._real = real
        self.prefix = list(prefix)
        self.decisions = []       # [threshold, outcome]
        self.uncontrolled = 0

    def __getattr__(self, name):
        return getattr(self._real, name)

    def random(self):
        import sys
        fr = sys._getframe(1)
        loc = fr.f_locals
        i = len(self.decisions)
        want = self.prefix[i] if i < len(self.prefix) else True
        try:
            if fr.f_code.co_name != "add_atom":
                raise KeyError
            if loc.get("group") is not None:
                thr = float(loc["p"]) / float(loc["r"])
                inclusive = True           # value = random() <= p / r
            else:
                thr = float(loc["probability"])
                inclusive = False          # value = random() < prob
        except Exception:
            self.uncontrolled += 1
            return self._real.random()
        self.decisions.append([thr, bool(want)])
        if want:
            return thr if inclusive else thr - max(1e-12, thr * 1e-12)
        return thr + max(1e-12, thr * 1e-12) if inclusive else thr


def sample_tree(text, propagate_evidence=False, max_branches=700):
    """Enumerate every coin-flip branch of the real sampler (one iteration of tasks.sample.sample per branch)."""
    import problog.tasks.sample as S
    from problog.program import PrologString
    real = S.random
    branches = []
    stack = [[]]
    uncontrolled = 0
    try:
        while stack:
            prefix = stack.pop()
            if len(branches) >= max_branches:
                return {"too_many": True, "branches": []}
            sr = _ScriptedRandom(real, prefix)
            S.random = sr
            model = PrologString(text)
            engine = S.init_engine()
            db, evidence, ev_target = S.init_db(engine, model, propagate_evidence)
            target = S.SampledFormula()
            for ev_fact in evidence:
                target.add_atom(*ev_fact)
            engine.functions = S.FunctionStore(target=target, database=db, engine=engine)
            result = S.ground(engine, db, target=target)
            accepted = bool(S.verify_evidence(engine, db, ev_target, target))
            values = {str(k): bool(v) for k, v in result.to_dict().items()}
            txt = result.to_string(db, with_probability=True)
            printed = None
            for line in txt.splitlines():
                if line.startswith("% Probability:"):
                    printed = float(line.split(":")[1])
            n = len(sr.decisions)
            uncontrolled += sr.uncontrolled
            branches.append({"decisions": sr.decisions, "accepted": accepted, "values": values, "printed": printed,
                             "exact_printed": float(target.probability)})
            for j in range(len(prefix), n):
                stack.append([d[1] for d in sr.decisions[:j]] + [False])
    finally:
        S.random = real
    return {"branches": branches, "uncontrolled": uncontrolled}


# ------------------------------------------------------------------ C28 python <-> prolog values
def _val_to_py(v):
    t = v["t"]
    if t == "int":
        return v["v"]
    if t == "flt":
        return v["v"] / 4.0
    if t == "str":
        return "".join(chr(c) for c in v["c"])
    if t == "list":
        return [_val_to_py(x) for x in v["a"]]
    if t == "tup":
        return tuple(_val_to_py(x) for x in v["a"])
    raise ValueError(t)


def _py_to_val(x):
    if isinstance(x, bool):
        return {"t": "other", "r": repr(x)}
    if isinstance(x, int):
        return {"t": "int", "v": x}
    if isinstance(x, float):
        q = x * 4
        return {"t": "flt", "v": int(q)} if q == int(q) else {"t": "other", "r": repr(x)}
    if isinstance(x, str):
        return {"t": "str", "c": [ord(c) for c in x]}
    if isinstance(x, list):
        return {"t": "list", "a": [_py_to_val(y) for y in x]}
    if isinstance(x, tuple):
        return {"t": "tup", "a": [_py_to_val(y) for y in x]}
    try:
        from problog.logic import Term
        if isinstance(x, Term) and x.arity == 0 and isinstance(x.functor, str):
            return {"t": "str", "c": [ord(c) for c in x.functor]}      # an atom: its text
    except Exception:
        pass
    return {"t": "other", "r": repr(x)}


def pypl_roundtrip(values, via_export=False):
    from problog.pypl import py2pl, pl2py
    out = []
    for v in values:
        r = {"id": v["id"]}
        try:
            pv = _val_to_py(v["v"])
            if not via_export:
                r["out"] = _py_to_val(pl2py(py2pl(pv)))
            else:
                r["out"] = _py_to_val(_export_roundtrip(pv, v["id"]))
            r["ok"] = 1
        except Exception as e:
            r["ok"] = 2
            r["out"] = {"t": "other", "r": "%s: %s" % (type(e).__name__, e)}
        out.append(r)
    return {"results": out}


def _export_roundtrip(pv, uid):
    """Define a problog_export'ed Python function returning pv in a module file, load it with use_module and call it."""
    import os
    import tempfile
    from problog.program import PrologString
    from problog.engine import DefaultEngine
    from problog.logic import Term
    from problog.pypl import pl2py
    if isinstance(pv, bool) or not isinstance(pv, (int, float, str, list)):
        raise ValueError("no export type for %r" % (pv,))
    typ = {int: "-int", float: "-float", str: "-str", list: "-list"}[type(pv)]
    d = os.path.join(os.path.dirname(os.path.dirname(os.path.abspath(__file__))), "out", "c28mod")
    os.makedirs(d, exist_ok=True)
    fn = os.path.join(d, "m_%d_%d.py" % (os.getpid(), uid))
    with open(fn, "w") as f:
        f.write("from problog.extern import problog_export\n\n@problog_export(%r)\ndef vv():\n    return %r\n" % (typ, pv))
    try:
        eng = DefaultEngine()
        db = eng.prepare(PrologString(":- use_module('%s').\n" % fn))
        res = eng.query(db, Term("vv", None))
        if len(res) != 1:
            raise ValueError("exported function gave %d answers" % len(res))
        return pl2py(res[0][0])
    finally:
        os.unlink(fn)


# ------------------------------------------------------------------ C12 semirings
def semiring_ops(cases):
    """Apply the real semirings to rational operands; return for each (case, semiring) the result as a float
    (log semiring: exp of the result; symbolic: arithmetic value of the expression)."""
    import math
    from problog.evaluator import SemiringProbability, SemiringLogProbability, SemiringSymbolic, Semiring
    from problog.logic import Constant
    out = []

    def conv_in(sr, name, q):
        v = q[0] / q[1]
        if name == "prob":
            return v
        if name == "log":
            return math.log(v) if v > 0 else float("-inf")
        return "1" if q[0] == q[1] else ("0" if q[0] == 0 else repr(v))

    def conv_out(name, r):
        if name == "prob":
            return float(r)
        if name == "log":
            return math.exp(r)
        return float(eval(str(r), {"__builtins__": {}}, {}))

    for c in cases:
        res = {"id": c["id"]}
        for name, sr in (("prob", SemiringProbability()), ("log", SemiringLogProbability()), ("symbolic", SemiringSymbolic())):
            try:
                op = c["op"]
                if op in ("plus", "times", "normalize"):
                    r = getattr(sr, op)(conv_in(sr, name, c["a"]), conv_in(sr, name, c["b"]))
                elif op == "negate":
                    r = sr.negate(conv_in(sr, name, c["a"]))
                elif op == "value":
                    r = sr.value(Constant(c["a"][0] / c["a"][1]))
                elif op == "ad_complement":
                    r = sr.ad_complement([conv_in(sr, name, w) for w in c["ws"]])
                elif op == "one":
                    r = sr.one()
                elif op == "zero":
                    r = sr.zero()
                elif op == "expr":
                    def ev(e):
                        if e["op"] == "leaf":
                            return conv_in(sr, name, e["q"])
                        args = [ev(x) for x in e["a"]]
                        return getattr(sr, e["op"])(*args)
                    r = ev(c["x"])
                elif op in ("wide_plus", "wide_times"):
                    def wide_in(w):
                        if name == "log":
                            return math.log(w[0] / w[1]) - w[2] * math.log(10.0)
                        v = (w[0] / w[1]) * 10.0 ** (-w[2])
                        return v if name == "prob" else repr(v)
                    r = getattr(sr, op[5:])(wide_in(c["wa"]), wide_in(c["wb"]))
                    # reported in log space (the magnitudes do not fit the float range after exp for large exponents)
                    if name == "log":
                        lv = float(r)
                    else:
                        fv = float(r) if name == "prob" else float(eval(str(r), {"__builtins__": {}}, {}))
                        lv = math.log(fv) if fv > 0 else float("-inf")
                    res[name] = {"ok": 1, "v": 0.0, "logv": lv if lv != float("-inf") else -1e308}
                    continue
                res[name] = {"ok": 1, "v": conv_out(name, r)}
                if op == "one":
                    res[name]["is_one"] = bool(sr.is_one(r))
                if op == "zero":
                    res[name]["is_zero"] = bool(sr.is_zero(r))
            except ZeroDivisionError:
                res[name] = {"ok": 0, "err": "ZeroDivisionError"}
            except Exception as e:
                res[name] = {"ok": 0, "err": type(e).__name__ + ": " + str(e)[:80]}
        out.append(res)

    # documented base-class defaults on a minimal subclass
    class Mini(Semiring):
        def one(self):
            return 1.0

        def zero(self):
            return 0.0

        def plus(self, a, b):
            return a + b

        def times(self, a, b):
            return a * b
    m = Mini()
    base = {}
    for nm, f in (("is_one(one())", lambda: m.is_one(m.one())), ("is_zero(zero())", lambda: m.is_zero(m.zero())),
                  ("normalize(a, one()) == a", lambda: m.normalize(0.3, m.one()) == 0.3),
                  ("not is_one(zero())", lambda: not m.is_one(m.zero()))):
        try:
            base[nm] = bool(f())
        except Exception as e:
            base[nm] = "%s: %s" % (type(e).__name__, e)
    return {"results": out, "base": base}


def prob_terms(text):
    """Default inference; the answers are returned as (JSON term, probability) pairs."""
    from problog.program import PrologString
    from problog import get_evaluatable
    from . import terms as T
    res = get_evaluatable().create_from(PrologString(text)).evaluate()
    return {"answers": [[T.from_problog(k, {}), float(v)] for k, v in res.items()]}


# ------------------------------------------------------------------ C20 MPE
def mpe(text, use_semiring=False):
    from problog.program import PrologString
    from problog.formula import LogicDAG, LogicFormula
    from problog.tasks.mpe import mpe_maxsat, mpe_semiring
    if use_semiring:
        lf = LogicFormula.create_from(PrologString(text), label_all=True, avoid_name_clash=True)
        prob, facts = mpe_semiring(lf)
    else:
        dag = LogicDAG.createFrom(PrologString(text), avoid_name_clash=True, label_all=True, labels=[("output", 1)])
        prob, facts = mpe_maxsat(dag)
    if facts is None:
        return {"unsat": True, "prob": None, "facts": []}
    out = []
    for f in facts:
        neg = f.is_negated() if hasattr(f, "is_negated") else False
        a = -f if neg else f
        out.append([str(a), 0 if neg else 1])
    return {"unsat": False, "prob": float(prob) if prob is not None else None, "facts": out}


# ------------------------------------------------------------------ C21 DT-ProbLog
def dt(text, search="exhaustive"):
    from problog.program import PrologString
    from problog.tasks.dtproblog import dtproblog
    result, score, stats = dtproblog(PrologString(text), search=search)
    return {"choices": {str(k): int(v) for k, v in result.items()}, "score": float(score), "evals": stats.get("eval")}


def local_search_replay(tables):
    """Run the real search_local on scripted score tables. tables: [{'id', 'n', 'table': [{'c': bits, 'v': int}]}]"""
    from problog.tasks.dtproblog import search_local
    from problog.logic import Term
    out = []
    for t in tables:
        n = t["n"]
        names = [Term("d%d" % i) for i in range(1, n + 1)]
        score = {tuple(e["c"]): e["v"] for e in t["table"]}
        s = Term("s")

        class Fake(object):
            def evaluate(self, weights=None, **kw):
                bits = tuple(int(weights[nm]) for nm in names)
                return {s: float(score[bits])}
        choices, best, stats = search_local(Fake(), [(i + 1, nm) for i, nm in enumerate(names)], {s: 1.0}, [])
        out.append({"id": t["id"], "res": [int(choices[nm]) for nm in names], "best": int(round(best)), "evals": stats["eval"]})
    return {"results": out}


# ------------------------------------------------------------------ C31 Bayesian network export
def bn_export(text):
    from problog.program import PrologString, ExtendedPrologFactory
    from problog.parser import DefaultPrologParser
    from problog.formula import LogicDAG
    from problog.tasks.bayesnet import formula_to_bn
    gp = LogicDAG.createFrom(PrologString(text, parser=DefaultPrologParser(ExtendedPrologFactory())),
                             label_all=True, avoid_name_clash=False, keep_order=True, keep_all=False,
                             keep_duplicates=False, hide_builtins=False)
    bn = formula_to_bn(gp)
    vs = [{"name": str(n), "values": [str(x) for x in v.values]} for n, v in bn.vars.items()]
    fs = []
    ok = True
    for rv, f in bn.factors.items():
        f = f.to_factor()
        rows = []
        det = True
        for pv, probs in f.table.items():
            nums = []
            for x in probs:
                t = round(float(x) * 10, 9)
                if abs(t - round(t)) > 1e-6:
                    ok = False
                nums.append(int(round(t)))
                if abs(float(x)) > 1e-12 and abs(float(x) - 1.0) > 1e-12:
                    det = False
            # parent values are used as dict keys by the tool: False/True and 0/1 are the same key in Python
            rows.append({"pv": [str(int(x)) if isinstance(x, bool) else str(x) for x in pv], "p": nums})
        if det:
            for r in rows:
                r["p"] = [1 if x == 10 else 0 for x in r["p"]]
        fs.append({"rv": str(rv), "parents": [str(p) for p in f.parents], "rows": rows, "d": 1 if det else 10})
    queries = [str(q) for q, n in gp.queries()]
    return {"vars": vs, "factors": fs, "tenths": ok, "query_names": queries}


# ------------------------------------------------------------------ C27 / C17 error surfaces
def run_texts(texts, mode="infer"):
    """mode 'parse': only parse (iterate the program); 'infer': default inference.  Returns per text outcome class."""
    import io
    import contextlib
    from problog.program import PrologString
    from problog import get_evaluatable
    from problog.errors import ProbLogError
    from .pl import err_site
    out = []
    for t in texts:
        try:
            with contextlib.redirect_stdout(io.StringIO()):
                if mode == "parse":
                    n = 0
                    for _ in PrologString(t["text"]):
                        n += 1
                    out.append({"id": t["id"], "outcome": "ok", "n": n})
                else:
                    res = get_evaluatable().create_from(PrologString(t["text"])).evaluate()
                    out.append({"id": t["id"], "outcome": "ok", "n": len(res)})
        except ProbLogError as e:
            out.append({"id": t["id"], "outcome": "problog_error", "error": type(e).__name__})
        except RecursionError:
            out.append({"id": t["id"], "outcome": "inconclusive", "error": "RecursionError"})
        except Exception as e:
            site, chain = err_site(e)
            out.append({"id": t["id"], "outcome": "crash", "error": type(e).__name__, "msg": str(e)[:200], "site": site, "chain": chain})
    return {"results": out}


def builtin_signatures():
    from problog.engine import DefaultEngine
    e = DefaultEngine()
    return {"sigs": sorted(str(k) for k in e.get_builtins().keys())}


# ------------------------------------------------------------------ C17 print / parse round trip
def _json_to_problog(t):
    from problog.logic import Term, Constant, Var
    k = t["t"]
    if k == "v":
        return Var("V%d" % t["n"])
    if k == "i":
        return Constant(t["v"])
    if k == "f":
        return Constant(t["v"] / 4.0)
    name = "".join(chr(c) for c in t["c"])
    if k == "s":
        return Constant('"%s"' % name)
    if k == "a":
        import re
        if re.match(r"^[a-z][A-Za-z0-9_]*$", name) or name == "[]":
            return Term(name)
        return Term("'%s'" % name)
    args = [_json_to_problog(a) for a in t["a"]]
    if name == "." and len(args) == 2:
        return Term(".", *args)
    from problog.logic import And, Or, Not, Clause
    if name == "," and len(args) == 2:
        return And(*args)
    if name == ";" and len(args) == 2:
        return Or(*args)
    if name == "\\+" and len(args) == 1:
        return Not("\\+", args[0])
    if name == ":-" and len(args) == 2:
        return Clause(args[0], args[1])
    return Term(name, *args)


def print_parse(cases):
    """cases: [{'id', 'text', 'clause'}]: parse the (fully parenthesised) text, print the term with str(), parse again"""
    from problog.logic import Term
    from problog.program import PrologString
    from problog.errors import ProbLogError
    from . import terms as T
    from .pl import err_site
    out = []

    def parse(txt, clause):
        if clause:
            cl = list(PrologString(txt + "."))
            if len(cl) != 1:
                raise ValueError("parsed into %d clauses" % len(cl))
            return cl[0]
        return Term.from_string(txt)
    from problog.logic import Constant, Var, And, Or, Not

    def kind(x):
        if x is None or isinstance(x, (int, Var)):
            return "var"
        if isinstance(x, Constant):
            v = x.functor
            if isinstance(v, str):
                return "string"
            return ("neg" if v < 0 else "") + ("int" if isinstance(v, int) else "float")
        if x.arity == 0:
            f = str(x.functor)
            return "atom[]" if f == "[]" else ("qatom" if f[:1] == "'" else "atom")
        if x.functor == "." and x.arity == 2:
            y = x
            while isinstance(y, Term) and y.functor == "." and y.arity == 2:
                y = y.args[1]
            return "list" if (isinstance(y, Term) and y.functor == "[]" and y.arity == 0) else "plist"
        if getattr(x, "op_spec", None) is None and not isinstance(x, (And, Or, Not)):
            return "cmp"                       # an ordinary compound: neither name nor arity matter to the printer
        return "%s/%d" % (str(x.functor).strip("'"), x.arity)

    def fails(sub):
        try:
            a = T.from_problog(sub, {})
            b = T.from_problog(Term.from_string(str(sub)), {})
            return a != b
        except T.TooLarge:
            return False
        except Exception:
            return True

    def min_failing_shape(t):
        """shape (root kind, child kinds) of a smallest subterm whose own print / re-parse round trip fails"""
        best = None
        stack = [(t, 0)]
        order = []
        while stack:
            x, d = stack.pop()
            if isinstance(x, Term) and not (x is None) and x.arity > 0:
                order.append((d, x))
                for a in x.args:
                    stack.append((a, d + 1))
        for d, x in sorted(order, key=lambda p: -p[0]):       # deepest first
            if fails(x):
                best = x
                break
        if best is None:
            return ""
        # culprit edges: keep one argument, replace every other argument by a plain atom; if the round trip still fails
        # the edge (root, position, kind of that argument) is a cause by itself
        edges = []
        for i, a in enumerate(best.args):
            args = [Term("zz") for _ in best.args]
            args[i] = a
            try:
                if fails(best.with_args(*args)):
                    e = "%s@%s:%s" % (kind(best), "*" if kind(best) == "cmp" else i + 1, kind(a))
                    if e not in edges:
                        edges.append(e)
            except Exception:
                pass
        if edges:
            return "|".join(edges)
        return "%s(%s)" % (kind(best), ",".join(kind(a) for a in best.args))

    T.EXACT_NUMBERS = True
    for c in cases:
        r = {"id": c["id"], "stage": "parse1"}
        t1 = None
        try:
            try:
                t1 = parse(c["text"], c.get("clause"))
                r["first"] = T.from_problog(t1, {})
                r["stage"] = "print"
                txt = str(t1)
                r["text"] = txt
                r["stage"] = "parse2"
                t2 = parse(txt, c.get("clause"))
                try:
                    r["back"] = T.from_problog(t2, {})
                except TypeError as e:
                    if not str(e).startswith("cannot convert"):
                        raise
                    # the printed text was read back as something that is not a term at all (e.g. "X<-[a]" read as the
                    # clause operator <- with a Python list inside): certainly not the term that was printed
                    r["back"] = T.A("<re-parsed text is not a term>")
                r["ok"] = 1
            except ProbLogError as e:
                r["ok"] = 2
                r["err"] = "%s: %s" % (type(e).__name__, str(e)[:100])
            except ValueError as e:
                # Term.from_string's own complaint: the text is a clause / several statements, not one term
                if str(e).startswith("Invalid term"):
                    r["ok"] = 2
                    r["err"] = "text is not one term: %s" % str(e)[:100]
                else:
                    raise
        except T.TooLarge:
            r["skip"] = 1
        except Exception as e:
            site, chain = err_site(e)
            r["crash"] = "%s: %s" % (type(e).__name__, str(e)[:150])
            r["site"] = site
            r["error"] = type(e).__name__
        if t1 is not None and (r.get("ok") != 1 or r.get("first") != r.get("back")):
            try:
                r["shape"] = min_failing_shape(t1)
            except Exception as e:
                r["shape"] = "?%s" % type(e).__name__
        out.append(r)
    return {"results": out}


# ------------------------------------------------------------------ C23 k-best / explain
def kbest(text, convergence=None, explain=False):
    import re
    from problog.program import PrologString
    from problog import get_evaluatable
    f = get_evaluatable("kbest").create_from(PrologString(text))
    kw = {}
    if convergence is not None:
        kw["convergence"] = convergence
    lines = []
    if explain:
        kw["explain"] = lines
    res = f.evaluate(**kw)
    out = {}
    for k, v in res.items():
        if isinstance(v, tuple):
            out[str(k)] = [float(v[0]), float(v[1])]
        else:
            out[str(k)] = [float(v), float(v)]
    # explanation blocks in evaluation order: one block per query
    blocks, cur = [], None
    for ln in lines:
        ln = ln.strip()
        if not ln:
            if cur is not None:
                blocks.append(cur)
                cur = None
            continue
        m = re.match(r"^(.*?)\s*:-\s*(.*)\.\s*%\s*P=([-0-9.eE+]+)\s*$", ln)
        if m:
            if cur is None:
                cur = {"heads": [], "ps": [], "kind": "proofs"}
            cur["heads"].append(m.group(1).strip())
            cur["ps"].append(float(m.group(3)))
            continue
        m = re.match(r"^(.*?)\s*:-\s*(fail|true)\.$", ln)
        if m:
            if cur is not None:
                blocks.append(cur)
                cur = None
            blocks.append({"heads": [m.group(1).strip()], "ps": [], "kind": m.group(2)})
            # a ':- fail.' line emitted after an empty search is followed by a blank line
            continue
        blocks.append({"heads": [], "ps": [], "kind": "unparsed", "line": ln})
    if cur is not None:
        blocks.append(cur)
    return {"bounds": out, "order": [str(k) for k in res], "blocks": blocks}


# ------------------------------------------------------------------ C24 learning from interpretations
def lfi_trace(text, examples, iters=6, opts=None, seed=0):
    """Step LFI `iters` times; after each step record the reported log-likelihood and all parameters."""
    import random
    import logging
    from problog.program import PrologString
    from problog.logic import Term
    from problog.learning.lfi import LFIProblem
    logging.getLogger("problog_lfi").setLevel(logging.CRITICAL)
    random.seed(seed)
    ex = [[(Term.from_string(a) if hasattr(Term, "from_string") else Term(a), bool(v)) for a, v in e] for e in examples]
    lfi = LFIProblem(PrologString(text), ex, max_iter=iters, **(opts or {}))
    lfi.prepare()

    def weights():
        out = []
        for i, name in enumerate(lfi.names):
            for key, w in lfi.get_weights(i):
                out.append([i, str(name.with_probability()) if hasattr(name, "with_probability") else str(name), str(key), float(w)])
        return out
    groups = [[float(av), [int(i) for i in idx]] for av, idx in lfi._adatoms if idx]
    steps = [{"ll": None, "w": weights()}]
    ignored = 0
    for _ in range(iters):
        ll, _cs = lfi.step()
        steps.append({"ll": float(ll), "w": weights()})
    return {"names": [str(n) for n in lfi.names], "groups": groups, "steps": steps,
            "nex": sum(len(e.n) if hasattr(e.n, "__len__") else 1 for e in lfi._compiled_examples), "model": lfi.get_model()}


# ------------------------------------------------------------------ C29 structural histories (alphabet of ClauseDB.tla)
def clausedb_history(cases):
    """cases: [{'id', 'hist': [{'op': 'fact'|'rule'|'extend', 'd', 's', 'body', 'cid'}], 'every': bool}]
    Executes the operations on real ClauseDB objects (database 1 = a prepared empty program) and records what every
    database shows, navigating with find() / get_node() as the engine does."""
    from problog.program import PrologString
    from problog.engine import DefaultEngine
    from problog.logic import Term, Clause, And
    out = []
    for c in cases:
        r = {"id": c["id"]}
        try:
            dbs = [DefaultEngine().prepare(PrologString(""))]
            parents = [0]
            cid_of = {}                  # (owner db number, node index) -> clause id
            preds = sorted({h["s"] for h in c["hist"] if h["s"]} | {b for h in c["hist"] for b in h["body"]})

            def owner(d, idx):
                # the database whose node list holds index idx when looked up from database number d
                while True:
                    db = dbs[d - 1]
                    idx = db._resolve_index(idx)
                    if idx < db._ClauseDB__offset and parents[d - 1] != 0:
                        d = parents[d - 1]
                    else:
                        return d, idx

            def cids(d, node):
                if not node or type(node).__name__ != "define":
                    return []
                res = []
                for ch in node.children:
                    res.append(cid_of.get(owner(d, ch), -1))
                return res

            def snapshot(n):
                views, calls = [], []
                for d in range(1, len(dbs) + 1):
                    db = dbs[d - 1]
                    v, cl = [], []
                    for s in preds:
                        h = db.find(Term(s))
                        node = db.get_node(h) if h is not None else None
                        v.append({"s": s, "cids": cids(d, node)})
                        if node and type(node).__name__ == "define":
                            for ch in node.children:
                                cn = db.get_node(ch)
                                if type(cn).__name__ != "clause":
                                    continue
                                todo = [db.get_node(cn.child)]
                                while todo:
                                    b = todo.pop()
                                    if type(b).__name__ == "call":
                                        cl.append({"s": str(b.functor), "seen": cids(d, db.get_node(b.defnode))})
                                    elif type(b).__name__ == "conj":
                                        todo.extend(db.get_node(x) for x in b.children)
                    views.append(v)
                    calls.append(cl)
                return {"n": n, "parents": list(parents), "views": views, "calls": calls}
            snaps = []
            for n, h in enumerate(c["hist"], start=1):
                if h["op"] == "extend":
                    dbs.append(dbs[h["d"] - 1].extend())
                    parents.append(h["d"])
                else:
                    db = dbs[h["d"] - 1]
                    before = len(db)
                    if h["op"] == "fact":
                        db += Term(h["s"])
                    else:
                        body = Term(h["body"][0]) if len(h["body"]) == 1 else And(Term(h["body"][0]), Term(h["body"][1]))
                        db += Clause(Term(h["s"]), body)
                    new = [i for i in range(before, len(db)) if type(db.get_node(i)).__name__ in ("fact", "clause")
                           and db.get_node(i) and str(db.get_node(i).functor) == h["s"]]
                    if len(new) != 1:
                        raise RuntimeError("harness: cannot identify the node of clause %d (%s)" % (h["cid"], new))
                    cid_of[(h["d"], new[0])] = h["cid"]
                if c.get("every"):
                    snaps.append(snapshot(n))
            if not c.get("every"):
                snaps.append(snapshot(len(c["hist"])))
            r["snaps"] = snaps
        except Exception as e:
            from .pl import err_info
            info = err_info(e)
            r["crash"] = "%s: %s" % (info["error"], info["msg"])
            r["error"] = info["error"]
            r["site"] = info["site"]
        out.append(r)
    return {"results": out}


# ------------------------------------------------------------------ C28 exported functions under every call mode
def export_modes(uid=0):
    """problog_export'ed functions with several outputs (det and nondet), called with every combination of free /
    correctly bound / wrongly bound output arguments; returns, per call, the answers ProbLog reports."""
    import itertools
    import os
    from problog.program import PrologString
    from problog.engine import DefaultEngine
    from problog.logic import Term, Constant
    from problog.errors import ProbLogError
    d = os.path.join(os.path.dirname(os.path.dirname(os.path.abspath(__file__))), "out", "c28mod")
    os.makedirs(d, exist_ok=True)
    fn = os.path.join(d, "modes_%d_%d.py" % (os.getpid(), uid))
    src = '''from problog.extern import problog_export, problog_export_nondet

@problog_export('+int', '+int', '-int', '-int')
def sum_prod(a, b):
    return a + b, a * b

@problog_export('+int', '-int', '-int', '-int')
def three(a):
    return a + 1, a * 2, a - 1

@problog_export('+int', '-int')
def succ1(a):
    return a + 1

@problog_export_nondet('+int', '-int', '-int')
def splits(n):
    return [(i, n - i) for i in range(n + 1)]
'''
    with open(fn, "w") as f:
        f.write(src)
    out = []
    try:
        eng = DefaultEngine()
        db = eng.prepare(PrologString(":- use_module('%s').\n" % fn))
        funcs = [("sum_prod", [(2, 3), (0, 5), (4, 4)], lambda a, b: [(a + b, a * b)]),
                 ("three", [(3,), (0,)], lambda a: [(a + 1, a * 2, a - 1)]),
                 ("succ1", [(1,), (7,)], lambda a: [(a + 1,)]),
                 ("splits", [(2,), (3,)], lambda n: [(i, n - i) for i in range(n + 1)])]
        for name, inputs, py in funcs:
            for inp in inputs:
                results = py(*inp)
                nout = len(results[0])
                cand = [sorted({r[k] for r in results} | {results[0][k] + 100}) for k in range(nout)]
                for mode in itertools.product(*[[None] + c for c in cand]):
                    args = [Constant(x) for x in inp] + [None if m is None else Constant(m) for m in mode]
                    rec = {"f": name, "in": list(inp), "bound": [m for m in mode], "py": [list(r) for r in results]}
                    try:
                        res = eng.query(db, Term(name, *args))
                        rec["ans"] = [[int(x) if isinstance(x, Constant) and isinstance(x.functor, int) else str(x) for x in a[len(inp):]] for a in res]
                    except ProbLogError as e:
                        rec["err"] = type(e).__name__
                    except Exception as e:
                        rec["crash"] = "%s: %s" % (type(e).__name__, str(e)[:100])
                    out.append(rec)
    finally:
        os.unlink(fn)
    return {"calls": out}


# ------------------------------------------------------------------ Engine.tla binding: message-level traces of the real engine
def engine_trace(text, queries, schedule=None):
    """Ground `queries` (atom names, in order, on one target formula) with the default (buffered) engine and record
    every message the main loop pops, projected on: kind, predicate / node kind, parent or target pointer, result node,
    is_last.  `schedule`: list of permutations (lists of indices) applied, in order, to the batches of >= 2 sibling 'e'
    messages (None = the engine's own order)."""
    from problog.program import PrologString
    from problog.engine_stack import StackBasedEngine, MessageFIFO
    from problog.formula import LogicFormula
    from problog.logic import Term
    log = []
    sched = list(schedule or [])
    used = []
    bad_schedule = []

    class LoggingFIFO(MessageFIFO):
        def __iadd__(self, messages):
            messages = list(messages)
            if len(messages) > 1 and all(m[0] == "e" for m in messages):
                # `messages` is reversed(next_actions); a schedule entry is a 1-based permutation f of next_actions
                # (Engine.tla: ord[i] = acts[f[i]], pushed reversed)
                acts = list(reversed(messages))
                perm = sched.pop(0) if sched else list(range(1, len(acts) + 1))
                if sorted(perm) != list(range(1, len(acts) + 1)):
                    perm = list(range(1, len(acts) + 1))
                    bad_schedule.append(len(used))
                messages = list(reversed([acts[i - 1] for i in perm]))
                used.append(perm)
            return MessageFIFO.__iadd__(self, messages)

        def pop(self):
            m = MessageFIFO.pop(self)
            act, obj, args, context = m
            if act == "e":
                node = context["database"].get_node(obj)
                kind = type(node).__name__
                name = str(getattr(node, "functor", "")) if kind in ("define", "fact", "clause", "call", "choice") else ""
                if kind == "neg":
                    name = str(context["database"].get_node(node.child).functor)
                log.append({"t": "e", "k": kind, "p": name, "a": -1 if context.get("parent") is None else context["parent"], "node": 0, "last": 0})
            elif act == "r":
                nd = args[1]
                log.append({"t": "r", "k": "", "p": "", "a": -1 if obj is None else obj, "node": 1000000 if nd is None else int(nd), "last": 1 if args[3] else 0})
            else:
                log.append({"t": "c", "k": "", "p": "", "a": -1 if obj is None else obj, "node": 0, "last": 0})
            return m

    class Eng(StackBasedEngine):
        def init_message_stack(self):
            return LoggingFIFO(self)

    eng = Eng()
    db = eng.prepare(PrologString(text))
    target = LogicFormula()
    results = []
    for q in queries:
        log.append({"t": "q", "k": "", "p": q, "a": 0, "node": 0, "last": 0})
        try:
            target = eng.ground(db, Term(q), target, label="query")
        except Exception as e:
            e.partial_log = log          # the messages popped before the engine raised
            raise
        key = dict((str(n), k) for n, k in target.queries()).get(q, "absent")
        results.append({"q": q, "key": 1000000 if key is None else (key if key != "absent" else -999)})
    return {"log": log, "results": results, "nodes": _dump_nodes(target), "schedule_used": used, "bad_schedule": bad_schedule}


def engine_traces(cases):
    """batch form: cases = [{'id', 'text', 'queries', 'schedule'}]"""
    out = []
    for c in cases:
        try:
            r = engine_trace(c["text"], c["queries"], c.get("schedule"))
            r["id"] = c["id"]
        except Exception as e:
            from .pl import err_info
            r = dict(err_info(e), id=c["id"], crash=True, log=getattr(e, "partial_log", []))
        out.append(r)
    return {"results": out}


def breakcycles_replay(cases):
    """Spec -> code replay for BreakCycles.tla: each case is a source graph (literal node table, forward references allowed)
    and a sequence of labelled nodes; the real break_cycles is run and the target node table + registered keys recorded."""
    from problog.formula import LogicFormula, LogicDAG
    from problog.cycles import break_cycles
    from problog.logic import Term
    FK = 1000000
    out = []
    for c in cases:
        rec = {"id": c["id"]}
        try:
            f = LogicFormula(auto_compact=False)
            for i, n in enumerate(c["src"]):
                if n["t"] == "atom":
                    k = f.add_atom(n["id"], 0.5)
                elif n["t"] == "conj":
                    k = f.add_and([x for x in n["ch"]])
                else:
                    k = f.add_or([x for x in n["ch"]])
                if k != i + 1:
                    raise RuntimeError("source node %d stored under key %r" % (i + 1, k))
            names = []
            for j, q in enumerate(c["queries"]):
                nm = Term("q%d" % j)
                names.append(nm)
                if q["phase"] == 1:
                    f.add_name(nm, q["key"], f.LABEL_QUERY)
                else:
                    f.add_name(nm, q["key"], f.LABEL_EVIDENCE_POS)
            FKx = 1000000
            evv = c.get("evv")
            if evv == "propagate":
                # what the default pipeline does (ClauseDBEngine.ground_evidence with propagate_evidence=True)
                from problog.errors import InconsistentEvidenceError
                f.lookup_evidence = {}
                try:
                    f.propagate([q["key"] for q in c["queries"] if q["phase"] == 2], f.lookup_evidence)
                except InconsistentEvidenceError:
                    rec["skip"] = "inconsistent evidence found by propagation"
                    out.append(rec)
                    continue
            elif evv and any(v != -1 for v in evv):
                f.lookup_evidence = {i + 1: (None if v == FKx else v) for i, v in enumerate(evv) if v != -1}
            if hasattr(f, "lookup_evidence"):
                rec["evv"] = [(-1 if (i + 1) not in f.lookup_evidence else (FKx if f.lookup_evidence[i + 1] is None else f.lookup_evidence[i + 1]))
                              for i in range(len(c["src"]))]
            else:
                rec["evv"] = [-1] * len(c["src"])
            dag = LogicDAG()
            break_cycles(f, dag)
            res = []
            for j, (q, nm) in enumerate(zip(c["queries"], names)):
                lab = dag.LABEL_QUERY if q["phase"] == 1 else dag.LABEL_EVIDENCE_POS
                ks = [k for n2, k, l in dag.get_names_with_label() if n2 == nm and l == lab]
                if len(ks) != 1:
                    raise RuntimeError("name q%d registered %d times" % (j, len(ks)))
                res.append(FK if ks[0] is None else ks[0])
            rec["results"] = res
            rec["nodes"] = _dump_nodes(dag)
            rec["srcdump"] = _dump_nodes(f)
        except Exception as e:       # noqa
            rec["error"] = "%s: %s" % (type(e).__name__, e)
        out.append(rec)
    return {"results": out}


def propagate_replay(cases):
    """Spec -> code replay for Propagate.tla: LogicFormula.propagate on a literal node table with the given evidence literals."""
    from problog.formula import LogicFormula
    from problog.errors import InconsistentEvidenceError
    FK = 1000000
    out = []
    for c in cases:
        rec = {"id": c["id"]}
        try:
            f = LogicFormula(auto_compact=False)
            for i, n in enumerate(c["g"]):
                if n["t"] == "atom":
                    k = f.add_atom(n["id"], 0.5)
                elif n["t"] == "conj":
                    k = f.add_and(list(n["ch"]))
                else:
                    k = f.add_or(list(n["ch"]))
                if k != i + 1:
                    raise RuntimeError("source node %d stored under key %r" % (i + 1, k))
            cur = {}            # the caller's dictionary is filled in place: its content at the raise is the state of the loop
            try:
                ret = f.propagate(list(c["ev"]), cur)
                rec["status"] = "done" if ret is cur else "malformed"
            except InconsistentEvidenceError:
                rec["status"] = "inconsistent"
            rec["current"] = [(-1 if (i + 1) not in cur else (FK if cur[i + 1] is None else cur[i + 1])) for i in range(len(c["g"]))]
            extra = [k for k in cur if not (1 <= k <= len(c["g"]))]
            if extra or any(v not in (-1, 0, FK) for v in rec["current"]):
                rec["status"] = "malformed"
        except Exception as e:       # noqa
            rec["error"] = "%s: %s" % (type(e).__name__, e)
        out.append(rec)
    return {"results": out}


def ddnnf_eval_replay(cases):
    """Spec -> code replay for DDNNFEval.tla: a literal d-DNNF node table, weights as exact fractions [num, den] pairs,
    evidence literals and a query sequence are run through a real SimpleDDNNFEvaluator (propagate, evaluate*, evaluate_evidence)."""
    from problog.ddnnf_formula import DDNNF
    from problog.evaluator import SemiringProbability
    from problog.errors import InconsistentEvidenceError
    FK = 1000000

    class PairSemiring(SemiringProbability):
        """weights are given as (pos, neg) pairs (documented in LogicFormula.extract_weights)"""
        def __init__(self, nsp):
            SemiringProbability.__init__(self)
            self._nsp = nsp

        def is_nsp(self):
            return self._nsp

        def pos_value(self, a, key=None):
            return float(a[0])

        def neg_value(self, a, key=None):
            return float(a[1])

    out = []
    for c in cases:
        rec = {"id": c["id"]}
        try:
            f = DDNNF(auto_compact=False)
            for i, n in enumerate(c["g"]):
                if n["t"] == "atom":
                    k = f.add_atom(i + 1, 0.5)
                elif n["t"] == "conj":
                    k = f.add_and(list(n["ch"]))
                else:
                    k = f.add_or(list(n["ch"]))
                if k != i + 1:
                    raise RuntimeError("node %d stored under key %r" % (i + 1, k))
            weights = {i + 1: (w[0][0] / w[0][1], w[1][0] / w[1][1]) for i, w in enumerate(c["w0"])}
            e = f._create_evaluator(PairSemiring(bool(c["nsp"])), weights)
            for l in c["ev"]:
                e.add_evidence(l)
            try:
                e.propagate()
                rec["pc"] = "ready"
                rec["results"] = [e.evaluate(None if q == FK else q) for q in c["qs"]]
                rec["pev"] = e.evaluate_evidence()
            except InconsistentEvidenceError:
                rec["pc"] = "inconsistent"
        except Exception as ex:       # noqa
            import traceback
            rec["error"] = "%s: %s" % (type(ex).__name__, ex)
            rec["site"] = traceback.extract_tb(ex.__traceback__)[-1].name
        out.append(rec)
    return {"results": out}


def adconstraint_replay(cases):
    """Spec -> code replay for ADConstraint.tla: the heads of one annotated disjunction are added to a real LogicFormula, some
    before evidence values exist, the others afterwards (lookup_evidence set, optionally a semiring = propagate_weights)."""
    from problog.formula import LogicFormula
    from problog.evaluator import SemiringProbability
    from problog.logic import Term, Constant
    out = []
    for c in cases:
        rec = {"id": c["id"]}
        try:
            f = LogicFormula()
            K = len(c["w"])
            grp = (7, ())
            node_of = {}

            def add(h):
                return f.add_atom((7, (), h), c["w"][h - 1] / 10.0, group=grp, name=Term("h", Constant(h)))
            for h in range(1, K + 1):
                if c["pre"][h - 1]:
                    node_of[h] = add(h)
            f.lookup_evidence = {}
            for h in range(1, K + 1):
                if c["evv0"][h - 1]:
                    f.lookup_evidence[node_of[h]] = 0 if c["evv0"][h - 1] == "T" else None
            if c["sr"]:
                f.semiring = SemiringProbability()
            ret = [""] * K
            for h in c["order"]:
                r = add(h)
                if r is None:
                    ret[h - 1] = "F"
                elif r == 0:
                    ret[h - 1] = "T"
                else:
                    node_of[h] = r
            evv = [""] * K
            for h, n in node_of.items():
                if n in f.lookup_evidence:
                    v = f.lookup_evidence[n]
                    evv[h - 1] = "T" if v == 0 else ("F" if v is None else "?")
            rec["evv"], rec["ret"] = evv, ret
        except Exception as e:       # noqa
            rec["error"] = "%s: %s" % (type(e).__name__, e)
        out.append(rec)
    return {"results": out}


def definecache_replay(cases):
    """Spec -> code replay for DefineCache.tla: a history of mutating calls is executed on a real engine_stack.DefineCache and
    every goal of the model's universe is then looked up (__contains__, __getitem__, getEvalNode)."""
    from problog.engine_stack import DefineCache
    from problog.logic import Term

    def arg(x):
        return Term("c%d" % x) if x > 0 else x          # variables are negative integers in the engine

    def unarg(x):
        return x if isinstance(x, int) else int(str(x)[1:])

    def goal(g):
        return ("p%d" % g[0], tuple(arg(x) for x in g[1]))

    out = []
    for c in cases:
        rec = {"id": c["id"]}
        try:
            cache = DefineCache({("p%d" % f, 2) for f in c["dont"]})
            for e in c["hist"]:
                if e["k"] == "set":
                    results = {}
                    for key, node in e["res"]:
                        results[tuple(arg(x) for x in key)] = node
                    cache[goal(e["g"])] = results
                elif e["k"] == "del":
                    del cache[goal(e["g"])]
                elif e["k"] == "reset":
                    cache.reset()
                elif e["k"] == "act":
                    cache.activate(goal(e["g"]), e["res"][0][1])
                elif e["k"] == "deact":
                    cache.deactivate(goal(e["g"]))
            tab = []
            for t in c["goals"]:
                g = goal(t)
                hit = int(g in cache)
                items = []
                if hit:
                    for key, node in cache[g]:
                        items.append([[unarg(x) for x in key], -1 if node is None else node])
                got = cache.get(g)
                if (got is None) != (not hit):
                    rec["error"] = "get/contains disagree on %s" % (t,)
                a = cache.getEvalNode(g)
                tab.append({"g": t, "hit": hit, "items": items, "a": 0 if a is None else a})
            rec["tab"] = tab
        except Exception as e:       # noqa
            rec["error"] = "%s: %s" % (type(e).__name__, e)
        out.append(rec)
    return {"results": out}

"""Check context: verdict collection, known findings, replay files, evidence."""
import json
import os
import sys
import time

VERIF = os.path.dirname(os.path.dirname(os.path.abspath(__file__)))
OUT = os.path.join(VERIF, "out")
EVID = os.environ.get("VERIF_EVIDENCE_DIR") or os.path.join(VERIF, "evidence")   # tools/reseed_all.sh points mutant runs elsewhere
KNOWN = os.path.join(VERIF, "known_findings.json")


def load_known():
    if os.environ.get("VERIF_SHOW_KNOWN"):      # development aid: report listed findings like any other violation
        return []
    if not os.path.exists(KNOWN):
        return []
    with open(KNOWN) as f:
        return json.load(f).get("findings", [])


class Ctx:
    def __init__(self, pid, tier="quick", seed=0, nproc=16, replay=None):
        self.pid = pid
        self.tier = tier
        self.seed = seed
        self.nproc = nproc
        self.replay = replay
        self.t0 = time.time()
        self.violations = []      # unlisted
        self.known_hits = {}      # finding id -> count
        self.inconclusive = 0
        self.evaluations = 0
        self.samples = []
        self.assumptions = []
        self.cov = {}
        self.nontrivial = set()
        self._known = [k for k in load_known()
                       if (k.get("property") == pid or pid in k.get("properties", []))
                       and k.get("status", "known") == "known"]
        self._nrep = 0
        self.notes = []

    # ------------------------------------------------------------ budget helpers
    @property
    def quick(self):
        return self.tier == "quick"

    def pick(self, q, t):
        return q if self.quick else t

    # ------------------------------------------------------------ verdicts
    def _match(self, sig):
        for k in self._known:
            ms = k.get("match_any") or [k.get("match", {"__never__": 1})]
            for m in ms:
                if all((sig.get(a) in b) if isinstance(b, list) else (sig.get(a) == b) for a, b in m.items()):
                    return k
        return None

    def violation(self, sig, detail, case):
        """sig: dict signature (clause + structural keys); detail: str; case: JSON-able replay payload."""
        k = self._match(sig)
        if k is not None:
            self.known_hits[k["id"]] = self.known_hits.get(k["id"], 0) + 1
            if self.known_hits[k["id"]] == 1:
                print("KNOWN-FINDING: property=%s %s (%s)" % (self.pid, k["id"], k.get("what", "")))
            return False
        self._nrep += 1
        d = os.path.join(OUT, "replay", self.pid)
        os.makedirs(d, exist_ok=True)
        path = os.path.join(d, "case_%s_%d_%d.json" % (self.tier, self.seed, self._nrep))
        with open(path, "w") as f:
            json.dump({"property": self.pid, "signature": sig, "detail": detail, "case": case}, f, indent=1,
                      default=str)
        self.violations.append({"sig": sig, "detail": detail, "replay": path})
        if len(self.violations) <= 25:
            print("VIOLATION property=%s replay=%s" % (self.pid, path))
            print("  clause=%s %s" % (sig.get("clause"), detail[:400]))
        return True

    def sample(self, s, limit=4):
        if len(self.samples) < limit:
            self.samples.append(s)

    def note(self, s):
        self.notes.append(s)
        print("note: " + s)

    # ------------------------------------------------------------ evidence
    def write_evidence(self, level, coverage, assumptions=None):
        os.makedirs(EVID, exist_ok=True)
        cov = dict(coverage)
        cov.setdefault("samples", self.samples or ["(none)"])
        cov["inconclusive_cases"] = self.inconclusive
        cov["known_finding_hits"] = self.known_hits
        if self.notes:
            cov["notes"] = self.notes
        ev = {
            "property_id": self.pid,
            "tier": self.tier if self.tier in ("quick", "thorough") else "quick",
            "seed": int(self.seed),
            "level": level,
            "coverage": cov,
            "assumptions": list(assumptions or []) + self.assumptions,
            "wall_s": round(time.time() - self.t0, 2),
            "violations": len(self.violations),
        }
        with open(os.path.join(EVID, "%s.json" % self.pid), "w") as f:
            json.dump(ev, f, indent=1, default=str)
        return ev

    def exit_code(self):
        return 1 if self.violations else 0


def close(x, num, den, tol=1e-9):
    """|x - num/den| <= tol(abs) + tol(rel) ; the single numeric comparison in the harness."""
    from fractions import Fraction
    if den == 0:
        return False
    e = Fraction(num, den)
    try:
        fx = Fraction(x)
    except (ValueError, OverflowError):
        return False
    return abs(fx - e) <= Fraction(tol) + Fraction(tol) * abs(e)

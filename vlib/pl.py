"""Driving the real ProbLog (imported from /repo's working tree) in a pool of worker processes.

Every task is a (function name, kwargs) pair executed by `_dispatch` in a worker; tasks have a
per-case alarm time-out (a timed-out case is 'inconclusive', never a violation)."""
import os
import signal
import sys
import traceback
from concurrent.futures import ProcessPoolExecutor

REPO = os.environ.get("VERIF_REPO", "/repo")
_MAIN_PID = os.getpid()
_MAIN_PROCESS_KEEPS_CWD = True


def _init():
    if REPO not in sys.path:
        sys.path.insert(0, REPO)
    import warnings
    warnings.filterwarnings("ignore")
    sys.setrecursionlimit(10000)
    # external solvers (maxsatz) drop files into the current directory: keep them out of /repo and /verif's tree
    scratch = os.path.join(os.path.dirname(os.path.dirname(os.path.abspath(__file__))), "out", "cwd")
    os.makedirs(scratch, exist_ok=True)
    if not _MAIN_PROCESS_KEEPS_CWD or os.getpid() != _MAIN_PID:
        os.chdir(scratch)


class _Timeout(Exception):
    pass


def _alarm(signum, frame):
    raise _Timeout()


def err_site(e):
    """Deepest frames inside the problog package: ('file:func', 'f1<f2<f3')."""
    frames = [fr for fr in traceback.extract_tb(e.__traceback__) if "/problog/" in fr.filename]
    if not frames:
        frames = traceback.extract_tb(e.__traceback__)
    if not frames:
        return "", ""
    last = frames[-1]
    site = "%s:%s" % (os.path.basename(last.filename), last.name)
    chain = "<".join(fr.name for fr in reversed(frames[-3:]))
    return site, chain


def err_info(e):
    from problog.errors import ProbLogError
    names = [c.__name__ for c in type(e).__mro__]
    site, chain = err_site(e)
    return {"error": type(e).__name__, "problog_error": isinstance(e, ProbLogError),
            "mro": names, "msg": str(e)[:300], "site": site, "chain": chain,
            "tb": "".join(traceback.format_exception(type(e), e, e.__traceback__))[-1500:]}


def _dispatch(job):
    """Run one task under an alarm.  The alarm can also fire between the end of the task and its cancellation (or inside an
    except clause): every such late _Timeout is turned into the same inconclusive result instead of escaping the worker."""
    try:
        return _dispatch_inner(job)
    except _Timeout:
        signal.alarm(0)
        return {"error": "Timeout", "problog_error": False, "inconclusive": True}


def _dispatch_inner(job):
    fname, kwargs, timeout = job
    _init()
    from . import pl_tasks
    fn = getattr(pl_tasks, fname)
    old = signal.signal(signal.SIGALRM, _alarm)
    signal.alarm(int(timeout))
    try:
        import contextlib
        with open(os.devnull, "w") as dn, contextlib.redirect_stderr(dn):
            return fn(**kwargs)
    except _Timeout:
        return {"error": "Timeout", "problog_error": False, "inconclusive": True}
    except RecursionError as e:
        return {"error": "RecursionError", "problog_error": False, "inconclusive": True}
    except MemoryError:
        return {"error": "MemoryError", "problog_error": False, "inconclusive": True}
    except BaseException as e:  # noqa
        try:
            return err_info(e)
        except _Timeout:
            raise
        except BaseException as e2:  # noqa
            return {"error": type(e).__name__, "problog_error": False, "msg": str(e)[:300]}
    finally:
        signal.alarm(0)
        signal.signal(signal.SIGALRM, old)


def run_jobs(jobs, nproc=16, timeout=60, chunksize=4):
    """jobs: list of (fname, kwargs). Returns list of results in order."""
    if not jobs:
        return []
    full = [(f, k, timeout) for f, k in jobs]
    nproc = max(1, min(nproc, len(full)))
    with ProcessPoolExecutor(max_workers=nproc, initializer=_init) as ex:
        return list(ex.map(_dispatch, full, chunksize=chunksize))


def run_local(fname, **kwargs):
    return _dispatch((fname, kwargs, 600))

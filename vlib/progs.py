"""Structured ProbLog programs (DESIGN Appendix C): generator, renderer, permutations, features.

The same structure is (i) judged by TLC (spec/Semantics.tla), (ii) rendered to ProbLog text for the
real system, (iii) stored in replay files.  The renderer is part of the trusted harness base."""
import copy
import json
from fractions import Fraction


def C(v):
    return {"k": "c", "v": v}


def V(v):
    return {"k": "v", "v": v}


def atom(f, *args):
    return {"f": f, "a": [a if isinstance(a, dict) else (V(a) if a[:1].isupper() else C(a)) for a in args]}


def lit(a, s=1):
    return {"s": s, "atom": a}


def empty_program(consts=("c1", "c2")):
    return {"id": 0, "consts": list(consts), "facts": [], "ads": [], "rules": [], "queries": [], "evidence": []}


# ---------------------------------------------------------------- rendering

def r_term(t):
    return t["v"]


def r_atom(a):
    if not a["a"]:
        return a["f"]
    return "%s(%s)" % (a["f"], ",".join(r_term(t) for t in a["a"]))


def r_ground(f, args):
    if not args:
        return f
    return "%s(%s)" % (f, ",".join(args))


def r_prob(p):
    num, den = p
    fr = Fraction(num, den)
    if fr < 0:
        return "-" + r_prob([-num, den])
    if fr.denominator in (1, 2, 4, 5, 8, 10, 16, 20, 25, 40, 50, 100, 1000):
        s = "%.6f" % float(fr)
        s = s.rstrip("0")
        if s.endswith("."):
            s += "0"
        return s
    return repr(float(fr))


def r_lit(l):
    return r_atom(l["atom"]) if l["s"] == 1 else "\\+" + r_atom(l["atom"])


def r_body(b):
    return ", ".join(r_lit(l) for l in b)


def _inline_map(p):
    """aux predicates (arity 0) listed in p['inline'] are written as an inline disjunction (b1 ; b2) where they are
    called positively; their own clauses are not printed.  TLC sees them as ordinary rules."""
    m = {}
    for name in p.get("inline", []):
        bodies = [r["body"] for r in p["rules"] if r["head"]["f"] == name]
        if bodies:
            m[name] = bodies
    return m


def r_body_inl(b, inl):
    parts = []
    for l in b:
        n = l["atom"]["f"]
        if l["s"] == 1 and n in inl:
            parts.append("(" + " ; ".join(r_body_inl(x, inl) if x else "true" for x in inl[n]) + ")")
        else:
            parts.append(r_lit(l))
    return ", ".join(parts)


def statements(p, ev_style=0):
    """Return dict kind -> list of statement strings."""
    out = {"facts": [], "ads": [], "rules": [], "queries": [], "evidence": []}
    inl = _inline_map(p)
    if inl:
        for ad in p["ads"]:
            hs = "; ".join("%s::%s" % (h.get("ptext") or r_prob(h["p"]), r_atom(h["atom"])) for h in ad["heads"])
            out["ads"].append(hs + (" :- " + r_body_inl(ad["body"], inl) if ad["body"] else "") + ".")
        for f in p["facts"]:
            out["facts"].append("%s::%s." % (f.get("ptext") or r_prob(f["p"]), r_atom(f["atom"])))
        for r in p["rules"]:
            if r["head"]["f"] in inl:
                out["rules"].append("")          # printed inline at the call sites
            else:
                out["rules"].append(r_atom(r["head"]) + (" :- " + r_body_inl(r["body"], inl) if r["body"] else "") + ".")
        for q in p["queries"]:
            out["queries"].append("query(%s)." % r_atom(q))
        for i, e in enumerate(p["evidence"]):
            a = r_atom(e["atom"])
            st = (ev_style + i) % 2 if ev_style >= 0 else 0
            if e["s"] == 1:
                out["evidence"].append(("evidence(%s)." if st == 0 else "evidence(%s, true).") % a)
            else:
                out["evidence"].append(("evidence(%s, false)." if st == 0 else "evidence(\\+%s).") % a)
        return out
    for f in p["facts"]:
        out["facts"].append("%s::%s." % (f.get("ptext") or r_prob(f["p"]), r_atom(f["atom"])))
    for ad in p["ads"]:
        hs = "; ".join("%s::%s" % (h.get("ptext") or r_prob(h["p"]), r_atom(h["atom"])) for h in ad["heads"])
        out["ads"].append(hs + (" :- " + r_body(ad["body"]) if ad["body"] else "") + ".")
    for r in p["rules"]:
        out["rules"].append(r_atom(r["head"]) + (" :- " + r_body(r["body"]) if r["body"] else "") + ".")
    for q in p["queries"]:
        out["queries"].append("query(%s)." % r_atom(q))
    for i, e in enumerate(p["evidence"]):
        a = r_atom(e["atom"])
        st = (ev_style + i) % 2 if ev_style >= 0 else 0
        if e["s"] == 1:
            out["evidence"].append(("evidence(%s)." if st == 0 else "evidence(%s, true).") % a)
        else:
            out["evidence"].append(("evidence(%s, false)." if st == 0 else "evidence(\\+%s).") % a)
    return out


def render(p, order=None, ev_style=0):
    st = statements(p, ev_style)
    if order is None:
        order = p.get("order")
    if order is None:
        order = [(k, i) for k in ("facts", "ads", "rules", "queries", "evidence") for i in range(len(st[k]))]
    return "\n".join(x for x in (st[k][i] for k, i in order) if x) + "\n"


# ---------------------------------------------------------------- analysis

def preds_of(p):
    """predicate name -> set of arities defined"""
    d = {}
    for f in p["facts"]:
        d.setdefault(f["atom"]["f"], set()).add(len(f["atom"]["a"]))
    for ad in p["ads"]:
        for h in ad["heads"]:
            d.setdefault(h["atom"]["f"], set()).add(len(h["atom"]["a"]))
    for r in p["rules"]:
        d.setdefault(r["head"]["f"], set()).add(len(r["head"]["a"]))
    return d


def atom_vars(a):
    return [t["v"] for t in a["a"] if t["k"] == "v"]


def clause_vars(heads, body):
    vs = []
    for a in heads + [l["atom"] for l in body]:
        for v in atom_vars(a):
            if v not in vs:
                vs.append(v)
    return vs


def n_worlds(p):
    n = 1
    nc = len(p["consts"])
    for _ in p["facts"]:
        n *= 2
    for ad in p["ads"]:
        vs = clause_vars([h["atom"] for h in ad["heads"]], ad["body"])
        n *= (len(ad["heads"]) + 1) ** (nc ** len(vs))
    return n


def total_den(p):
    n = 1
    nc = len(p["consts"])
    for f in p["facts"]:
        n *= f["p"][1]
    for ad in p["ads"]:
        vs = clause_vars([h["atom"] for h in ad["heads"]], ad["body"])
        n *= ad["heads"][0]["p"][1] ** (nc ** len(vs))
    return n


def n_choices(p):
    nc = len(p["consts"])
    n = len(p["facts"])
    for ad in p["ads"]:
        vs = clause_vars([h["atom"] for h in ad["heads"]], ad["body"])
        n += nc ** len(vs)
    return n


def pred_graph(p):
    """edges head_pred -> (body_pred, sign)"""
    edges = set()
    for r in p["rules"]:
        for l in r["body"]:
            edges.add((r["head"]["f"], l["atom"]["f"], l["s"]))
    for ad in p["ads"]:
        for h in ad["heads"]:
            for l in ad["body"]:
                edges.add((h["atom"]["f"], l["atom"]["f"], l["s"]))
    return edges


def _reach(edges, start):
    seen = {start}
    todo = [start]
    while todo:
        x = todo.pop()
        for a, b, _ in edges:
            if a == x and b not in seen:
                seen.add(b)
                todo.append(b)
    return seen


def features(p):
    """Syntactic features used for the distinct_nontrivial rule (DESIGN §4)."""
    fs = set()
    edges = pred_graph(p)
    for a, b, s in edges:
        if a in _reach(edges, b):
            fs.add("pos_cycle" if s == 1 else "neg_cycle")
    if any(s == 0 for _, _, s in edges):
        fs.add("negation")
    if p["ads"]:
        fs.add("ad")
        if any(ad["body"] for ad in p["ads"]):
            fs.add("ad_body")
        if any(clause_vars([h["atom"] for h in ad["heads"]], ad["body"]) for ad in p["ads"]):
            fs.add("ad_nonground")
    heads = {}
    for f in p["facts"]:
        heads[f["atom"]["f"]] = heads.get(f["atom"]["f"], 0) + 1
    for ad in p["ads"]:
        for h in ad["heads"]:
            heads[h["atom"]["f"]] = heads.get(h["atom"]["f"], 0) + 1
    for r in p["rules"]:
        heads[r["head"]["f"]] = heads.get(r["head"]["f"], 0) + 1
    if any(v > 1 for v in heads.values()):
        fs.add("multi_support")
    if any(atom_vars(q) for q in p["queries"]):
        fs.add("nonground_query")
    if p["evidence"]:
        fs.add("evidence")
        if any(e["s"] == 0 for e in p["evidence"]):
            fs.add("neg_evidence")
        derived = {r["head"]["f"] for r in p["rules"] if r["body"]}
        if any(e["atom"]["f"] in derived for e in p["evidence"]):
            fs.add("evidence_derived")
    if any(f["p"][0] in (0, f["p"][1]) for f in p["facts"]):
        fs.add("prob_0_or_1")
    return fs


def canon(p):
    q = {k: p[k] for k in ("consts", "facts", "ads", "rules", "queries", "evidence")}
    if p.get("inline"):
        q["inline"] = p["inline"]
    return json.dumps(q, sort_keys=True)


# ---------------------------------------------------------------- generation

class Gen:
    """Seeded generator of programs in the fragment of Semantics.tla.

    profile 'strat'  : predicate-level stratified negation, positive recursion allowed (C01 class)
    profile 'negloop': negation unrestricted (C02 classes)
    """

    def __init__(self, rng, profile="strat", max_worlds=600, max_den=2 ** 31 - 1, evidence=True,
                 nonground=True, ads=True, p_edge=False):
        self.rng = rng
        self.profile = profile
        self.max_worlds = max_worlds
        self.max_den = max_den
        self.evidence = evidence
        self.nonground = nonground
        self.ads = ads
        self.p_edge = p_edge  # allow probabilities 0 and 1

    def prob(self, den=10, lo=1, hi=9):
        if self.p_edge and self.rng.random() < 0.15:
            return [self.rng.choice([0, den]), den]
        return [self.rng.randint(lo, hi), den]

    def gen(self):
        for _ in range(200):
            p = self._gen()
            if p is not None and n_worlds(p) <= self.max_worlds and total_den(p) <= self.max_den:
                return p
        raise RuntimeError("generator failed to produce a program within bounds")

    def _gen(self):
        rng = self.rng
        consts = ["c1", "c2"] if rng.random() < 0.8 else ["c1", "c2", "c3"]
        p = empty_program(consts)
        # deterministic domain predicate
        for c in consts:
            p["rules"].append({"head": atom("d", c), "body": []})
        base = []  # (name, arity) of probabilistic-fact predicates
        names = ["f", "g", "h", "e"]
        nfp = rng.randint(1, 3)
        for i in range(nfp):
            ar = rng.choice([0, 0, 1, 1, 2]) if i else rng.choice([0, 1])
            base.append((names[i], ar))
        nf = 0
        for (n, ar) in base:
            k = 1 if ar == 0 else rng.randint(1, 2 if ar == 1 else 2)
            seen = set()
            for _ in range(k):
                args = tuple(rng.choice(consts) for _ in range(ar))
                if args in seen and rng.random() < 0.7:
                    continue
                seen.add(args)
                p["facts"].append({"p": self.prob(), "atom": atom(n, *args)})
                nf += 1
        # derived predicates with levels
        dn = ["p", "q", "r", "s"]
        nd = rng.randint(1, 4)
        derived = [(dn[i], rng.choice([0, 0, 1, 1, 2])) for i in range(nd)]
        level = {n: i for i, (n, _) in enumerate(derived)}
        arity = dict(base + derived + [("d", 1)])
        ad_preds = []
        if self.ads and rng.random() < 0.6:
            # AD heads are extra derived predicates a,b (same arity) sitting at some level
            ar = rng.choice([0, 0, 1])
            nh = rng.randint(1, 3)
            hn = ["a", "b", "c"][:nh]
            lv = rng.randint(0, nd)  # level among derived: may use preds with level < lv (or <= for pos)
            for n in hn:
                arity[n] = ar
                level[n] = lv - 0.5
            ad_preds = hn
        allpreds_level = dict(level)

        def mk_args(ar, vars_pool, ground_bias):
            args = []
            for _ in range(ar):
                if rng.random() < ground_bias:
                    args.append(C(rng.choice(consts)))
                else:
                    args.append(V(rng.choice(vars_pool)))
            return args

        def mk_body(head_pred, head_atoms, maxlits=3):
            lv = allpreds_level.get(head_pred, -1)
            body = []
            nl = rng.randint(1, maxlits)
            for _ in range(nl):
                neg = rng.random() < 0.25
                cands = []
                for (n, ar) in base:
                    cands.append(n)
                cands.append("d")
                for n in allpreds_level:
                    if self.profile == "negloop":
                        cands.append(n)
                    else:
                        if neg and allpreds_level[n] < lv:
                            cands.append(n)
                        elif not neg and allpreds_level[n] <= lv:
                            cands.append(n)
                n = rng.choice(cands)
                if n == "d" and neg:
                    neg = False
                a = {"f": n, "a": mk_args(arity[n], ["X", "Y"], 0.35)}
                body.append(lit(a, 0 if neg else 1))
            # order: positives first, then negatives; bind unsafe variables with d/1
            pos = [l for l in body if l["s"] == 1]
            negs = [l for l in body if l["s"] == 0]
            bound = set()
            for l in pos:
                bound.update(atom_vars(l["atom"]))
            need = []
            for a in head_atoms + [l["atom"] for l in negs]:
                for v in atom_vars(a):
                    if v not in bound and v not in need:
                        need.append(v)
            pre = [lit(atom("d", V(v))) for v in need]
            return pre + pos + negs

        # rules for derived predicates
        for (n, ar) in derived:
            for _ in range(rng.randint(1, 2)):
                h = {"f": n, "a": mk_args(ar, ["X", "Y"], 0.3)}
                p["rules"].append({"head": h, "body": mk_body(n, [h])})
        # annotated disjunction(s)
        if ad_preds:
            nad = 1 if rng.random() < 0.8 else 2
            for _ in range(nad):
                ar = arity[ad_preds[0]]
                hargs = mk_args(ar, ["X"], 0.4)
                den = 10
                rem = 10
                heads = []
                for ni, n in enumerate(ad_preds):
                    left = len(ad_preds) - ni - 1
                    v = rng.randint(1, max(1, min(6, rem - left)))
                    rem -= v
                    heads.append({"p": [v, den], "atom": {"f": n, "a": copy.deepcopy(hargs)}})
                if rng.random() < 0.35:
                    # probabilities that sum to exactly one (no 'none of the heads' outcome)
                    tot = sum(h["p"][0] for h in heads)
                    heads[-1]["p"][0] += den - tot
                hv = [h["atom"] for h in heads]
                needs_body = any(atom_vars(a) for a in hv)
                if needs_body or rng.random() < 0.6:
                    body = mk_body(ad_preds[0], hv, maxlits=2)
                else:
                    body = []
                p["ads"].append({"heads": heads, "body": body})
            # make sure every AD pred is defined with the right arity (it is: heads)
        # queries
        qpreds = [n for (n, _) in derived] + ad_preds + ([b for (b, _) in base] if rng.random() < 0.3 else [])
        defined = preds_of(p)
        qpreds = [n for n in qpreds if n in defined]
        if not qpreds:
            return None
        nq = rng.randint(1, 3)
        seenq = set()
        for _ in range(nq):
            n = rng.choice(qpreds)
            gb = 0.5 if self.nonground else 1.0
            a = {"f": n, "a": mk_args(arity[n], ["V", "W"], gb)}
            vs_ = atom_vars(a)
            if len(vs_) != len(set(vs_)) and rng.random() < 0.85:
                a["a"][-1] = V("W" if a["a"][0]["v"] == "V" else "V")
            k = json.dumps(a, sort_keys=True)
            if k in seenq:
                continue
            seenq.add(k)
            p["queries"].append(a)
        # evidence
        if self.evidence and rng.random() < 0.55:
            epreds = [n for n in defined if n != "d"]
            ne = rng.randint(1, 2)
            seen = set()
            for _ in range(ne):
                n = rng.choice(epreds)
                a = {"f": n, "a": mk_args(arity[n], ["V"], 1.0)}
                k = json.dumps(a, sort_keys=True)
                if k in seen:
                    continue
                seen.add(k)
                p["evidence"].append({"atom": a, "s": 1 if rng.random() < 0.55 else 0})
        return p


def permute(p, rng):
    """C07: permute statements, clauses and body literals (negated literals stay after their binders)."""
    q = copy.deepcopy(p)
    for r in q["rules"]:
        r["body"] = _perm_body(r["body"], rng)
    for ad in q["ads"]:
        ad["body"] = _perm_body(ad["body"], rng)
        # head order inside an AD is also textual order
    order = [(k, i) for k in ("facts", "ads", "rules", "queries", "evidence") for i in range(len(q[k]))]
    rng.shuffle(order)
    q["order"] = order
    return q


def _perm_body(body, rng):
    pos = [l for l in body if l["s"] == 1]
    neg = [l for l in body if l["s"] == 0]
    rng.shuffle(pos)
    rng.shuffle(neg)
    # insert each negative literal at a random position after all its variables are bound
    out = list(pos)
    for n in neg:
        need = set(atom_vars(n["atom"]))
        bound = set()
        minpos = 0
        for i, l in enumerate(out):
            if need <= bound:
                break
            if l["s"] == 1:
                bound.update(atom_vars(l["atom"]))
            minpos = i + 1
        if not need:
            minpos = 0
        k = rng.randint(minpos, len(out))
        out.insert(k, n)
    return out

"""tools/save_seed.py <srcdir> <id> <property> <patchfile> <caught_by comma list> <missed_before comma list> : copy a confirmed seed into /verif/seeded/<id>/"""
import json, os, shutil, sys, re
src, sid, prop, patch, caught, missed = sys.argv[1:7]
d = os.path.join('/verif/seeded', sid)
os.makedirs(d, exist_ok=True)
shutil.copy(patch, os.path.join(d, 'patch.diff'))
shutil.copy(os.path.join(src, 'demo.py'), os.path.join(d, 'demo.py'))
notes = open(os.path.join(src, 'notes.md')).read() if os.path.exists(os.path.join(src, 'notes.md')) else ''
open(os.path.join(d, 'notes.md'), 'w').write(notes)
import glob
log = ''.join(open(f).read() for f in sorted(glob.glob('/verif/out/seed_verify*.log')))
ver = [l for l in log.splitlines() if l.startswith(src + ':')]
first = ''
m = re.search(r'(?im)^\**\s*(what .*manifest.*|needs.*|trigger.*)$', notes)
meta = {
 "property": prop,
 "origin": "written by an independent sub-agent that saw only the property text and its own scratch worktree (nothing from /verif)",
 "needs_to_manifest": (notes.split('\n\n')[1][:600] if '\n\n' in notes else notes[:600]),
 "confirmed_by_me": {"how": "scratch worktree of /repo HEAD (round 3: tools/verify_seed.sh): demo.py on the clean tree, patch applied, demo.py again, full pinned pytest command with the patch applied, patch removed",
                     "result": " | ".join(ver[-2:]) if ver else "see DESIGN.md"},
 "checks_run": "quick check of the property run against the patched scratch worktree (VERIF_REPO; tools/verify_seed.sh, tools/try_seed_wt.sh, tools/reseed_all.sh); rounds 1-2 applied the patch to /repo and reverted it (tools/try_seed.sh)",
 "caught_by_quick_checks": [c for c in caught.split(',') if c],
 "missed_before_strengthening": [c for c in missed.split(',') if c],
}
json.dump(meta, open(os.path.join(d, 'meta.json'), 'w'), indent=1)
print("saved", d)

#!/bin/sh
# usage: tools/save_r3.sh : copy every verified round-3 seed (/tmp/seed_<p>r3/<n>) into /verif/seeded/<p>-<n+2>
MISSED="c07r3/2 c25r3/2 c25r3/1 c31r3/1 c16r3/1 c14r3/1 c06r3/1 c06r3/2 c10r3/1 c04r3/2 c18r3/1 c18r3/2 c08r3/1 c12r3/2 c02r3/2 c03r3/1 c19r3/1 c19r3/2 c17r3/2 c28r3/2"
cd /verif
for d in /tmp/seed_c??r3/[12]; do
  p=$(echo $d | sed 's#/tmp/seed_\(c..\)r3/.#\1#'); n=$(basename $d); id="$p-$((n+2))"
  P=$(echo $p | tr c C)
  grep -q "^$d: demo clean=0 patched=1 suite=\[273 passed" out/seed_verify_r3.log || { echo "SKIP $d (not verified)"; continue; }
  m=""; case " $MISSED " in *" ${p}r3/$n "*) m=$P;; esac
  python3 tools/save_seed.py $d $id $P $d/patch.diff $P "$m" > /dev/null
done
ls seeded | wc -l

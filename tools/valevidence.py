import json, sys, glob, jsonschema
sch = json.load(open('/root/.vp/EVIDENCE.schema.json'))
for f in sorted(glob.glob('/verif/evidence/*.json')):
    try:
        jsonschema.validate(json.load(open(f)), sch); print("ok", f)
    except Exception as e:
        print("INVALID", f, str(e)[:300])

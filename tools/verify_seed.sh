#!/bin/sh
# usage: tools/verify_seed.sh <seeddir> <CHECK-ID>...
# Confirms a seeded defect on a scratch worktree of /repo HEAD (never /repo itself): demo passes on the clean tree, fails with the
# patch, the pinned test suite passes with the patch; then runs the quick checks against the patched worktree (VERIF_REPO).
S="$1"; shift
T=$(echo "$S" | tr '/' '_')
W=/tmp/wt_vs$T
cd /verif
git -C /repo worktree remove --force $W 2>/dev/null
git -C /repo worktree add --detach -q $W HEAD || exit 2
run_demo() { (cd $W && PYTHONPATH=$W timeout 600 /venv/bin/python -W ignore $S/demo.py > /tmp/vs_demo$T.log 2>&1; echo $?); }
clean=$(run_demo)
(cd $W && git apply $S/patch.diff) || { echo "$S: PATCH-DOES-NOT-APPLY" | tee -a out/seed_verify_r3.log; git -C /repo worktree remove --force $W; exit 3; }
patched=$(run_demo)
suite=$(cd $W && /venv/bin/python -m pytest -q -p no:cacheprovider --timeout=900 2>&1 | tail -1)
echo "$S: demo clean=$clean patched=$patched suite=[$suite]" | tee -a out/seed_verify_r3.log
mkdir -p out/reseed_evidence
for c in "$@"; do
  VERIF_REPO=$W VERIF_EVIDENCE_DIR=/verif/out/reseed_evidence ./check $c > out/vs_run$T.log 2>&1; rc=$?
  echo "$S: $c rc=$rc violations=$(grep -c '^VIOLATION' out/vs_run$T.log) $(grep '^VIOLATION' -A1 out/vs_run$T.log | grep clause= | sed 's/^ *//' | cut -c1-100 | sort | uniq -c | sort -rn | head -2 | tr '\n' ' ')" | tee -a out/seed_verify_r3.log
done
git -C /repo worktree remove --force $W
rm -f /tmp/vs_demo$T.log

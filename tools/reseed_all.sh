#!/bin/sh
# usage: tools/reseed_all.sh : apply every saved seeded defect in turn to a scratch worktree of /repo's HEAD (never to /repo
# itself), run the quick check of its property against that worktree (VERIF_REPO), revert.  Writes tools/reseed_last.log.
W=/tmp/wt_reseed
cd /verif
git -C /repo worktree remove --force $W 2>/dev/null
git -C /repo worktree add --detach -q $W HEAD || exit 2
: > out/reseed.log
for d in seeded/*/; do
  id=$(basename $d)
  prop=$(python3 -c "import json; print(json.load(open('$d/meta.json'))['property'])")
  (cd $W && git apply /verif/$d/patch.diff) || { echo "$id $prop PATCH-DOES-NOT-APPLY" >> out/reseed.log; continue; }
  mkdir -p out/reseed_evidence; VERIF_REPO=$W VERIF_EVIDENCE_DIR=/verif/out/reseed_evidence ./check $prop > out/reseed_run.log 2>&1; rc=$?
  echo "$id $prop rc=$rc violations=$(grep -c '^VIOLATION' out/reseed_run.log) $(grep '^VIOLATION' -A1 out/reseed_run.log | grep clause= | sed 's/^ *//' | cut -c1-70 | sort | uniq -c | sort -rn | head -1)" >> out/reseed.log
  git -C $W checkout -q -- . ; git -C $W clean -fdq
done
git -C /repo worktree remove --force $W
cp out/reseed.log tools/reseed_last.log

#!/bin/sh
# usage: tools/reseed_all.sh [shard nshards] : apply every saved seeded defect in turn to a scratch worktree of /repo's HEAD (never
# to /repo itself), run the quick check of its property against that worktree (VERIF_REPO), revert.  With shard/nshards only every
# nshards-th seed is run (several shards can run side by side, each on its own worktree); the last step merges out/reseed_*.log
# into tools/reseed_last.log when all shards are done:  tools/reseed_all.sh merge
cd /verif
if [ "$1" = merge ]; then cat out/reseed_shard*.log | awk '{a[$1]=$0} END{for(k in a) print a[k]}' | sort > tools/reseed_last.log; wc -l tools/reseed_last.log; exit 0; fi
if [ "$1" = one ]; then   # tools/reseed_all.sh one <seed-id>... : re-run single seeds (results override earlier lines at merge: shard 9)
  shift; W=/tmp/wt_reseed_9; git -C /repo worktree remove --force $W 2>/dev/null; git -C /repo worktree add --detach -q $W HEAD || exit 2
  mkdir -p out/reseed_evidence_9
  for id in "$@"; do
    d=seeded/$id; prop=$(python3 -c "import json; print(json.load(open('$d/meta.json'))['property'])")
    (cd $W && git apply /verif/$d/patch.diff) || { echo "$id $prop PATCH-DOES-NOT-APPLY" >> out/reseed_shard9.log; continue; }
    VERIF_REPO=$W VERIF_EVIDENCE_DIR=/verif/out/reseed_evidence_9 ./check $prop > out/reseed_run_9.log 2>&1; rc=$?
    echo "$id $prop rc=$rc violations=$(grep -c '^VIOLATION' out/reseed_run_9.log) $(grep '^VIOLATION' -A1 out/reseed_run_9.log | grep clause= | sed 's/^ *//' | cut -c1-70 | sort | uniq -c | sort -rn | head -1)" >> out/reseed_shard9.log
    git -C $W checkout -q -- . ; git -C $W clean -fdq
  done
  git -C /repo worktree remove --force $W; exit 0
fi
S=${1:-0}; N=${2:-1}
W=/tmp/wt_reseed_$S
git -C /repo worktree remove --force $W 2>/dev/null
git -C /repo worktree add --detach -q $W HEAD || exit 2
LOG=out/reseed_shard$S.log
: > $LOG
i=0
mkdir -p out/reseed_evidence_$S
for d in seeded/*/; do
  i=$((i+1)); [ $((i % N)) -eq $S ] || continue
  id=$(basename $d)
  prop=$(python3 -c "import json; print(json.load(open('$d/meta.json'))['property'])")
  (cd $W && git apply /verif/$d/patch.diff) || { echo "$id $prop PATCH-DOES-NOT-APPLY" >> $LOG; continue; }
  VERIF_REPO=$W VERIF_EVIDENCE_DIR=/verif/out/reseed_evidence_$S ./check $prop > out/reseed_run_$S.log 2>&1; rc=$?
  echo "$id $prop rc=$rc violations=$(grep -c '^VIOLATION' out/reseed_run_$S.log) $(grep '^VIOLATION' -A1 out/reseed_run_$S.log | grep clause= | sed 's/^ *//' | cut -c1-70 | sort | uniq -c | sort -rn | head -1)" >> $LOG
  git -C $W checkout -q -- . ; git -C $W clean -fdq
done
git -C /repo worktree remove --force $W
[ "$N" = 1 ] && cp $LOG tools/reseed_last.log

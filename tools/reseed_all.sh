#!/bin/sh
# usage: tools/reseed_all.sh : apply every saved seeded defect to /repo in turn, run the quick check of its property, revert.
# Writes out/reseed.log: one line per seed "<id> <check> rc=<rc> violations=<n>"
cd /verif
: > out/reseed.log
for d in seeded/*/; do
  id=$(basename $d)
  prop=$(python3 -c "import json; print(json.load(open('$d/meta.json'))['property'])")
  (cd /repo && git apply /verif/$d/patch.diff) || { echo "$id $prop PATCH-DOES-NOT-APPLY" >> out/reseed.log; continue; }
  ./check $prop > out/reseed_run.log 2>&1; rc=$?
  echo "$id $prop rc=$rc violations=$(grep -c '^VIOLATION' out/reseed_run.log) $(grep '^VIOLATION' -A1 out/reseed_run.log | grep clause= | sed 's/^ *//' | cut -c1-70 | sort | uniq -c | sort -rn | head -1)" >> out/reseed.log
  git -C /repo checkout -- .
done
git -C /repo status --short | grep -v resulttable

#!/bin/sh
# usage: tools/try_seed_wt.sh <patch.diff> <CHECK-ID>... : apply the patch to a scratch worktree of /repo HEAD, run the quick checks
# against it (VERIF_REPO), remove the worktree.  /repo itself is not touched.
P="$1"; shift
W=/tmp/wt_try_$$
cd /verif
git -C /repo worktree add --detach -q $W HEAD || exit 2
(cd $W && git apply "$P") || { echo "PATCH DOES NOT APPLY"; git -C /repo worktree remove --force $W; exit 3; }
mkdir -p out/reseed_evidence
for c in "$@"; do
  VERIF_REPO=$W VERIF_EVIDENCE_DIR=/verif/out/reseed_evidence ./check "$c" > out/try_$$.log 2>&1; rc=$?
  echo "$c rc=$rc violations=$(grep -c '^VIOLATION' out/try_$$.log) $(grep '^VIOLATION' -A1 out/try_$$.log | grep clause= | sed 's/^ *//' | cut -c1-120 | sort | uniq -c | sort -rn | head -3)"
done
rm -f out/try_$$.log
git -C /repo worktree remove --force $W

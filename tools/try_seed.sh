#!/bin/sh
# usage: tools/try_seed.sh <patch.diff> <CHECK-ID>...   : apply the patch to /repo, run the quick checks, revert
P="$1"; shift
cd /repo && git apply "$P" || { echo "PATCH DOES NOT APPLY"; exit 3; }
cd /verif
for c in "$@"; do
  ./check "$c" > out/seed_run.log 2>&1; rc=$?
  echo "$c rc=$rc violations=$(grep -c '^VIOLATION' out/seed_run.log) $(grep '^VIOLATION' -A1 out/seed_run.log | grep clause= | cut -c1-160 | sort | uniq -c | sort -rn | head -3)"
done
git -C /repo checkout -- . ; git -C /repo status --short | grep -v resulttable

"""Writes /verif/known_findings.json (committed; never modified at run time)."""
import json
SEMP = ["C01", "C02", "C03", "C04", "C05", "C06", "C07", "C08", "C29", "C30", "C13", "C19", "C20", "C21", "C22", "C23", "C25", "C26", "C31"]
F = []

def known(id, props, what, witness, match=None, match_any=None):
    e = {"id": id, "properties": props, "status": "known", "what": what, "witness": witness}
    if match_any: e["match_any"] = match_any
    else: e["match"] = match
    F.append(e)

def fixed(id, props, commit, what, witness):
    F.append({"id": id, "properties": props, "status": "fixed", "commit": commit,
              "what": "fixed: property=%s %s %s" % (props[0], commit, what), "witness": witness})

REL = ["crash", "schedule-dependent", "mode-dependent", "option-dependent", "order-dependent", "history-dependent",
       "backend-dependent", "variant-disagrees"]

known("KF2-spurious-negative-cycle-subcycle-under-negation", SEMP,
      "NegativeCycle raised on a stratified program: a negated goal that has a positive cycle of its own is evaluated while an enclosing cycle is open; registering the sub-cycle (cycleDetected -> notify_cycle to the cycle root) walks through the EvalNot",
      "0.3::a :- \\+r. p :- p. r :- r. r :- \\+p. query(a).   (expected P(a)=0, no cycle through negation)",
      match_any=[{"clause": c, "error": "NegativeCycle", "chain": "createCycle<notify_cycle<cycleDetected"}
                 for c in ["negative-cycle-on-stratified"] + REL[1:]])
known("KF42-negative-cycle-missed-after-positive-shortcut", SEMP,
      "a cycle through negation is not detected when the negated goal was first called POSITIVELY below an active goal that already had a proof: the call of the active goal is answered at once with the goal's own (still open) result node, the caller completes and is tabled, and a later negated call of the tabled goal hits a complete entry, for which no cycle check is made; the ground formula then contains a cycle through negation and a probability is reported where the program has no two-valued well-founded model. Needs three clauses of one predicate or three predicates on the cycle (the exhaustive two-predicate family of C02 has no such case)",
      "0.5::w. b :- w. b :- c. b :- \\+c. c :- b. query(b).   (answers b: 0.5; with the clauses of b in the order \\+c, c or with c first, NegativeCycle is raised)",
      match={"clause": "answered-negative-cycle", "negscc_wide": True})
UNB = ["unbuf", "rc", "rand"]
known("KF5-unbuffered-indirect-call-cycle-error", ["C04"],
      "unbuffered engine modes (unbuffered=True, rc_first, documented random order) raise IndirectCallCycleError from EvalDefine.cycleDetected on cyclic programs that contain no findall/call at all",
      "0.9::f. d(c1). d(c2). p(Y) :- p(X), d(Y). p(c1) :- d(X), d(X), p(X). query(p(c2)). query(p(c1)). query(p(V)).  with engine unbuffered/random",
      match_any=[{"clause": c, "variant": v, "error": "IndirectCallCycleError", "site": "eval_nodes.py:cycleDetected", "cyclic": True}
                 for c in ["wrong-error", "mode-dependent"] for v in UNB])
known("KF6-unbuffered-invalid-engine-state", ["C04"],
      "unbuffered engine modes end with InvalidEngineState (stack not empty at the final message) on cyclic programs",
      "see /verif/DESIGN.md §7; program with positive recursion evaluated with StackBasedEngine(unbuffered=True)",
      match_any=[{"clause": c, "variant": v, "error": "InvalidEngineState", "site": "engine_stack.py:execute", "cyclic": True}
                 for c in ["crash", "mode-dependent"] for v in UNB])
_C04 = json.load(open('/verif/tools/c04_corpus_known.json'))
known("KF38-unbuffered-modes-fail-on-listed-corpus-cases", ["C04"],
      "the unbuffered engine modes (unbuffered depth-first, rc_first, seeded random order) of the pinned tree fail on cyclic programs (errors of KF5 / KF6 / KF6b, decisions of KF7, lost or different answers of KF27); on the FIXED corpus of C04 (vlib/checks/c04.py corpus(): 290 cyclic programs x 7 modes) the failing (program, mode) pairs are listed one by one in tools/c04_corpus_known.json (%d pairs, the same in three runs), so that any other pair that starts to fail is reported" % len(_C04["cases"]),
      "tools/c04_corpus_known.json; regenerate on the pinned tree with tools/corpus_known.py C04",
      match={"cyclic": "corpus", "corpus_case": _C04["cases"]})
known("KF7-unbuffered-negative-cycle-decision-differs", ["C04"],
      "on programs whose ground dependency graph has a cycle through negation (C02 class 'either'), unbuffered modes and the default engine take different accept/reject decisions (checkCycle on re-entry of an active goal is order dependent)",
      "test/negative_cycle.pl: default raises NegativeCycle, StackBasedEngine(unbuffered=True) answers 0.86",
      match_any=[{"clause": "mode-dependent", "variant": v, "error": "NegativeCycle", "site": "engine_stack.py:checkCycle", "cyclic": True}
                 for v in UNB] + [{"clause": "answered-negative-cycle", "variant": v, "cyclic": True} for v in UNB])

known("KF8-keep-all-not-neutral", ["C06"],
      "keep_all=True is not semantics-neutral: deterministic facts are kept as atoms with probability None whose positive and negative weights are both one, so unnormalised results are multiplied (P = 2.0); combined with propagate_weights, Semiring.value(None) raises TypeError; DDNNF set_evidence raises TypeError on such atoms",
      "0.5::f. d(c1). d(c2). r(Y) :- d(Y), f, d(X). query(r(c1)).  LogicFormula.create_from(..., keep_all=True)",
      match_any=[{"clause": c, "keep_all": True} for c in ["prob", "crash", "option-dependent", "spurious-answer", "missing-instance", "answered-inconsistent-evidence", "spurious-inconsistent-evidence", "wrong-error"]])

known("KF9-ad-sum-unchecked-when-one-head-grounded", ["C30"],
      "an annotated disjunction whose probabilities sum to more than 1 is accepted when only one of its heads is grounded: the sum is only checked by ConstraintAD once a second member of the group has been added",
      "0.6::a; 0.6::b. query(a).   (answers a: 0.6; with query(b) added InvalidValue is raised)",
      match={"clause": "invalid-annotation-accepted", "invalid_kind": "ad-sum-one"})

known("KF37-quoted-number-atom-unifies-with-number", ["C14"],
      "=/2 (unify_value) decides by Term.signature, which strips the quotes of a quoted atom: the atom '1' and the integer 1 (and '1.0' and 1.0) have the same signature and unify, although no mgu exists; atom('1') still holds for the result and clause-head unification (clause index) keeps them apart",
      "q :- '1' = 1. query(q).   (answers 1.0; atom('1') and integer(1) are both true, '1' == 1 fails)",
      match={"clause": "eq-succeeds-on-non-unifiable", "numeric_atom": True})
known("KF41-clause-index-distinguishes-quoted-atoms", ["C14"],
      "a call whose argument contains the atom a does not match a clause head that writes the same atom with quotes ('a') when the argument is ground: the clause index (ClauseIndex.find) looks arguments up by their stored text, where the quotes are kept, so the clause is filtered out before unification; =/2 and non-ground arguments treat the two spellings as the same atom (Term.signature strips the quotes)",
      "p('a'). q :- p(a). query(q).   (answers 0.0; p(f('a')) vs p(f(a)) likewise; q :- a = 'a'. answers 1.0)",
      match={"clause": "head-fails-on-unifiable", "quoted_atom": True})
known("KF10-equal-terms-with-different-hashes", ["C18"],
      "objects that compare equal have different hashes: Constant.__eq__ (and Var.__eq__) compare the printed text while __hash__ hashes the value / name, so Constant(1) == Constant('1') == Term('1') and Var('X') == Term('X') with different hashes; Not('\\+',a) == Not('not',a) with different hashes",
      "hash(Constant(1)) != hash(Constant('1')) although Constant(1) == Constant('1'); hash(Not('\\+',a)) != hash(Not('not',a))",
      match_any=[{"clause": "eq-but-different-hash", "cause": "same-text-different-class"},
                 {"clause": "eq-but-different-hash", "cause": "negation-spelling"}])
known("KF11-python-equality-stricter-than-unification", ["C18"],
      "ground terms that ProbLog's unification treats as identical do not compare equal: a quoted atom 'a' vs a (signature strips the quotes, == does not), Term('1') vs Constant(1) as arguments, Not('\\+',a) vs Term('\\+',a), and - below a functor or in a list - Term(',',a,b) vs And(a,b), Term(';',a,b) vs Or(a,b) (Term.__eq__ compares the classes of nested arguments)",
      "Term(\"'a'\") != Term('a') but unify_value accepts the pair; Term('f',Term('a'),Constant(1)) != Term('f',Term('a'),Term('1'))",
      match_any=[{"clause": "eq-differs-from-unification", "cause": "quoted-vs-unquoted-atom"},
                 {"clause": "eq-differs-from-unification", "cause": "same-text-different-class"},
                 {"clause": "eq-differs-from-unification", "cause": "negation-spelling"},
                 {"clause": "eq-differs-from-unification", "cause": "same-term-different-classes"}])

known("KF35-negative-zero-equal-but-not-unifiable", ["C18"],
      "0.0 and -0.0 compare equal (Python float equality) and hash alike, but unification compares signatures (printed text) and rejects the pair",
      "Term.from_string('p(0.0)') == Term.from_string('p(-0.0)') is True; unify_value on the two raises UnifyError",
      match={"clause": "eq-differs-from-unification", "cause": "negative-zero"})

EXP_CL = ["negative-cycle-on-stratified", "prob", "missing-instance", "spurious-answer", "export-changes-answer", "crash", "wrong-error", "answered-inconsistent-evidence", "spurious-inconsistent-evidence"]
known("KF12-to-prolog-merges-groundings-of-an-ad", ["C25"],
      "to_prolog prints every grounding of an annotated disjunction as the same clause and merges the auxiliary bodies of the groundings (0.3::a; 0.4::b :- h, \\+aux_1. printed twice with aux_1 :- g(c1). aux_1 :- g(c2).): the exported text has a different distribution",
      "0.1::g(c1). 0.6::g(c2). 0.5::h. 0.3::a; 0.4::b :- d(Y), h, \\+g(Y). d(c1). d(c2). query(a).",
      match_any=[{"clause": c, "variant": v, "ad_nonground": True, "corpus": None} for c in EXP_CL for v in ("export", "export-dag")])
known("KF13-to-prolog-aux-name-clash-for-negated-bodies", ["C25"],
      "to_prolog gives two different auxiliary nodes of negated subgoals the same name (aux_1 :- g. aux_1 :- f.), so negated literals of the exported program refer to the wrong disjunction",
      "0.3::f. 0.25::g. a :- f, \\+g. a :- f, c. b :- \\+g, g. b :- a. c :- \\+f. c :- a. query(a). query(b).",
      match_any=[{"clause": c, "variant": v, "has_negation": True, "corpus": None} for c in EXP_CL for v in ("export", "export-dag")])
known("KF14-to-prolog-evidence-on-deterministic-nodes", ["C25"],
      "to_prolog exports evidence on deterministically true/false nodes with the wrong definition or sign (evidence(a,false) on a false atom becomes 'a :- fail. a. evidence(a).')",
      "0.5::f. a :- f, a. query(a). evidence(a, false).",
      match_any=[{"clause": c, "variant": v, "has_evidence": True, "corpus": None} for c in EXP_CL for v in ("export", "export-dag")])

_C25 = json.load(open('/verif/tools/c25_corpus_known.json'))
known("KF39-to-prolog-fails-on-listed-corpus-cases", ["C25"],
      "to_prolog of the pinned tree changes the distribution of many programs with negated subgoals, evidence on deterministic nodes or non-ground annotated disjunctions (KF12, KF13, KF14); on the FIXED corpus of C25 (vlib/checks/c25.py corpus(): 340 programs x export / export with cycle breaking) the failing (program, variant) pairs are listed one by one in tools/c25_corpus_known.json (%d pairs, the same in two runs), so that any other pair that starts to fail is reported" % len(_C25["cases"]),
      "tools/c25_corpus_known.json; regenerate on the pinned tree with tools/corpus_known.py C25",
      match={"corpus": True, "corpus_case": _C25["cases"]})
known("KF17-sampler-propagate-evidence-rejects-everything", ["C22"],
      "sample --propagate-evidence: when an evidence atom is decided without sampling (negative evidence on an atom that has no matching fact, evidence on a derived atom that is deterministically true/false given the propagated facts), verify_evidence's propagated-evidence path rejects every sample, so the sampler never produces one",
      "0.5::g(c1). 0.4::h. query(h). evidence(g(c2),false).   sample(model, propagate_evidence=True) rejects all samples",
      match={"clause": "all-samples-rejected", "variant": "propagate_evidence"})
known("KF18-sampler-propagate-evidence-distribution", ["C22"],
      "sample --propagate-evidence forces the propagated atoms (probability 1.0 / 0.0) but does not renormalise the remaining mass of annotated disjunctions nor condition the other choices, so the samples do not follow P(. | evidence)",
      "0.4::a; 0.3::b; 0.1::c. query(c). evidence(a,false). evidence(\\+b).   frequency of c is 0.1, P(c | evidence) = 1/3",
      match_any=[{"clause": "sample-distribution", "variant": "propagate_evidence"},
                 {"clause": "accepts-impossible-evidence", "variant": "propagate_evidence"}])

known("KF19-py2pl-tuple-encoding-not-injective", ["C28"],
      "py2pl encodes the tuple (a, b, c) as ','(a, ','(b, c)), the same term as (a, (b, c)): a tuple nested in the LAST position of a tuple is flattened by the round trip (TLC finds the counterexample on the encoding model PyPlMC_all.cfg)",
      "pl2py(py2pl((1, (2, 3)))) == (1, 2, 3)",
      match={"clause": "nested-last-tuple-flattened", "via": "pypl"})
fixed("FX19-pl2py-strips-inner-quotes", ["C28"], "968384f", "pl2py removed every quote character from strings: pl2py(py2pl(\"it's\")) == 'its'", "pl2py(py2pl(\"it's\"))")

fixed("FX3-symbolic-normalize-parentheses", ["C05"], "75632d5",
      "SemiringSymbolic.normalize printed a / z without parentheses around a product z: expression evaluates to a wrong number",
      "0.6::f. 0.8::h(c2). 0.1::a. p :- h(c2), f. query(a). evidence(p).  symbolic result 0.8*0.6*0.1 / 0.8*0.6*(0.1 + (1-0.1)) = 0.036, expected 0.1")
fixed("FX4-bitvector-iand", ["C34"], "ba4cb95",
      "BitVector.__iand__ left the blocks of self beyond other's length unchanged ({1,40} &= {1} gave {1,40})",
      "a=BitVector(); a.add(1); a.add(40); b=BitVector(); b.add(1); a &= b; sorted(a) == [1, 40]")
fixed("FX5-struct-cmp-numbers", ["C15", "C33"], "b2da9d2",
      "struct_cmp fell through to the functor-string comparison when two numbers differ: 10 @< 9 true, sort([10,9,2,1]) = [1,10,2,9]",
      "q :- 10 @< 9. query(q).   s(L) :- sort([10,9,2,1],L).")
fixed("FX6-same-var-vs-negative-int", ["C15"], "0de22f3",
      "-1 == X succeeded for an unbound variable X (variables are negative ints internally)",
      "e :- -1 == X. query(e).")
fixed("FX7-intdiv-truncation", ["C16"], "466e01c", "X is -7 // 2 gave -4 (floor) instead of -3 (truncation)", "r(X) :- X is -7 // 2.")
fixed("FX8-round-integer", ["C16"], "eaa3896", "round(2.5) = 2 (banker's rounding) and integer(2.5) = 2 (truncation) instead of 3", "r(X) :- X is round(2.5).")
fixed("FX9-float-parts-type", ["C16"], "c81281a", "float_integer_part/float_fractional_part returned integers", "r(X) :- X is float_integer_part(2.5).")
fixed("FX10-arith-typeerror", ["C16", "C27"], "e815c27", "a bitwise operator applied to a float raised Python's TypeError instead of a ProbLog ArithmeticError", "r(X) :- X is 1.5 /\\ 1.")
fixed("FX11-extension-ad-group-id", ["C29"], "c1ae688", "an AD added to db.extend() could share its group id with an AD of the parent (wrong probabilities)", "base 0.4::a; 0.1::b; 0.3::c :- c, c.  extension += 0.2::a; 0.3::b; 0.5::c.  query b: 0.1 instead of 0.35")
fixed("FX12-nested-extension-redirect-chain", ["C29"], "b16d578", "a second-level extension lost clauses of a predicate that the base only referenced (placeholder redirect not resolved through ancestors)", "base: 0.1::b :- a, q(X,X). (q undefined); ext1 adds q/2 clause; ext2 adds another q/2 clause; query on ext2 ignores it")
known("KF15-findall-order-follows-tabled-evaluation", ["C13", "C19"],
      "the list built by findall/3 has Prolog's elements but not always Prolog's SLD order: answers of a called predicate are tabled (identical answers of different clauses are merged, results are grouped per answer) and results of clause nodes (non-ground facts, rules) and fact nodes of one predicate are delivered in different phases",
      "p(_,1). p(a,2). p(b,3). p(_,4). p(a,0). w(L) :- findall(N, p(a,N), L).  gives [1,4,2,0], Prolog gives [1,2,4,0]",
      match_any=[{"clause": "findall-order", "mode": "seq"}])
known("KF15b-all3-eliminates-duplicates", ["C19"],
      "all/3 lists a solution that holds in several ways once (it behaves like YAP's all/3, as docs/source/modeling_basic.rst says of findall); the property asks for Prolog's findall list with duplicates, minus the empty list. findall/3 itself keeps duplicates on the pinned tree",
      "0.2::g(c). 0.7::g(c). w(L) :- all(X, g(X), L). query(w(_)).  reports w([c]) 0.76; with duplicates: w([c]) 0.62, w([c,c]) 0.14",
      match={"clause": "findall-duplicates-merged", "mode": "seq", "kind": "all"})
fixed("FX13-clauseindex-order", ["C13"], "d48c419", "ClauseIndex.find returned candidate clauses out of program order (variable-bucket clauses after constant-bucket ones) and permanently merged buckets", "p(_,1). p(a,2). p(b,3). p(_,4).  engine.query(db, p(a,N)) tried clauses in the order 2,1,4")
known("KF16-is-list-accepts-partial-lists", ["C16"],
      "is_list/1 succeeds on a partial list (unbound tail); in Prolog is_list/1 is true only for proper lists. The repository's own test (test/00_builtins.pl, is_list_002) pins this behaviour, so it cannot be repaired without editing the test suite",
      "q :- is_list([a,b|E]). query(q).   (1, Prolog: 0)",
      match={"clause": "builtin-answer-set", "functor": "is_list/1"})
fixed("FX14-succ-zero", ["C16"], "0b9be30", "succ(X, 0) answered X = -1", "?- succ(X, 0).")
fixed("FX15-arg-bindings", ["C16", "C14"], "0a094a9", "arg/3 did not bind variables of the inspected term: arg(1, g(X,1), a), X == a failed", "t :- arg(1, g(X,1), a), X == a. query(t).")
fixed("FX16-functor-name-of-number", ["C16"], "72272b2", "functor(3, N, A) answered N = '3' (an atom) instead of 3", "?- functor(3, N, A).")
fixed("FX17-length-unifyerror", ["C16", "C27"], "fd89bc6", "length(L, -1) raised the internal engine_unify.UnifyError", "?- length(L, -1).")
fixed("FX18-eq-result-not-resolved", ["C14"], "a2825b1", "X = Y returned bindings that are not the mgu: a variable bound by a later argument stayed unbound in an earlier one", "r(A,B,C) :- g(f(f(A)),f(B)) = g(C,A).  gave C = f(f(f(_other)))")
fixed("FX20-semiring-is-one", ["C12"], "9f3be78", "Semiring.is_one compared with the bound method: is_one(one()) False, default normalize(a, one()) raised OperationNotSupported", "class Mini(Semiring) with one()=1.0: Mini().is_one(1.0) is False")
known("KF20-mpe-semiring-mode", ["C20"],
      "mpe --use-semiring maximises only over the choices that occur in the ground program of the evidence, prints only query atoms that are plain facts ('compound queries are not supported', AD heads are dropped), reports the weight of that partial assignment, and does not notice unsatisfiable evidence; the MaxSAT mode on the same programs is correct. Structural triggers: an annotated disjunction, negation (in a body or as negative evidence), or a conjunction (rule body, or the conjunction of the evidence atoms) whose parts depend on a common fact; positive AD-free programs whose conjunctions have disjoint supports are answered correctly on the pinned tree",
      "0.9::g. 0.3::c; 0.1::b. q :- g. q :- \\+b. query(g). query(c). query(b). evidence(g).  --use-semiring prints probability 0.9 and no atoms; MaxSAT mode prints g, \\+c, \\+b, 0.54",
      match_any=[dict({"clause": c, "mode": "semiring"}, **trig)
                 for c in ["reported-probability", "answered-unsatisfiable-evidence", "assignment-violates-evidence", "not-most-probable", "reported-unsatisfiable"]
                 for trig in ({"has_ad": True}, {"negation": True}, {"conj_disjoint": False})])
fixed("FX21-mpe-maxsat-false-evidence", ["C20"], "cfac4cc", "MaxSAT MPE printed an assignment and a probability for a model whose evidence is deterministically false", "0.2::c. q :- \\+c. q :- c. query(c). evidence(q, false).")
known("KF21-dt-score-zero-when-no-decision-is-relevant", ["C21"],
      "when no decision fact is reached while grounding the utility atoms, dtproblog returns the empty strategy with score 0.0 ('no decisions found') instead of the expected utility of the (decision-independent) program",
      "0.6::f. 0.1::g. 0.6::h. c :- h, f, g. ?::d1. utility(c, 2).   score 0.0, expected utility 0.072",
      match={"clause": "reported-score", "no_decision_grounded": True})
known("KF22-negative-cycle-detection-depends-on-order", ["C03", "C04", "C06", "C07", "C08"],
      "on programs whose ground dependency graph has a cycle through negation (not 'must answer'), whether NegativeCycle is raised depends on the evaluation order / options: the same program is rejected with NegativeCycle under one schedule and reaches evaluation (answers or InconsistentEvidenceError) under another",
      "0.1::f(c1). d(c1). d(c2). p(c2) :- d(X), d(Y), f(Y), \\+f(X). p(X) :- f(X), p(Y). q(c1,X) :- d(X), p(c2), f(c1). r :- d(Y), \\+q(Y,c1), \\+p(Y). s(Y) :- d(Y), s(X), \\+f(c1). s(c1) :- r, s(X). query(s(V)). query(s(c1)). query(q(W,c2)). evidence(f(c2)).",
      match_any=[{"clause": c, "error": "NegativeCycle", "class": k} for c in ["schedule-dependent", "mode-dependent", "option-dependent", "order-dependent", "history-dependent"] for k in ["either", "mustReject"]]
               + [{"clause": "mode-dependent", "variant": v, "class": k} for v in ("unbuf", "rc", "rand") for k in ["either", "mustReject"]])
known("KF6b-unbuffered-result-transform-crashes", ["C04"],
      "unbuffered / random-order modes crash inside result_transform on cyclic non-ground programs (IndexError in substitute_simple, AssertionError in result_transform)",
      "0.2::f(c1). 0.7::f(c3). d(c1). d(c2). d(c3). p(Y,X) :- d(Y), d(X), f(c1), \\+f(Y). q(Y) :- d(Y), p(X,Y), f(X). r(c2) :- p(Y,Y), p(Y,Y), d(Y). r(X) :- d(X), r(c2). query(q(c3)). query(r(W)). query(p(W,V)). evidence(f(c3), false).  random order",
      match_any=[{"clause": c, "variant": v, "error": e, "site": st, "cyclic": True} for c in ["crash", "mode-dependent"] for v in ("unbuf", "rc", "rand")
                 for (e, st) in [("IndexError", "engine_unify.py:substitute_simple"), ("AssertionError", "engine_stack.py:result_transform")]])
known("KF23-mpe-maxsat-zero-probability-for-unsatisfiable-ad-evidence", ["C20"],
      "MaxSAT MPE on evidence that rules out every head of an annotated disjunction whose probabilities sum to one prints an assignment with probability 0 instead of reporting the model as unsatisfiable",
      "0.2::d; 0.8::c. query(d). query(c). evidence(c, false). evidence(\\+d).",
      match={"clause": "answered-unsatisfiable-evidence", "mode": "maxsat", "zero_probability": True})
known("KF24-dt-keyerror-for-eliminated-decision", ["C21"],
      "dtproblog raises KeyError (LogicFormula.get_node_by_name) when a decision atom occurs only in a contradictory conjunction (d, \\+d) so that its node is eliminated from the compiled formula",
      "0.1::f. a :- d1, \\+d1. b :- \\+f, d2. ?::d1. ?::d2. utility(a, -1). utility(d2, 2).",
      match={"clause": "crash", "error": "KeyError", "site": "formula.py:get_node_by_name"})
known("KF25-bn-export-crashes", ["C31", "C25"],
      "the bn task crashes on ordinary programs: KeyError in LogicFormula.extract_ads when avoid_name_clash=False collapses a single-child disjunction and the AD head names are lost; AttributeError in clause_to_cpt when a clause head carries no probability object",
      "0.2::c; 0.5::d. query(c). query(d).  (problog bn -> KeyError);  0.8::f. d(c1). q :- d(X), \\+f. query(q).  (AttributeError)",
      match_any=[{"clause": "crash", "error": "KeyError", "site": "formula.py:extract_ads", "corpus": None},
                 {"clause": "crash", "error": "AttributeError", "site": "bayesnet.py:clause_to_cpt", "corpus": None}])
known("KF26-bn-export-drops-or-misroutes-variables", ["C31"],
      "the exported network can lack the variable of a queried probabilistic fact that is also used in a rule body with other variables, and can contain a directed cycle between a head variable and its choice variable when two annotated disjunctions share head atoms",
      "0.1::h(c2). d(c1). d(c2). s :- d(X), h(Y). query(h(c2)). query(s).  (network has only c0 and s);  0.2::e; 0.2::d; 0.2::c; 0.2::a. 0.3::e; 0.3::a. q :- a, d. query(q).  (cycle a <-> c0)",
      match_any=[{"clause": "query-variable-missing", "corpus": None}, {"clause": "network-cyclic", "corpus": None},
                 {"clause": "network-not-well-formed", "corpus": None}])
known("KF36-bn-export-ad-head-in-conjunction", ["C31"],
      "when a head of a body-free annotated disjunction is used in a rule body together with another literal (q :- v, e.) and alone elsewhere (r :- e.), the exported network conditions the AD's choice variable on the other literal (Factor (c0 | v)) and loses the clause that uses the head alone: marginals change",
      "0.5::v. 0.1::d; 0.2::e; 0.1::c; 0.6::b. q :- v, e. q :- v. r :- e. r :- v, b. s :- b. query(q). query(r). query(s).  (problog bn: P(r) = 0.3, exact 0.5)",
      match={"clause": "marginal-differs", "has_ad": True, "ad_head_in_conj": True, "corpus": None})
_C31 = json.load(open('/verif/tools/c31_corpus_known.json'))
known("KF40-bn-export-fails-on-listed-corpus-cases", ["C31"],
      "the bn task of the pinned tree crashes (KF25), drops or misroutes variables (KF26) or conditions an AD's choice variable wrongly (KF36) on many programs; on the FIXED corpus of C31 (vlib/checks/c31.py corpus(): 300 programs) the failing programs are listed one by one in tools/c31_corpus_known.json (%d programs, the same in two runs), so that any other program that starts to fail is reported" % len(_C31["cases"]),
      "tools/c31_corpus_known.json; regenerate on the pinned tree with tools/corpus_known.py C31",
      match={"corpus": True, "corpus_case": _C31["cases"]})
known("KF27-unbuffered-modes-wrong-answers-on-cycles", ["C04"],
      "on programs with (positive) cycles the unbuffered / random-order modes can lose answers or report different probabilities than the default engine (besides the errors of KF5/KF6): results of a cycle are forwarded before the cycle is closed",
      "0.3::f. 0.1::g. ... cyclic non-ground program, documented random order: q(c1,c2) (P = 0.16) is not reported (replay: ./check C04 --seed 2)",
      match_any=[{"clause": c, "variant": v, "cyclic": True} for c in ["missing-instance", "prob", "spurious-answer", "mode-dependent"] for v in ("unbuf", "rc", "rand")])
C27_SITES = [('AttributeError', 'clausedb.py:_compile'), ('AttributeError', 'clausedb.py:_get_head'), ('AttributeError', 'engine_builtin.py:_build_scope'), ('AttributeError', 'engine_builtin.py:_builtin_numbervars'), ('ModuleNotFoundError', 'engine_builtin.py:_builtin_check_state'), ('ModuleNotFoundError', 'engine_builtin.py:_builtin_condition'), ('ModuleNotFoundError', 'engine_builtin.py:_builtin_reset_state'), ('ModuleNotFoundError', 'engine_builtin.py:_builtin_set_state'), ('TypeError', 'engine_builtin.py:_builtin_find_scope'), ('TypeError', 'engine_builtin.py:_builtin_ge'), ('TypeError', 'engine_builtin.py:_builtin_gt'), ('TypeError', 'engine_builtin.py:_builtin_le'), ('TypeError', 'engine_builtin.py:_builtin_lt'), ('TypeError', 'engine_builtin.py:_builtin_try_calln'), ('TypeError', 'logic.py:with_args'), ('ValueError', 'logic.py:term2list')]
known("KF28-builtins-raise-internal-exceptions-on-ill-typed-arguments", ["C27"],
      "ill-typed or ill-moded calls of some builtins escape as internal Python exceptions instead of ProbLogError subclasses: arithmetic comparison of a number with a string (TypeError in _builtin_lt/le/gt/ge), a conjunction (a,b) passed to call/N, =../2, try_call/N (And.__init__ TypeError in Term.with_args), findall/all with a non-callable goal (AttributeError in ClauseDB._compile / _get_head), call_in_scope / find_scope with unbound or non-list scopes, numbervars/2,3 on an unbound variable, and the state builtins set_state/reset_state/check_state/condition (ModuleNotFoundError: absolute import of engine_stack; after fixing the import reset_state fails in Context())",
      "t :- 0 < \"s\". query(t).   t :- call((a,b), 1). query(t).   t :- findall(-1, [1,2], _). query(t).   t :- check_state(X). query(t).",
      match_any=[{"clause": "crash", "error": e, "site": st} for (e, st) in C27_SITES])
# C17: the edges (root, argument position, kind of the argument) whose print / re-parse round trip fails on the pinned tree,
# enumerated once by tools/c17_edges.py over the whole operator table (tools/c17_known_edges.json, committed)
_E = json.load(open('/verif/tools/c17_known_edges.json'))
def _fam(edge):
    root, child = edge.split('@')[0], edge.split(':')[-1]
    if root in ('^/2', '**/2') or child in ('^/2', '**/2'):
        return 'power'
    if child in (';/2', '->/2', ',/2') and root not in ('-/1', '\\/1', '\\+/1'):
        return 'control'
    return 'prefix'
def _m(fam):
    # whether a bad edge shows as a changed term or as unparsable text depends on the surrounding term
    return [{"clause": ["round-trip-changes-term", "printed-text-does-not-parse"], "shape": sorted({e for c, e in _E if _fam(e) == fam})}]
known("KF29-printer-prefix-operators", ["C17"],
      "the term printer does not parenthesise applications of prefix operators (\\+, -, \\): '\\+(a)>>b' is printed for (\\+a)>>b and re-parsed as \\+(a>>b); '-[a]' / '\\[a]' are printed for -([a]) and are not valid text; '-a+b' is printed for -(a+b); -(1) is read as the number -1. Identified by the edge (root, argument position, argument kind) of the smallest failing subterm; the list is the complete enumeration over the operator table on the pinned tree",
      "Term.from_string('(\\+ (a)) >> b') prints as '\\+(a)>>b', which parses as '\\+'('>>'(a,b))",
      match_any=_m('prefix') + [{"clause": "parsed-term-differs-from-ast", "shape": "-/1(number)"}])
known("KF30-printer-control-operators-as-operands", ["C17"],
      "the term printer does not parenthesise ; and -> (and a left-nested ,) when they are operands of another operator, arguments of a compound or list elements: f(a ; b) is printed 'f(a; b)' (rejected by the parser), (b ; X) =:= Y is printed 'b; X=:=Y'. Identified by edge, as KF29",
      "Term.from_string(\"f(('A b' ; b), c)\") prints as \"f('A b'; b,c)\" -> ParseError",
      match_any=_m('control'))
known("KF31-printer-parser-power-operator", ["C17"],
      "x^y (and **) next to an operator of lower binding strength does not round-trip: (V1 ^ a) << b is printed 'V1^a<<b' and re-parsed as V1 ^ (a << b). Identified by edge, as KF29",
      "Term.from_string('(V1 ^ a) << [a]') -> 'V1^a<<[a]' -> '^'(V1, '<<'(a,[a]))",
      match_any=_m('power'))
known("KF34-float-literal-overflow-prints-as-atom", ["C17"],
      "a float literal beyond the double range (1e400) is read as the float inf, which str() prints as 'inf' - read back as the atom inf",
      "str(Term.from_string('f(1e400)')) == 'f(inf)'; Term.from_string('f(inf)') has an atom argument",
      match={"clause": "round-trip-changes-term", "shape": "literal", "literal": "1e400"})
known("KF32-lfi-annotated-disjunction-update-not-em", ["C24"],
      "learning an annotated disjunction with t(_) heads is not an EM step: LFIProblem._update counts every head's lfi_par once per head of the AD (denominator x number of heads), "
      "_normalize_weights (normalize=True, CLI default) then rescales the heads to the whole available mass (no 'none of the heads' outcome), and infer_AD_values rewrites the observations "
      "of an AD before learning; the reported log-likelihood decreases between iterations. With normalize=True this shows only when the AD has a fixed head or the data "
      "contain an example in which the AD fires and none of its heads is chosen; complete ADs without such examples are monotone on the pinned tree",
      "t(0.2)::c1; t(0.3)::c2; t(0.1)::c3. h :- c1.  examples {h}, {\\+h}, {\\+c1, c2, \\+c3}; LFIProblem(..., normalize=False): LL -3.04, -4.19, -4.35, ...;  "
      "t(0.6)::a. 0.6::f. t(0.4)::m1; 0.3::m2. h1 :- m2. h1 :- m1, m2. h2 :- h1. h2 :- m1. h3 :- m1. with normalize=True: LL -11.8035 -> -11.8123",
      match_any=[{"clause": "log-likelihood-decreases", "has_ad": True, "normalize": False},
                 {"clause": "log-likelihood-decreases", "has_ad": True, "normalize": True, "ad_fixed_head": True},
                 {"clause": "log-likelihood-decreases", "has_ad": True, "normalize": True, "ad_null_in_data": True}])
known("KF33-lfi-single-learnable-head-not-normalised", ["C24"],
      "an AD with ONE learnable head and fixed heads (t(0.3)::m1; 0.1::m2.) is treated as 'not an AD' by _normalize_weights (len(idx) == 1), so the learned head can reach 1.0 - with some data even exceed it "
      "(t(0.3)::m1; 0.4::m2. learns m1 = 1.23, 1.48, ...) - and the learned model '1.0::m1; 0.1::m2.' has an AD mass of 1.1, which ProbLog itself rejects",
      "t(0.4)::a. t(_)::b. t(0.3)::m1; 0.1::m2. h1 :- a, m2.  examples {m1,b}, {m1,\\+m2,\\+h1}, ...: learned model contains 1.0::m1; 0.1::m2.",
      match_any=[{"clause": c, "ad_fixed_head": True, "learnable_heads": 1}
                 for c in ("ad-sum-with-fixed-heads-exceeds-one", "parameter-not-a-probability", "ad-learned-sum-exceeds-one")])
fixed("FX22-parser-indexerror-sharp-open", ["C17", "C27"], "842652f", "parsing 'a < .' raised IndexError in PrologParser.collapse instead of a ParseError", "list(PrologString('a < .'))")
fixed("FX23-kbest-explanation-head", ["C23"], "91c12a7",
      "explain: the proofs of queries that share a formula node were all printed under the first such query's name (p(c1) three times for p(c1), p(c2), p(c3))",
      "0.1::f(c3). d(c1). d(c2). d(c3). p(X) :- f(Y), d(X), d(c2). p(Y) :- f(Y). query(p(V)).  (problog explain)")
fixed("FX24-negated-number-head-typeerror", ["C17", "C27"], "882979b",
      "parsing '\\+1 <- a.' (also '0.3::\\+1.') raised TypeError in ExtendedPrologFactory.neg_head_literal_to_pos_literal instead of a ProbLogError",
      "list(PrologString('\\+1<-a.'))   (the text Term.__repr__ prints for \\+(1 < -a))")
fixed("FX25-empty-parentheses", ["C17", "C27"], "0e7858e",
      "parsing '().' raised a bare Exception ('Unknown type: None') in build_program; 'a :- ().' and 'a(()).' produced clauses containing None",
      "list(PrologString('().'))")
fixed("FX26-repeated-variable-call-loses-head-bindings", ["C01", "C13", "C14", "C31"], "62d251a",
      "eval_clause ignored the substituted context returned by unify_call_head: for a call with a repeated variable (q(X,X)) and a head q(a,Y) the body ran with Y unbound. "
      "Top-level query(p(W,W)) reported answers that are not instances of the query (formerly KF3 / KF3b); inside cycles the answers of other clauses were lost: "
      "0.7::f. 0.1::g. d(a). d(b). q(a,X) :- d(X), g, q(Y,Y). q(X,Y) :- e(X,Y), f. e(a,a). e(a,b). e(b,b). query(q(a,b)). reported 0.07 instead of 0.7",
      "d(c1). d(c2). d(c3). p(Y,c3) :- d(Y). query(p(W,W)).   (reported p(c1,c3), p(c2,c3), p(c3,c3))")
fixed("FX27-negative-cycle-missed-on-table-hit-of-active-goal", ["C02", "C01", "C03"], "cd9f52a",
      "a goal that is both on a positive cycle and on a cycle through negation was answered instead of rejected (formerly KF4): the table entry of a ground goal is written when its buffer "
      "is flushed, i.e. while it is still active, and a later call served from the table never looked for a negation. Found as a counterexample of Engine.tla "
      "(AnsweredOnlyWhenDefined, Engine_prefix_tablehit.cfg); the repair (dependency closure over open cycles) was model-checked before it was written",
      "0.3::f. 0.6::g. p :- \\+q. p :- q, g. q :- g. q :- p. query(q). query(p).   (answered; now NegativeCycle)")
fixed("FX28-false-proof-on-a-cycle", ["C01", "C03", "C27"], "b6488b4",
      "engine raised AssertionError (`assert not self.collapsed` in ResultSet.__setitem__) or ValueError ('Cannot update failing node') on stratified cyclic programs (formerly KF1): "
      "a deterministically false first proof of a goal on a cycle was stored as None, taken for 'no result', written to the table while the goal was active, and forwarded as a result "
      "(as identifier of an EvalAnd's second conjunct None reads as 'first conjunct'). Reproduced message by message by Engine.tla (Engine_prefix_falseresult.cfg)",
      "0.6::g. t. p :- g, \\+g. p :- r. q :- p. r :- t. r :- q. query(p).   (AssertionError in the default order)")
fixed("FX29-cycle-check-on-released-stack-record", ["C04"], "b1e0c0c",
      "AttributeError ('NoneType' object has no attribute 'parent') in StackBasedEngine.checkCycleActive (introduced by the repair FX27) in the unbuffered engine modes: a cycle child / sibling recorded on an active goal can point at a stack slot that was already released; found by C04 with seed 2",
      "0.6::f(c2). 0.3::f(c1). d(c1). d(c2). p :- f(c2). p :- d(X). q(Y) :- d(Y), p. q(X) :- d(X), q(Y), d(Y), d(Y). r(Y) :- d(Y), q(X). r(c2) :- d(Y), \\+p. s :- q(c2), s. query(r(V)). evidence(r(c2)).   with StackBasedEngine(unbuffered=True)")
fixed("FX1-break-cycles-true-child", ["C01", "C09"], "29bdee9",
      "AssertionError in LogicFormula.get_node(0) from _break_cycles when a disjunction below an evidence node contains the TRUE node",
      "0.1::h(c1). d(c1). d(c2). p(X) :- d(X), r(c1). p(Y) :- d(Y). r(X) :- p(X). r(Y) :- d(Y), h(X). query(p(c1)). evidence(r(c1)).")
fixed("FX2-false-result-forwarded-to-cycle-children", ["C01"], "f363248",
      "wrong probability (1 instead of 0): a FALSE result node forwarded to cycle children turned into a TRUE conjunction in EvalAnd",
      "0.4::g. d(c1). q(Y) :- g. r(Y,Y) :- r(X,Y), d(Y). r(c2,X) :- d(X), g, \\+q(c2). s(X) :- r(Y,X). query(s(c1)).")

json.dump({"comment": "Genuine defects of the pinned ML-KULeuven/problog tree recorded rather than repaired (status known), and defects repaired by a fix: commit (status fixed; suppress nothing). A violation is suppressed only if every key of one 'match' entry equals the violation's signature (clause, error class, raise site / call chain inside problog, engine variant, structural trigger predicates of the program). Generated by tools/mkknown.py; never modified at run time.",
           "findings": F}, open('/verif/known_findings.json', 'w'), indent=1)
print(len(F), "entries")

"""tools/corpus_known.py <ID> [runs] : run the fixed corpus of a check (vlib/checks/<id>.py run_corpus()) on /repo `runs`
times and write the module's KNOWN_CASES file (tools/<id>_corpus_known.json): the (program, mode) pairs that violate C04 on the pinned tree in EVERY run
(known cases, committed) and the programs whose outcome is not the same in every run (excluded from the corpus).
Run by hand on the pinned tree only; the check never writes this file."""
import contextlib, io, json, os, sys
sys.path.insert(0, '/verif')
os.environ["VERIF_SHOW_KNOWN"] = "1"
os.environ.setdefault("PYTHONHASHSEED", "0")      # as ./check does (worker processes inherit it)
os.environ["VERIF_EVIDENCE_DIR"] = "/verif/out/reseed_evidence"
from vlib.core import Ctx
import importlib
PID = sys.argv[1]
c04 = importlib.import_module("vlib.checks." + PID.lower())
runs = int(sys.argv[2]) if len(sys.argv) > 2 else 3
if os.path.exists(c04.KNOWN_CASES):
    os.rename(c04.KNOWN_CASES, c04.KNOWN_CASES + ".old")
per_run = []
for k in range(runs):
    ctx = Ctx(PID)
    buf = io.StringIO()
    with contextlib.redirect_stdout(buf):
        cov = c04.run_corpus(ctx)
    cases = {}
    for v in ctx.violations:
        s = v["sig"]
        cases.setdefault(s["corpus_case"], set()).add(s["clause"] + ("/" + s["error"] if s.get("error") else ""))
    per_run.append(cases)
    print("run", k, "failing cases:", len(cases), cov, file=sys.stderr)
allkeys = set().union(*[set(c) for c in per_run])
stable = sorted(k for k in allkeys if all(k in c for c in per_run))
unstable_prog = sorted({k.split("/")[0] for k in allkeys if not all(k in c for c in per_run)})
stable = [k for k in stable if k.split("/")[0] not in unstable_prog]
json.dump({"note": "%s corpus cases that violate the property on the pinned tree (see DESIGN.md, known findings)" % PID,
           "cases": stable, "what": {k: sorted(per_run[0][k]) for k in stable}, "unstable_programs": unstable_prog},
          open(c04.KNOWN_CASES, "w"), indent=0)
print("known cases:", len(stable), "unstable programs excluded:", len(unstable_prog))

import json, sys
sys.path.insert(0, '/verif')
from vlib.registry import CHECKS, NOT_YET, NOT_APPLICABLE
props = [json.loads(l)['id'] for l in open('/verif/properties.jsonl')]
m = {
 "version": 1,
 "setup_cmd": "./setup.sh",
 "hooks": {
  "guard": "ML_KULEUVEN_PROBLOG_VERIF",
  "enable": "no source hooks: checks import /repo's working tree directly (PYTHONPATH) and observe the engine through the documented init_message_stack extension point and public APIs; ./check exports ML_KULEUVEN_PROBLOG_VERIF=1 for uniformity",
  "baseline_off_cmd": "cd /repo && env -u ML_KULEUVEN_PROBLOG_VERIF /venv/bin/python -m pytest -ra -q -p no:cacheprovider --timeout=900 --continue-on-collection-errors",
  "source_commits": [],
  "add_only": True
 },
 "engines": [
  {"name": "tlc", "path": "/verif/spec", "serves_properties": sorted(CHECKS), "kind_free_text": "TLA+ specifications checked / evaluated by TLC 1.8 (tla2tools.jar); judges read recorded implementation data via the CommunityModules Json module"},
  {"name": "harness", "path": "/verif/vlib", "serves_properties": sorted(CHECKS), "kind_free_text": "Python harness: generates structured inputs, drives the real ProbLog from /repo, records traces/outputs, feeds them to TLC, replays TLC behaviours"}
 ],
 "checks": [],
 "notes": "Entry point ./check <ID> --tier quick|thorough | --replay <path>; exit 2 = machinery failure. Known findings: known_findings.json.",
 "not_applicable": []
}
for pid in props:
    if pid in CHECKS:
        c = CHECKS[pid]
        m["checks"].append({
            "property_id": pid,
            "quick_cmd": "./check %s --tier quick" % pid,
            "thorough_cmd": "./check %s --tier thorough" % pid,
            "evidence_file": "/verif/evidence/%s.json" % pid,
            "replay_cmd_template": "./check %s --replay {path}" % pid,
            "engine": "tlc",
            "level_claimed": {"category": c["category"], "text": c["text"], "design_ref": c.get("design_ref", "DESIGN.md §5")},
            "level_note": c["note"],
            "technique": c["technique"],
        })
    else:
        m["not_applicable"].append({"property_id": pid, "reason": NOT_APPLICABLE.get(pid, NOT_YET)})
json.dump(m, open('/verif/MANIFEST.json', 'w'), indent=1)
import jsonschema
jsonschema.validate(m, json.load(open('/root/.vp/MANIFEST.schema.json')))
print("MANIFEST ok: %d checks, %d not_applicable" % (len(m["checks"]), len(m["not_applicable"])))

"""tools/c17_edges.py : enumerate, ON THE PINNED TREE, every (root, position, child kind) edge over the C17 operator table
and record the edges whose print / re-parse round trip fails.  Output: tools/c17_known_edges.json (input of
tools/mkknown.py; the checks never run this)."""
import itertools, json, sys
sys.path.insert(0, '/verif')
from vlib import pl, terms as T
from vlib.checks import c17

a, b = T.A("a"), T.A("b")
CH = [T.Cm(op, a, b) for op in c17.BIN] + [T.Cm(op, a) for op in c17.UN] + \
     [T.Cm(op, T.I(1)) for op in c17.UN] + [T.Cm(op, T.F(10)) for op in c17.UN] + [T.Cm(op, T.L([a])) for op in c17.UN] + [T.Cm(op, T.A("[]")) for op in c17.UN] + \
     [T.Cm(op, T.Cm(o2, a)) for op in c17.UN for o2 in c17.UN] + \
     [T.I(-3), T.F(-10), T.I(3), T.F(10), a, T.A("A b"), T.A("[]"), T.S("s"), T.V(1), T.L([a, b]), T.L([a], T.V(2)), T.Cm("f", a)]
# children whose own arguments are a list, a number, a parenthesised operator term or a prefix application: what is printed
# right after the parent's operator decides how the text is read back
ARGS = [a, T.L([a]), T.I(1), T.Cm("+", a, b), T.Cm("-", a), T.Cm("\\+", a), T.Cm("\\", a)]
CH += [T.Cm(op, x, y) for op in c17.BIN for x in ARGS for y in ARGS if not (x is a and y is a)]
CH += [T.Cm(op, x) for op in c17.UN for x in ARGS[3:4]]
asts = []
for op in c17.BIN:
    for c in CH:
        asts.append((T.Cm(op, c, b), False)); asts.append((T.Cm(op, a, c), False))
    for c1, c2 in itertools.product(CH[:len(c17.BIN) + 3] + CH[len(c17.BIN) + 3 * len(c17.UN) * 2:len(c17.BIN) + 60:7], repeat=2):
        if (hash((op, json.dumps(c1), json.dumps(c2))) % 7) == 0:
            asts.append((T.Cm(op, c1, c2), False))
for op in c17.UN:
    for c in CH:
        asts.append((T.Cm(op, c), False))
for c in CH:
    asts.append((T.Cm("f", c, b), False)); asts.append((T.Cm("f", a, c), False))
    asts.append((T.L([c, b]), False)); asts.append((T.L([a, c]), False)); asts.append((T.L([a], c), False))
    asts.append((T.Cm(":-", T.Cm("h", a), c), True))
    asts.append((c, False))
cases = [{"id": i, "text": c17.paren(t), "clause": cl} for i, (t, cl) in enumerate(asts)]
res = []
for r in pl.run_jobs([("print_parse", {"cases": cases[i:i + 500]}) for i in range(0, len(cases), 500)], nproc=16, timeout=600, chunksize=1):
    res += r["results"]
known = set()
for o in res:
    if o.get("skip") or o.get("crash"):
        if o.get("crash"):
            print("CRASH", cases[o["id"]]["text"], o["crash"])
        continue
    t = asts[o["id"]][0]
    if o["ok"] != 1:
        if o["stage"] == "parse2":
            for e in (o.get("shape") or "?").split("|"):
                known.add(("printed-text-does-not-parse", e))
        else:
            print("STAGE", o["stage"], cases[o["id"]]["text"], o.get("err"))
        continue
    if o["first"] != o["back"]:
        for e in (o.get("shape") or "?").split("|"):
            known.add(("round-trip-changes-term", e))
out = sorted(known)
json.dump(out, open('/verif/tools/c17_known_edges.json', 'w'), indent=0)
print(len(asts), "ASTs;", len(out), "failing (clause, edge) pairs")

"""tools/thorough_parts.py : run the Layer-B model parts of C05 / C06 / C09 in thorough mode on their own (smoke test of the
thorough configurations without the hour-long program sweeps of those checks).  Writes nothing under /verif/evidence."""
import os
import sys
import time

sys.path.insert(0, '/verif')
os.environ["VERIF_EVIDENCE_DIR"] = "/verif/out/thorough_evidence"
from vlib.core import Ctx                      # noqa: E402
from vlib.checks import c05, c06, c09          # noqa: E402


def c09_part(c):
    cov = {}
    c09.model_and_replay(c, cov)
    return cov


for name, fn, pid in (("C06.propagate_model", c06.propagate_model, "C06"), ("C06.adconstraint_model", c06.adconstraint_model, "C06"),
                      ("C05.evaluator_model", c05.evaluator_model, "C05"), ("C09.model_and_replay", c09_part, "C09")):
    ctx = Ctx(pid, "thorough", 0, 16)
    t = time.time()
    try:
        cov = fn(ctx)
        print(name, "ok %.0fs violations=%d" % (time.time() - t, len(ctx.violations)), str(cov)[:700], flush=True)
    except Exception as e:      # noqa
        print(name, "FAILED %.0fs" % (time.time() - t), type(e).__name__, str(e)[:800], flush=True)

"""Delta-debug a sem replay case: drop statements / body literals while the same clause is violated."""
import copy, json, sys
sys.path.insert(0, '/verif')
from vlib import pl, progs, semcheck

def viol(p, kwargs, clause):
    kw = dict(kwargs); kw['text'] = progs.render(p)
    try:
        J = semcheck.judge([p], nproc=1)[0]
    except Exception as e:
        return False
    r = pl.run_local('prob', **kw)
    vs = semcheck.verdict(p, J, r) or []
    return any(c == clause for c, _ in vs)

def main(path):
    d = json.load(open(path))
    p = d['case']['program']; p.pop('order', None)
    kwargs = d['case']['kwargs']; clause = d['signature']['clause']
    assert viol(p, kwargs, clause), "not reproducible"
    changed = True
    while changed:
        changed = False
        for kind in ('evidence', 'queries', 'rules', 'ads', 'facts'):
            i = 0
            while i < len(p[kind]):
                q = copy.deepcopy(p); del q[kind][i]
                if q['queries'] and viol(q, kwargs, clause):
                    p = q; changed = True
                else:
                    i += 1
        for kind in ('rules', 'ads'):
            for ri in range(len(p[kind])):
                i = 0
                while i < len(p[kind][ri]['body']):
                    q = copy.deepcopy(p); del q[kind][ri]['body'][i]
                    if viol(q, kwargs, clause):
                        p = q; changed = True
                    else:
                        i += 1
        for ai in range(len(p['ads'])):
            i = 0
            while len(p['ads'][ai]['heads']) > 1 and i < len(p['ads'][ai]['heads']):
                q = copy.deepcopy(p); del q['ads'][ai]['heads'][i]
                if viol(q, kwargs, clause):
                    p = q; changed = True
                else:
                    i += 1
    print(progs.render(p))
    J = semcheck.judge([p], nproc=1)[0]
    print(json.dumps(J))
    kw = dict(kwargs); kw['text'] = progs.render(p)
    r = pl.run_local('prob', **kw)
    print({k: v for k, v in r.items() if k != 'tb'})
    print(r.get('tb', '')[-900:])

main(sys.argv[1])

"""tools/mkagent.py [-r ROUND] <ID>... : create /tmp/wt_<id>[rROUND] (scratch worktree of /repo HEAD), /tmp/seed_<id>[rROUND]/{1,2} and print the sub-agent prompt path."""
import json, os, subprocess, sys
props = {json.loads(l)['id']: json.loads(l) for l in open('/verif/properties.jsonl')}
T = open('/verif/tools/agent_prompt_template.txt').read()
ROUND = ''
if sys.argv[1] == '-r':
    ROUND = 'r' + sys.argv[2]
    del sys.argv[1:3]
HINT = ('Prefer a change in a less central code path (a helper, an option, a rarely taken branch, a second implementation of the same idea) over the most obvious function.\n' if ROUND else '')
head, rest = T.split('----\n', 1)
_, tail = rest.rsplit('----\n', 1)
for pid in sys.argv[1:]:
    p = props[pid]
    lid = pid.lower() + ROUND
    wt = '/tmp/wt_' + lid
    if not os.path.exists(wt):
        subprocess.check_call(['git', '-C', '/repo', 'worktree', 'add', '--detach', '-q', wt, 'HEAD'])
    for n in '12':
        os.makedirs('/tmp/seed_%s/%s' % (lid, n), exist_ok=True)
    body = "%s - %s\n\n%s\n\nQuantifier: %s\n\nAnchors (files): %s\n\n" % (pid, p['title'], p['statement'], p['quantifier']['text'], ', '.join(p['anchors']['files']))
    txt = (head + '----\n' + body + '----\n' + tail.replace('Think of the kind', HINT + 'Think of the kind')).replace('c29', lid).replace('C29', pid)
    open('/tmp/agent_prompt_%s.txt' % lid, 'w').write(txt)
    print('/tmp/agent_prompt_%s.txt' % lid)

"""tools/mkagent.py <ID>... : create /tmp/wt_<id> (scratch worktree of /repo HEAD), /tmp/seed_<id>/{1,2} and print the sub-agent prompt path."""
import json, os, subprocess, sys
props = {json.loads(l)['id']: json.loads(l) for l in open('/verif/properties.jsonl')}
T = open('/tmp/agent_prompt_c29.txt').read()
head, rest = T.split('----\n', 1)
_, tail = rest.rsplit('----\n', 1)
for pid in sys.argv[1:]:
    p = props[pid]
    lid = pid.lower()
    wt = '/tmp/wt_' + lid
    if not os.path.exists(wt):
        subprocess.check_call(['git', '-C', '/repo', 'worktree', 'add', '--detach', '-q', wt, 'HEAD'])
    for n in '12':
        os.makedirs('/tmp/seed_%s/%s' % (lid, n), exist_ok=True)
    body = "%s - %s\n\n%s\n\nQuantifier: %s\n\nAnchors (files): %s\n\n" % (pid, p['title'], p['statement'], p['quantifier']['text'], ', '.join(p['anchors']['files']))
    txt = (head + '----\n' + body + '----\n' + tail).replace('c29', lid).replace('C29', pid)
    open('/tmp/agent_prompt_%s.txt' % lid, 'w').write(txt)
    print('/tmp/agent_prompt_%s.txt' % lid)

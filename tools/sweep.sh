#!/bin/sh
# usage: tools/sweep.sh "<seeds>" [checks...]  -> runs quick checks for every seed, prints one line per run
SEEDS="$1"; shift
CHECKS="$@"
[ -z "$CHECKS" ] && CHECKS=$(python3 -c "import json; print(' '.join(c['property_id'] for c in json.load(open('/verif/MANIFEST.json'))['checks']))")
cd /verif
for s in $SEEDS; do for c in $CHECKS; do
  VERIF_SEED=$s ./check $c > out/sweep_${c}_$s.log 2>&1; rc=$?
  echo "seed=$s $c rc=$rc $(tail -1 out/sweep_${c}_$s.log | cut -c1-150)"
done; done

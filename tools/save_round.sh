#!/bin/sh
# usage: tools/save_round.sh <round> <offset> "<missed list like c16r4/1 ...>" : copy every verified seed of a round
# (/tmp/seed_<p>r<round>/<n>) into /verif/seeded/<p>-<n+offset>
R=$1; OFF=$2; MISSED="$3"
cd /verif
for d in /tmp/seed_c??r$R/[12]; do
  p=$(echo $d | sed "s#/tmp/seed_\(c..\)r$R/.#\1#"); n=$(basename $d); id="$p-$((n+OFF))"
  P=$(echo $p | tr c C)
  grep -q "^$d: demo clean=0 patched=1 suite=\[273 passed" out/seed_verify_r3.log || { echo "SKIP $d (not verified)"; continue; }
  m=""; case " $MISSED " in *" ${p}r$R/$n "*) m=$P;; esac
  python3 tools/save_seed.py $d $id $P $d/patch.diff $P "$m" > /dev/null
done
ls seeded | wc -l

"""tools/mkdesign_tables.py : regenerate the tables of DESIGN.md between BEGIN/END markers from committed data."""
import glob, json, os, re, sys
sys.path.insert(0, '/verif')
from vlib.registry import CHECKS
props = [json.loads(l) for l in open('/verif/properties.jsonl')]
title = {p['id']: p['title'] for p in props}

def esc(s):
    return str(s).replace('|', '\\|').replace('\n', ' ')

# ---- checks
out = []
for pid in sorted(CHECKS):
    c = CHECKS[pid]
    out.append("**%s — %s** (`%s`). *%s.* %s %s\n" % (pid, title[pid], c['category'], c['technique'].rstrip('.'), c['text'], c.get('note', '')))
checks = "\n".join(out)

# ---- findings
K = json.load(open('/verif/known_findings.json'))['findings']
fx = [k for k in K if k['status'] == 'fixed']
kn = [k for k in K if k['status'] == 'known']
f = ["**Repaired (`fix:` commits in /repo)**\n", "| id | properties | commit | what failed |", "|---|---|---|---|"]
for k in sorted(fx, key=lambda k: int(re.search(r'FX(\d+)', k['id']).group(1))):
    what = re.sub(r'^fixed: property=\S+ \S+ ', '', k['what'])
    f.append("| %s | %s | `%s` | %s |" % (k['id'], ", ".join(k['properties']), k['commit'], esc(what)[:420]))
f += ["", "**Known findings (recorded, not repaired)**\n", "| id | properties | what fails | witness |", "|---|---|---|---|"]
def kfnum(k):
    m = re.search(r'KF(\d+)(\w?)', k['id'])
    return (int(m.group(1)), m.group(2))
for k in sorted(kn, key=kfnum):
    ps = k['properties']
    pp = ", ".join(ps) if len(ps) <= 6 else "%s … (%d properties that run the engine)" % (", ".join(ps[:4]), len(ps))
    f.append("| %s | %s | %s | `%s` |" % (k['id'], pp, esc(k['what'])[:520], esc(k['witness'])[:260].replace('`', "'")))
findings = "\n".join(f)

# ---- seeds
res = {}
if os.path.exists('/verif/tools/reseed_last.log'):
    for l in open('/verif/tools/reseed_last.log'):
        parts = l.split()
        if len(parts) >= 3:
            res[parts[0]] = " ".join(parts[2:4]) if parts[2].startswith('rc=') else parts[2]
s = ["| seed | property | change (from the author's notes) | missed at first | quick check now |", "|---|---|---|---|---|"]
for d in sorted(glob.glob('/verif/seeded/*/'), key=lambda d: (int(re.search(r'c(\d+)-', d).group(1)), d)):
    sid = os.path.basename(d.rstrip('/'))
    m = json.load(open(d + 'meta.json'))
    notes = open(d + 'notes.md').read() if os.path.exists(d + 'notes.md') else ''
    body = re.sub(r'#+ [^\n]*\n', '', notes)
    body = re.sub(r'\s+', ' ', body).strip()
    r = res.get(sid, "")
    r = {"rc=1": "caught"}.get(r.split()[0], r) if r else "(not re-run)"
    if r.startswith("rc=0"):
        r = "MISSED"
    s.append("| %s | %s | %s | %s | %s |" % (sid, m['property'], esc(body)[:230], ", ".join(m.get('missed_before_strengthening', [])) or "–", r))
seeds = "\n".join(s)
caught = sum(1 for v in res.values() if v.startswith('rc=1'))
seeds += "\n\nQuick-tier result of the last full re-run: %d of %d seeds caught by the check of their own property.\n" % (caught, len(res)) if res else ""

p = '/verif/DESIGN.md'
t = open(p).read()
for name, val in (("checks", checks), ("findings", findings), ("seeds", seeds)):
    t = re.sub(r'<!-- BEGIN:%s -->.*?<!-- END:%s -->' % (name, name), lambda m: '<!-- BEGIN:%s -->\n%s\n<!-- END:%s -->' % (name, val, name), t, flags=re.S)
open(p, 'w').write(t)
print("tables written:", len(CHECKS), "checks,", len(fx), "fixed,", len(kn), "known,", len(s) - 2, "seeds")

#!/bin/sh
# Offline setup: verify tools, parse every spec module, byte-compile the harness. Builds nothing from the network.
set -e
HERE="$(cd "$(dirname "$0")" && pwd)"
cd "$HERE"
command -v java >/dev/null
test -f /opt/veriftools/tla/tla2tools.jar
mkdir -p out evidence
/venv/bin/python -W ignore -m compileall -q vlib >/dev/null
fail=0
for f in spec/*.tla; do
  m=$(basename "$f" .tla)
  if ! (cd spec && java -cp /opt/veriftools/tla/tla2tools.jar:/opt/veriftools/tla/CommunityModules-deps.jar tla2sany.SANY "$m.tla" > "../out/sany_$m.log" 2>&1) || grep -q "\*\*\* Errors\|Semantic errors\|Fatal errors\|Parse Error" "out/sany_$m.log"; then
    echo "SANY failed for $m"; tail -5 "out/sany_$m.log"; fail=1
  fi
done
PYTHONPATH=/repo /venv/bin/python -W ignore -c "import problog" 
exit $fail
